#!/bin/sh
# builds the framework from files on disk only (offline)
set -e
cd "$(dirname "$0")/.."
export CARGO_NET_OFFLINE=true
[ -f harness/Cargo.lock ] || cp /repo/Cargo.lock harness/Cargo.lock
python3 translator/gen_tables.py
(cd lean && lake build Orca orca_model)
python3 translator/gen_tables.py
(cd harness && cargo build --release --offline --quiet)
echo setup-ok
