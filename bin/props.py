"""Registry of the claimed properties: which theorem files, which harness families, how many cases."""

COMMON_TRUST = [
    'correspondence check (differential): harness/ drives the real crate built from /repo on every run and diffs its canonical observations against the Lean driver built from the model files',
    'wasmparser 0.235 (decoder, validator) and the `wat` crate used by the harness to build inputs and to read outputs',
]

PROPS = {
    'C14': {
        'title': 'Added locals get fresh indices of the requested type',
        'props_files': ['Orca/Props/C14.lean'],
        'families': [{'name': 'locals', 'quick_n': 600, 'thorough_n': 60000}],
        'rule': 'generated modules (1-4 functions, random params and run-length local groups over 15 value types) x one of 7 '
                'local-adding API paths x 0-7 additions biased to repeat types; a case is distinct by its case line '
                '(params, stored run-length groups, added types); all cases are non-trivial except adds=0',
        'trusted': COMMON_TRUST + [
            'modelled, not verified: the value-type conversion of each added local (covered by C01/C02 tables), wasm-encoder emitting Body.locals verbatim',
        ],
        'assumptions': ['u32 arithmetic does not overflow (fewer than 2^32 locals)'],
        'design_ref': 'DESIGN.md section 6, C14',
        'level_text': 'Lean 4 theorems over the model of add_local (every local-adding API funnels into it): returned index, declared type, '
                      'frame; tied to the code by a differential run of all seven API paths against the model plus a decoder-based oracle.',
        'technique': 'Lean 4 proof over an executable model of add_local + differential correspondence check',
    },
}

PROPS['C25'] = {
    'title': 'Iterators visit every instruction exactly once in order',
    'props_files': ['Orca/Props/C25.lean'],
    'families': [{'name': 'iter', 'quick_n': 1500, 'thorough_n': 150000}],
    'rule': 'generated modules (0-2 function imports, 0-4 local functions of 1-16 instructions) x skip lists (none / leading / '
            'trailing / all / random / foreign ids, any order) x reset after 0-7 steps; distinct by (metadata, skip list, reset point); '
            'non-trivial unless the module has no local function and the skip list is empty',
    'trusted': COMMON_TRUST + [
        'modelled, not verified: Module::get_func_metadata (the harness checks that curr_op is the operator at the reported location)',
    ],
    'assumptions': ['every function body has at least one instruction (its final end) - true of every parsed or built function'],
    'design_ref': 'DESIGN.md section 6, C25',
    'level_text': 'Lean 4 theorems over the transcribed Func/Module sub-iterator state machines: the client loop reports exactly the '
                  'specified visit list (unbounded metadata and skip lists), no duplicates, reset restarts, totality; tied to the code '
                  'by a differential run of ModuleIterator against the model and an independent expected-visit oracle.',
    'technique': 'Lean 4 proof (invariant over iterator steps) + differential correspondence check',
}
PROPS['C26'] = {
    'title': 'Component iteration and injection match module-level behaviour',
    'props_files': ['Orca/Props/C26.lean'],
    'families': [{'name': 'compiter', 'quick_n': 800, 'thorough_n': 60000}],
    'rule': 'generated components of 1-4 core modules (each 0-1 imports, 0-3 local functions) x per-module skip lists (map entries '
            'present or absent) x reset point x 0-4 injections (before/after/alternate anywhere, semantic_after/block_entry/block_exit/block_alt on block-structured operators; at the cursor or through inject_at with another instruction current) replayed through the component iterator and '
            'through per-module iterators; distinct by case line; non-trivial when at least one module has a visited instruction',
    'trusted': COMMON_TRUST + [
        'the injection half of C26 is decided by the differential oracle (component iterator vs module iterators, encoded modules compared byte for byte), not by a theorem',
        'modelled, not verified: HashMap lookups of per-module metadata/skip lists (as list indexing with empty default)',
    ],
    'assumptions': ['every function body has at least one instruction'],
    'design_ref': 'DESIGN.md section 6, C26',
    'level_text': 'Lean 4 theorems over the transcribed ComponentSubIterator: the client loop reports, module after module, exactly what '
                  'C25 specifies for each module (proved equal to the concatenation of module-iterator traces); injection equivalence by '
                  'differential run.',
    'technique': 'Lean 4 proof (refinement to the per-module specification) + differential correspondence check',
}

PROPS['C28'] = {
    'title': 'Custom sections are preserved and edited exactly',
    'props_files': ['Orca/Props/C28.lean'],
    'families': [{'name': 'custom', 'quick_n': 1200, 'thorough_n': 100000}],
    'rule': '6 base modules x 0-4 custom sections (names incl. duplicates, empty, non-ASCII, producers, known-custom names) inserted at '
            'random positions between the sections x 0-6 edits (add / delete / overwrite / get_id, in- and out-of-range ids); distinct by '
            'case line; non-trivial when there is at least one custom section or edit',
    'trusted': COMMON_TRUST + [
        'modelled, not verified: wasm-encoder CustomSection framing; the rest-of-module frame is decided per case by comparing wasmprinter text of input and output with custom sections stripped',
    ],
    'assumptions': ['a `producers` section, when present, is well-formed (malformed ones are C03)'],
    'design_ref': 'DESIGN.md section 6, C28',
    'level_text': 'Lean 4 theorems over the list model of CustomSections (round trip, add, delete, modify, get_id, history); tied to the code by '
                  'differential runs of random edit histories and an oracle that re-derives the expected section list independently.',
    'technique': 'Lean 4 proof over a list model + differential correspondence check',
}


EDIT_RULE = '8 base-module shapes (0-4 function imports interleaved with global/memory/table/tag imports, 0-4 local functions, globals recognisable by marker or type, 1-3 memories, exports, start, passive/expression/active elements, table initialiser, active data with global.get offsets; some function imports declared with a non-final type, one of them held in a global of that concrete reference type; every entity carries a unique marker, every reference site a unique tag; memory sites over 24 operators incl. the eight SIMD lane accesses) x histories of 0-8 operations over 17 operation kinds (ids chosen among live handles, 1/12 of the sites deliberately target a deleted entity) x optional second encode; one case in five is bounded-exhaustive instead of random: a fixed base per (shape, focus = function / global / memory space) and a history read off the case number digit by digit (bijective numeration) over all operations available in the current world, so that every history of length 0, 1, 2, ... over that alphabet occurs exactly once, shortest first (quick tier: all of length <= 1; thorough: all of length <= 2 and the first ones of length 3, per base and focus); distinct by case line; non-trivial when the history has at least one operation'
EDIT_TRUST = COMMON_TRUST + [
        'state invariant SpaceInv (stored ids = positions; imported entries agree with the import list; unflagged vectors are laid out): proved sufficient for encode (encode_spec), proved inductive over every operation of the edit API (Lemmas/Preserve.lean: stInv_step, stInv_run) and implied for the parsed module by the decidable check stInvB, which the model driver evaluates on the initial state of every generated history (observation line inv=)',
        'modelled, not verified: the operator <-> site-variant table of the harness, wasm-encoder / RoundtripReencoder for everything that is not an index',
    ]
def edit_prop(title, files, keys, level_text, technique, translator=False, quick=2500, thorough=150000, extra_assume=None):
    return {
        'title': title, 'props_files': files, 'translator': translator,
        'families': [{'name': 'edit', 'quick_n': quick, 'thorough_n': thorough, 'keys': keys}],
        'rule': EDIT_RULE, 'trusted': EDIT_TRUST,
        'assumptions': ['fewer than 2^32 entities per index space (u32 arithmetic)'] + (extra_assume or []),
        'design_ref': 'DESIGN.md section 6', 'level_text': level_text, 'technique': technique,
    }

FKEYS = ['retF', 'retX', 'inv', 'F', 'sitesF', 'start']
PROPS['C06'] = edit_prop('Function references stay bound to the same function across edits', ['Orca/Props/C06.lean'], FKEYS,
    'Lean 4 theorems: closed form of reorganise_generic for all vectors (loop invariant), the id map sends every live id to the new position of its '
    'entity and no deleted id anywhere (recalculate_spec), positions are output indices (layout), encode rewrites every stored reference to the '
    'entity it designated or panics on a dangling one (encode_spec), operator tables regenerated from source; tied to the code by differential runs '
    'of random histories with a marker-based oracle on the real output.',
    'Lean 4 proof (loop invariant + refinement of encode to a per-reference specification) + regenerated operator tables + differential correspondence check', translator=True)
PROPS['C07'] = edit_prop('Global references stay bound to the same global across edits', ['Orca/Props/C07.lean'], ['retG', 'inv', 'G', 'sitesG'],
    'Lean 4 theorems: global reference operators table (regenerated), every emitted global reference designates the live global its id designated or encode panics, '
    'ids reported by the three ways of adding a global are the storage positions; same correspondence family as C06, global observations.',
    'Lean 4 proof + regenerated operator tables + differential correspondence check', translator=True)
PROPS['C08'] = edit_prop('Memory references stay bound to the same memory across edits', ['Orca/Props/C08.lean'], ['retM', 'inv', 'M', 'sitesM'],
    'Lean 4 theorems: refers_to_memory / update_memory_instr cover every operator with a memory immediate and every immediate (tables regenerated from the source on every run), '
    'memory references designate the live memory or encode panics, reported ids; correspondence uses 16 memory operator variants incl. atomics rmw/cmpxchg, SIMD, bulk.',
    'Lean 4 proof over regenerated tables (cases over 619 operators) + index-space proof + differential correspondence check', translator=True)
PROPS['C09'] = edit_prop('Deletion removes exactly the deleted entity', ['Orca/Props/C09.lean'], None,
    'Lean 4 theorems: survivors of re-indexing are exactly the non-deleted entries, deleted ids are in no map, the encoded index space has no deleted entity, '
    'encode panics iff a stored reference dangles (encode_spec); oracle checks entity sets and loudness on the real output.',
    'Lean 4 proof + differential correspondence check')
PROPS['C10'] = edit_prop('Replacing an import with a built function redirects all its uses', ['Orca/Props/C10.lean'], FKEYS,
    'Lean 4 theorem: replace_import makes the id of the function carrying that import designate the new body, marks exactly that import entry deleted, keeps every other '
    'function; with C06 every former use designates the new body; correspondence exercises every function import as target among mixed import kinds.',
    'Lean 4 proof + differential correspondence check')
PROPS['C11'] = edit_prop('Converting a local function to an import redirects all its uses', ['Orca/Props/C11.lean'], FKEYS,
    'Lean 4 theorems: convert_local_fn_to_import makes the id designate the new import (entry appended), other functions untouched; the imported prefix of the re-indexed vector is '
    'sorted by import position for every vector (closed_layout), so conversions in any order agree with the import section.',
    'Lean 4 proof + differential correspondence check')
PROPS['C05'] = edit_prop('Encoding again without edits gives the same bytes', ['Orca/Props/C05.lean'], None,
    'PARTIAL. Lean 4 theorem: when no re-indexing is pending the first encode returns the state unchanged, hence the second encode is identical (all injection / initialiser / export / data histories); '
    'the full statement is false of the code (known finding F4, counterexample decided in Lean and replayed on the crate); the oracle compares the bytes of two encodes on every fifth case. The lowering half - special instrumentation resolved in place - is proved without restriction: after resolve_special_instrumentation no special list is left (every body, every plan) and a second resolution changes nothing (Lemmas/LowerIdem.lean).',
    'Lean 4 proof (fixpoint of encode under NoReindexPending) + decided counterexample + differential check of two encodes')
PROPS['C05']['families'].append({'name': 'lower', 'quick_n': 1500, 'thorough_n': 100000})

LOWER_RULE = "generated structured bodies (1-5 top-level statements, nesting <= 3: nop/const/call, block, loop, if/else, br, br_if, br_table, return, unreachable; functions with and without params/locals/results) x injection plans of 0-5 steps (mode at instruction + 1-2 probes, inject_at, empty alternate, empty block alternate, function entry/exit) through one of three API paths (module iterator, component iterator, function modifier); plan class 'plain' (before/after/alternate only) or 'special'; both encodes compared; distinct by case line; non-trivial when the plan is non-empty"
LOWER_TRUST = COMMON_TRUST + [
    'modelled, not verified: which wasmparser operators fall into which Kind (block / loop / if / else / end / branches / exit-like) is fixed by the token parser of the driver; wasm-encoder for the operators themselves',
]
def lower_prop(title, files, level_text, technique, extra_families=None):
    return {
        'title': title, 'props_files': files, 'translator': True,
        'families': [{'name': 'lower', 'quick_n': 2500, 'thorough_n': 200000}] + (extra_families or []),
        'rule': LOWER_RULE, 'trusted': LOWER_TRUST, 'assumptions': ['function bodies are non-empty (end with `end`)'],
        'design_ref': 'DESIGN.md section 6', 'level_text': level_text, 'technique': technique,
    }
PROPS['C15'] = lower_prop('Before/after/alternate injection is lowered exactly', ['Orca/Props/C15.lean'],
    'Lean 4 theorems over the transcribed flag bookkeeping and emission loop: the encoded body is, instruction by instruction, before ++ (alternate | op) ++ after with only '
    'before at the final end; the API appends each injected operator to exactly the addressed list; plain plans need no resolution; tied to the code by differential runs through '
    'three API paths and an oracle that recomputes the specification from the plan alone.',
    'Lean 4 proof + differential correspondence check')
PROPS['C21'] = lower_prop('Block alternate replaces exactly the selected construct', ['Orca/Props/C21.lean'],
    'Lean 4: the resolver is proved to refine a stack machine with a removal state for every body and every plan of block-level probes and block alternates (Lemmas/StackAlt.lean, lower_eq_specA); on the machine the region theorem '
    'holds in any context (c21_region_in_any_context, c21_else_in_any_context): the replacement stands where the construct stood, the plain lists of removed instructions stay, the run continues behind the matching end with the '
    'frames it had in front of the construct; an alternate on an else removes the arm and keeps the end. The skeletons of plan_resolution_block_alt / discard_special_instrumentation are regenerated from the source on every run '
    '(c21_block_alt_code_reviewed). Per case: model comparison, an independent matching-end oracle and a reference-splice oracle.',
    'Lean 4 proof (refinement to a stack machine + region theorem) + regenerated code skeleton (translator) + differential correspondence check')
PROPS['C22'] = lower_prop('Special-mode injections are never silently lost', ['Orca/Props/C22.lean'],
    'Lean 4 theorems: every injection path either marks the function for special resolution or rejects the call; the whole of resolve_special_instrumentation + emission is proved to refine the complete stack machine specRunF for every '
    'plan without instruction-level alternates (lower_eq_specF) and every API history that builds one (ApiPlan); on the machine nothing is lost: function entry / exit code always comes out (lower_keeps_fn), and for plans without block '
    'alternates every before / block-entry / block-exit / semantic-after token comes out except a probe on an unconditional branch that can only go to the function label - finding F15, named in the statement (c22_nothing_is_lost_except_F15). '
    'The skeleton of the resolver loop and of resolve_bodies is regenerated from the source on every run (c22_resolver_code_reviewed). Per case the model is compared with the code and the oracle requires every accepted probe id in the output. '
    'The edit family adds function-exit code injected among additions, deletions and conversions of functions and imports (F35).',
    'Lean 4 proof (refinement to a stack machine, keeps theorems) + regenerated code skeleton (translator) + differential correspondence check',
    extra_families=[{'name': 'edit', 'quick_n': 1500, 'thorough_n': 100000, 'keys': ['inv']}])

PROPS['C24'] = {
    'title': 'Opcode helpers emit exactly the named instruction',
    'props_files': ['Orca/Props/C24.lean'], 'translator': True,
    'families': [{'name': 'helpers', 'quick_n': 2400, 'thorough_n': 200000}],
    'rule': 'case k exercises helper number k mod 200 (so every helper is called at least 12 times in the quick tier) with immediates drawn per parameter type from boundary patterns '
            '(0, 1, 2^(w-1)-1, 2^(w-1), 2^w-2, 2^w-1) and random ones, quiet / signalling / negative NaN patterns for floats, all 25 value types and function types as block types, '
            'abstract and concrete heap types, memargs with both memories; through FunctionBuilder, ModuleIterator and FunctionModifier; distinct by case line; every case is non-trivial',
    'trusted': COMMON_TRUST + [
        'translator/gen_helpers.py (regular expressions over src/opcode.rs, fails closed on any helper whose body is not `self.inject(Operator::X {..}); self` with the eight field-expression shapes it knows); '
        'it also checks in the wasmparser source that Ieee32::from(f32) / Ieee64::from(f64) are plain bit copies',
        'the dictionary Orca/Model/HelperSpec.lean (helper name -> instruction), written and reviewed by hand; the harness oracle re-derives the expected text mnemonic from the helper name by an independent rule and compares it with wasmprinter\'s rendering of the decoded instruction',
        'modelled, not verified: the conversion of BlockType / HeapType arguments (wirm types -> wasmparser types) is carried as an opaque code in the model and checked per case by the correspondence (all value types incl. non-nullable references); Rust `as` casts between u32/i32 and u64/i64 are two\'s-complement reinterpretation (language definition)',
    ],
    'assumptions': ['function / global / memory immediates are valid ids of the test module (encode remaps them; the remapping itself is C06-C08)'],
    'design_ref': 'DESIGN.md section 6, C24',
    'level_text': 'Lean 4 theorems over tables regenerated from src/opcode.rs on every run: for each of the 200 helpers the injected variant is the instruction its name denotes (committed dictionary), the i-th '
                  'parameter fills the i-th immediate through a conversion that provably preserves the bit pattern (to_bits for floats, two\'s-complement reinterpretation for u32_const / u64_const); '
                  'tied to the code additionally by calling every helper through three API paths and decoding the encoded module.',
    'technique': 'Lean 4 proof by cases over tables regenerated from the source (translator) + bit-pattern lemmas + differential correspondence check',
}

PROPS['C13'] = {
    'title': 'Added types are exact and deduplicated',
    'props_files': ['Orca/Props/C13.lean'],
    'families': [{'name': 'types', 'quick_n': 2000, 'thorough_n': 200000}],
    'rule': 'generated modules with 0-6 types (function / struct / array types over 25 value types, packed fields, concrete references, subtypes; 2/5 of the types duplicate an earlier one; '
            'random grouping into implicit groups and explicit `rec` groups of one or two members) x 1-6 requests through the six add_*_type entry points (1/5 equal to a parsed type, 1/5 equal '
            'to an earlier request, shared / non-final / with supertype), every request issued twice; distinct by case line; non-trivial always',
    'trusted': COMMON_TRUST + [
        'modelled, not verified: the value-type and storage-type conversions inside a type (carried as canonical text; covered per case by decoding the encoded section), wasm-encoder\'s layout of sub / rec / composite types, '
        'that parse assigns type ids in section order and records groups in order (hypothesis hgroups of c13_parsed_wf, checked per case by comparing the model\'s encoded section with the decoded one)',
    ],
    'assumptions': ['fewer than 2^32 types', 'struct requests give one mutability flag per field (otherwise add_struct_type panics at encode, loudly)'],
    'design_ref': 'DESIGN.md section 6, C13',
    'level_text': 'Lean 4 theorems over the model of ModuleTypes (types, dedup map, recursion groups, new, add_type, emission by groups): for every well-formed state and every request the encoded section holds exactly the '
                  'requested type at the returned index, an identical request returns the same index and changes nothing, existing indices and contents are untouched, the invariant is kept (so the statement extends to all sequences), '
                  'and the state after parsing is well-formed for every hash iteration order; tied to the code by differential runs of all six entry points with a decoder-based oracle.',
    'technique': 'Lean 4 proof (state invariant preserved by add_type; unbounded sequences by induction) + differential correspondence check',
}
PROPS['C04'] = {
    'title': 'Encoding is deterministic',
    'props_files': ['Orca/Props/C04.lean'], 'translator': True, 'processes': 3,
    'families': [{'name': 'types', 'quick_n': 1500, 'thorough_n': 100000}, {'name': 'lower', 'quick_n': 1500, 'thorough_n': 100000},
                 {'name': 'edit', 'quick_n': 800, 'thorough_n': 50000}, {'name': 'sem', 'quick_n': 1000, 'thorough_n': 50000}],
    'rule': 'the cases of the types family (duplicate types + requests), of the lower and sem families (special-mode plans, whose resolution iterates hash maps) and of the edit family (re-indexing through hash maps) are each '
            'executed in 3 separate OS processes (fresh hash seeds) and the encoded bytes compared; distinct by case line; non-trivial always',
    'trusted': COMMON_TRUST + [
        'translator/scan_sites.py (regular expressions: identifiers declared as HashMap / HashSet, values bound out of maps of maps, iteration methods and for-loops over them); an iteration it cannot see is not covered by the theorems - the multi-process comparison is the net for those',
        'the actual hash seeds are sampled (3 processes per case), not enumerated',
        'modelled, not verified: everything in encode that only looks hash maps up (id mappings, types by id)',
    ],
    'assumptions': ['the same input bytes and the same sequence of API calls'],
    'design_ref': 'DESIGN.md section 6, C04',
    'level_text': 'Lean 4 theorems: the list of hash-map iterations in /repo/src (re-extracted on every run) is the reviewed one; the dedup map built by ModuleTypes::new answers every lookup independently of the iteration order '
                  '(for all type lists and all permutations); flushing Before- and After-bodies in either order emits the same code. Tied to the code by encoding every generated case in three processes.',
    'technique': 'Lean 4 proof (permutation invariance) + regenerated site list (translator) + multi-process differential check',
}

ADDS_RULE = ('generated base modules (0-2 function / 0-2 global / 0-1 memory imports in random interleaving, 1-3 marked local globals, 2-4 local functions with named parameters and locals, named functions and '
             'globals, optional data-count section) x histories of 1-7 operations: build a function (0-2 params, 0-2 results, 0-4 locals over 25 value types with repeats, random body incl. NaN constants, optional name), '
             'add_global (i32/i64/f32/f64/v128/funcref/(ref func); initialisers: boundary constants, NaN patterns, global.get of an import, ref.func, ref.null), mod_global_init_expr, add_data (passive / active with '
             'constant or global.get offset), add_local_memory / add_import_memory (limits, shared), add_export_func / add_export_mem, add_import_func, add_imported_global, delete_func, set_fn_name; every returned id is used '
             '(exports, witness functions reading added globals); distinct by case line; non-trivial always')
ADDS_TRUST = COMMON_TRUST + [
    'the index-space model M2 (C06-C11) under its state invariant; content that the model passes through unchanged (types, limits, bytes, names of exports) is decided per case by the decoder-based oracle of the adds family',
    'modelled, not verified: wasm-encoder for everything below the level of "which instruction with which immediates"; Rust float moves f32::from_bits / to_bits (sampled with signalling-NaN patterns)',
]
def adds_prop(title, files, level_text, technique, translator=False):
    return {
        'title': title, 'props_files': files, 'translator': translator,
        'families': [{'name': 'adds', 'quick_n': 2500, 'thorough_n': 200000}],
        'rule': ADDS_RULE, 'trusted': ADDS_TRUST, 'assumptions': ['fewer than 2^32 entities per index space'],
        'design_ref': 'DESIGN.md section 6', 'level_text': level_text, 'technique': technique,
    }
PROPS['C12'] = adds_prop('Built functions appear exactly as built', ['Orca/Props/C12.lean'],
    'Lean 4 theorems, one per clause: body = built instructions + one end and emitted verbatim (M14, M3), declared locals = requested sequence with fresh consecutive indices (M6), the function type is interned exactly and '
    'frames the existing types (M5), the returned id is the storage position that encode maps to the output index (M2), the name is handed over unchanged (M13/C29); tied to the code by building random functions among renumbering edits and decoding the output.',
    'Lean 4 proof (composition of the builder, locals, types, emission and index-space models) + differential correspondence check')
PROPS['C12']['families'].append({'name': 'edit', 'quick_n': 1500, 'thorough_n': 100000, 'keys': ['inv']})
PROPS['C12']['rule'] += ' Also the edit family: functions built with the function builder (added, or put in the place of an import) among additions, deletions and conversions - an encoded module that cannot be decoded holds no built function.'
PROPS['C10']['families'].append({'name': 'adds', 'quick_n': 1500, 'thorough_n': 100000})
PROPS['C10']['rule'] += ' Also the adds family: replacements built with locals and names of their own (runs of locals of one type included), decoded from the output and compared with what was built.'
PROPS['C30'] = adds_prop('Module-level additions appear exactly as requested', ['Orca/Props/C30.lean'],
    'Lean 4 theorems: every InitInstr variant is encoded as the instruction it denotes and every constant payload keeps its bit pattern (tables regenerated from InitExpr::to_wasmencoder_type; f32/f64 through to_bits, '
    'v128 through u128-as-i128 and little-endian bytes: proved for all 16-byte vectors); reported ids are storage positions; mod_global_init_expr changes that initialiser only. Types, limits, bytes and export targets are '
    'decided per case by decoding the output of random addition histories.',
    'Lean 4 proof over tables regenerated from the source (translator) + bit-pattern lemmas + differential correspondence check', translator=True)
PROPS['C29'] = adds_prop('Names stay attached to their entities', ['Orca/Props/C29.lean'],
    'Lean 4 theorems over the names model (M13) on top of M1/M2: the name section names a local function\'s new index with exactly the name stored on that function, set_fn_name stores the name on the designated function only, '
    'local and global names are re-keyed with the id map, which sends each live id to the new position of the same entity and deleted ids nowhere; emitted maps are sorted. After the repairs F24 and F33 the property holds on the whole input space of the adds family.',
    'Lean 4 proof (names model + re-indexing theorem) + differential correspondence check')

RT_RULE = ('every .wat / .wasm core module under /repo/tests/test_inputs that wasmparser validates (~80) first, then modules composed of 1-6 fragments from a library of 19 feature fragments (MVP control flow / memory / '
           'tables / globals, multi-value, reference types, bulk memory, SIMD, tail calls, typed function references, GC with rec groups and subtypes, exception handling with exnref and the legacy form, threads, '
           'multi-memory, memory64, start, names of every kind, custom sections); inputs that do not validate or use extended constant expressions are skipped and counted; distinct by case line; non-trivial always')
RT_TRUST = COMMON_TRUST + [
    'translator/gen_valtypes.py and translator/gen_constexpr.py (regular expressions over src/ir/types.rs; fail closed on any arm they do not understand)',
    'modelled, not verified: everything wasm-encoder\'s RoundtripReencoder does to instructions, tables, elements, tags, memories, imports, exports and data bytes (compared per case on wasmprinter text of input and output); '
    'validity is wasmparser\'s verdict per case - that it depends only on decoded content is a hypothesis of c01_valid_preserved',
]
def rt_prop(title, files, level_text, technique):
    return {
        'title': title, 'props_files': files, 'translator': True,
        'families': [{'name': 'roundtrip', 'quick_n': 1200, 'thorough_n': 60000}],
        'rule': RT_RULE, 'trusted': RT_TRUST, 'assumptions': ['the input module validates under wasmparser with all features enabled', 'no extended constant expressions (the IR has no representation for them)'],
        'design_ref': 'DESIGN.md section 6', 'level_text': level_text, 'technique': technique,
    }
PROPS['C01'] = rt_prop('Unmodified parse-then-encode yields a valid module', ['Orca/Props/C01.lean'],
    'PARTIAL (validity itself is not a theorem). Lean 4 theorems over conversion tables regenerated from the source: value-type parsing is total, on the represented profile encoding what was parsed is total and the identity (C02), '
    'every constant-expression operator of the profile is accepted, the two IR-to-wire routes agree; validity carries over under the stated hypothesis. The roundtrip family validates every fixture and generated module before and after.',
    'Lean 4 proof by cases over tables regenerated from the source (translator) + differential correspondence check with wasmparser\'s validator as oracle')
PROPS['C02'] = rt_prop('Unmodified round trip preserves module content', ['Orca/Props/C02.lean'],
    'Lean 4 theorems: value types of the represented profile, constant-expression operators with their payload bits (v128 for all 16-byte vectors), the type section with its recursion groups (for every hash order), local declarations '
    'round-trip to themselves (tables regenerated from the source on every run); names and custom sections by C29 / C28. The pass-through payloads are compared per case: printed text, every name map, custom sections in order.',
    'Lean 4 proof by cases over tables regenerated from the source (translator) + bit-pattern lemmas + differential correspondence check')

PROPS['C03'] = {
    'title': 'Parsing never panics',
    'props_files': ['Orca/Props/C03.lean'], 'translator': True,
    'families': [{'name': 'parse', 'quick_n': 12000, 'thorough_n': 1500000}],
    'rule': 'seeds: the ~120 module and component fixtures of the repository, generated feature-zoo modules (alone and wrapped in a component), generated trees of nested components (depth <= 4); 1/12 unmutated, the rest one of 16 mutations: '
            'truncation, 1-4 byte flips, splice, duplicated / moved / dropped section, rewritten item count, a function-name entry with an arbitrary index, a name section in front of the code section, empty and malformed producers sections, '
            'a global with non-constant / extended-constant / unterminated initialiser, a function section pointing at a missing or non-function type, a garbage tag section, malformed name maps of every other kind, random bytes behind a module or '
            'component header, random bytes; each mutant goes to Module::parse (multi-memory flag off and on) and Component::parse under catch_unwind; distinct by case line; non-trivial always',
    'trusted': COMMON_TRUST + [
        'the event extractor harness/src/parse_facts.rs (it must read what parse_internal reads, in the same order; tied to the code by the OK / ERR agreement on every mutant)',
        'NOT covered by the theorem: panics inside wasmparser / wasm-encoder, allocation failure, stack exhaustion by anything but the (now bounded, c03_component_nesting_bounded) recursion of parse_comp over nested components, and Component::parse\'s own guards beyond the two repaired slicing sites - these are sampled by the mutants only (label PARTIAL)',
    ],
    'assumptions': ['the host has enough stack for the nesting depth of the input'],
    'design_ref': 'DESIGN.md section 6, C03',
    'level_text': 'PARTIAL. Lean 4 theorem over the model of Module::parse_internal\'s own control flow (every indexing / lookup is a panic leaf): for every list of parse events, in any order and of any length, the result is a module or an error, never a panic - '
                  'the count checks are what make the indexing safe; constant expressions are accepted exactly for the operators of the table regenerated from InitExpr::eval. Tied to the code by predicting OK / ERR for every mutant; panics anywhere (incl. the libraries and Component::parse) are caught by the oracle.',
    'technique': 'Lean 4 proof (guards imply safety of every indexing, for all event lists) + differential correspondence check on byte-level mutants',
}
PROPS['C23'] = {
    'title': 'Side-effect report lists exactly the tagged additions and probes',
    'props_files': ['Orca/Props/C23.lean'],
    'families': [{'name': 'sidefx', 'quick_n': 6000, 'thorough_n': 400000}],
    'rule': 'generated base modules (0-2 imported functions / globals, 1-3 local functions from 6 body templates with blocks, loops, if/else and branches, 0-2 local globals, an imported or local memory, '
            'exports, a data segment, 1-6 function types) x histories of 2-10 operations: add_func_type, add_import_func / add_imported_global / add_import_memory, FunctionBuilder::finish_module, add_global (constant or '
            'global.get initialiser), add_local_memory, add_export_func, add_data (active / passive) - each through the _with_tag API with a unique tag, through the plain API (default tag) or with no tag where the API takes an Option - '
            'deletions of added functions / globals / exports, and probes (before / after / alternate / semantic_after / block_entry / block_exit / block_alt / function entry / exit, with or without append_tag_at, '
            'several injections into one list) whose bodies call functions and read globals by the ids the caller holds; the history is applied to two parses, one encoded and one pulled; '
            'three case classes: plain modes only, special modes on separate functions, both mixed (probe records of mixed cases are judged by the oracle only); distinct by case line; all non-trivial',
    'trusted': COMMON_TRUST + [
        'M2 (Orca.Edit) supplies the id maps (its theorems are C05-C09)',
        'modelled, not verified: where special modes are lowered to (M3) is not repeated in M12 - function entry / exit bodies are compared per case, block-level lists only through the oracle; '
        'the text of record contents (signatures, import names, initialisers) is produced by the driver from the same markers the harness uses',
    ],
    'assumptions': ['the history deletes only added entities nothing refers to (a reference to a deleted function makes the encoder panic, which is C09\'s subject)'],
    'design_ref': 'DESIGN.md section 6, C23',
    'level_text': 'Lean 4 theorems, for every parsed module and every history of additions, deletions and probes: nothing the parser built is reported; each tagged addition appends exactly one record with its tag and content to its kind and '
                  'nothing else; an untagged addition or an already present signature appends none; a deletion removes exactly that record (and the import entry\'s); one record per probe list; the body of every before / after / alternate '
                  'record is a contiguous run of the code the function is encoded with, through the same id maps. PARTIAL: lowering of special modes is not in M12 (function entry / exit records are compared per case; block-level tags are '
                  'lost - finding F25). Tied to the code by predicting the whole report of every case and by an oracle that reads the encoded module.',
    'technique': 'Lean 4 proof (invariant by induction over histories, one-step refinement lemmas per operation, permutation and infix lemmas) + differential correspondence check',
}
PROPS['C27'] = {
    'title': 'Component round trip preserves structure at any nesting depth',
    'props_files': ['Orca/Props/C27.lean'], 'translator': True,
    'families': [{'name': 'comp', 'quick_n': 1500, 'thorough_n': 100000}],
    'rule': 'the component fixtures of the repository that validate, then generated component trees: nesting depth 0-4, each level 1-6 items drawn from 12 pieces (core modules, core instances + aliases + lifted functions + exports, lowered imports, '
            'a zoo of defined types, resources, stream / future types at top level and inside instance and component type declarations, imports of functions and instances, core module types, custom sections) and nested components, some instantiated; '
            'distinct by case line; non-trivial always',
    'trusted': COMMON_TRUST + [
        'modelled as the identity, not verified: the conversion of the contents of component-level sections (component.rs, wrappers.rs, wasm-encoder\'s re-encoder): compared per case on wasmprinter text of input and output; nested core modules are C01/C02; of these conversions, the arms over component defined types are regenerated from the source on every run (translator/scan_deftypes.py) and checked against a committed dictionary (c27_defined_type_arms)',
    ],
    'assumptions': ['the input component validates under wasmparser with all features enabled'],
    'design_ref': 'DESIGN.md section 6, C27',
    'level_text': 'Lean 4 theorems, for every component tree of any width and depth: the payload loop of parse_comp records exactly the component\'s own sections and direct children (nested payloads at any depth are skipped, nothing twice), and replaying the '
                  'recorded runs with one cursor per kind restores the original item order however sections were cut or merged. Contents of sections are compared per case (text equality, validator) on generated trees up to depth 4.',
    'technique': 'Lean 4 proof (structural induction over nested component trees; run-length replay invariant) + differential correspondence check',
}

SEM_RULE = ("generated terminating programs of the core fragment (0-2 i32 params, 0-2 results, globals, one memory, three callees incl. one with side effects; statements: "
            "log, local/global set, store, drop, block, counted loop, if/else, br, br_if, br_table, return, unreachable; expressions incl. value-producing block / if, loads, "
            "division that may trap, calls; nesting <= 3) x injection plans of 1-6 steps over before / after / semantic_after / block_entry / block_exit / function entry / exit "
            "with reporting probes `i32.const id; call $log`, through module iterator, component iterator or function modifier x 3 argument vectors; the decoded output of the crate "
            "is compared with the tree model's lowering (when in its scope; the flat model's otherwise) and executed by the Lean interpreter next to the monitored original; "
            "distinct by case line; non-trivial when the plan is non-empty")
SEM_TRUST = COMMON_TRUST + [
    'the structured semantics Orca.Sem (run / runOne: i32 fragment, big-step with fuel) as a reading of the WebAssembly specification, and its monitor switch as the reading of C16-C20 (the monitor rules are restated as theorems c1x_monitor_* in each property file so that they can be audited against the property text)',
    'execution is by the compiled Lean interpreter (no wasm engine exists in the sandbox); validity of instrumented modules is wasmparser\'s verdict per generated case, not a theorem',
    'modelled, not verified: the token <-> instruction parser of the driver (parseOp / kindOfTok). Inside the tree scope the placement equivalence tree model = code model is a theorem (Lemmas/Bridge.lean, cNN_code_lowering_is_tree_lowering: M3 applied to the flattened annotated function gives the tokens of lowerF); outside it (before-code on instruction 0 together with function-level probes; >= 3 flagged bodies at one end; flagged branches to loops) the flat model M3 (tied to the code by the lower family) is printed instead',
]
def sem_prop(title, files, level_text, technique, with_lower=False):
    return {
        'title': title, 'props_files': files, 'translator': True,
        'families': [{'name': 'sem', 'quick_n': 2500, 'thorough_n': 250000}] + ([{'name': 'lower', 'quick_n': 1500, 'thorough_n': 100000}] if with_lower else []),
        'rule': SEM_RULE + (' Also the injection plans of the `lower` family (every mode incl. block alternates, clear_instr_at, three API paths, flat model M3): a probe of this property\'s mode that is accepted and not in the encoded function is a violation.' if with_lower else ''),
        'trusted': SEM_TRUST,
        'assumptions': ['terminating executions only (the theorems quantify over runs that finish with some fuel)', 'activations start with an empty operand stack'],
        'design_ref': 'DESIGN.md section 6', 'level_text': level_text, 'technique': technique,
    }
PROPS['C16'] = sem_prop('Instrumentation with neutral probes preserves program behaviour', ['Orca/Props/C16.lean'],
    'Lean 4 theorems over the structured semantics: (1) simulation - the lowered function run with the monitor off yields exactly the monitored outcome (results, trap, state, trace) for every program without '
    'semantic-after on branches, every state, every terminating run (induction on fuel); (2) monitor erasure - with or without monitor the outcome is the same up to the trace, for all programs; hence the '
    'instrumented function behaves as the original. Validity of the output is decided per case by wasmparser (known finding F27). Tied to the code by executing the decoded output of the crate.',
    'Lean 4 proof (simulation by induction on fuel + monitor erasure) + differential correspondence and execution in the Lean interpreter')
PROPS['C17'] = sem_prop('Function entry/exit probes fire once per call on every normal path', ['Orca/Props/C17.lean'],
    'Lean 4 theorem lowerF_sim: entry probes, wrapper block, exit probes and the copies in front of return / unreachable reproduce the monitored activation exactly (fall-through, return, branch to the function label from any depth, unreachable), results unchanged; '
    'for all bodies without semantic-after on branches. Tied to the code by the sem family.',
    'Lean 4 proof (function-level simulation) + differential correspondence and execution in the Lean interpreter', with_lower=True)
PROPS['C17']['families'].append({'name': 'edit', 'quick_n': 1500, 'thorough_n': 100000, 'keys': ['inv']})
PROPS['C17']['rule'] += ' Also the edit family: function-exit code injected into functions among additions, deletions and conversions of functions and imports must reach the encoded function (F35).'
PROPS['C18'] = sem_prop('Block entry probes fire on every entry into the block', ['Orca/Props/C18.lean'],
    'Lean 4 theorem: the lowered program reproduces the monitored trace, in which entry probes fire at every entry of a block / loop iteration / if arm and nowhere else; all programs without semantic-after on branches.',
    'Lean 4 proof (simulation by induction on fuel) + differential correspondence and execution in the Lean interpreter', with_lower=True)
PROPS['C19'] = sem_prop('Block exit probes fire when the block or arm falls through', ['Orca/Props/C19.lean'],
    'Lean 4 theorem: the lowered program reproduces the monitored trace, in which exit probes fire exactly when the body / arm falls through; after the repair of F13 the placement for `if` is the arm\'s own else/end for arbitrarily nested arms.',
    'Lean 4 proof (simulation by induction on fuel) + differential correspondence and execution in the Lean interpreter', with_lower=True)
PROPS['C20'] = sem_prop('Semantic-after probes fire exactly once after the instruction', ['Orca/Props/C20.lean'],
    'PARTIAL. Lean 4: full theorem for semantic-after on block / if / else (fall-through and branch to the label). For branches the code\'s flag scheme (a flag local per annotated branch, 1 before / 0 after, a chain of checks behind '
    'the target\'s end, never cleared) is modelled and proved to reproduce the monitored outcome and trace on its scope - annotations on br / br_if, no loop contains the target of an annotated branch, no annotated branch to the '
    'function label, distinct flag locals untouched by the program and 0 on entry - for every program, nesting and terminating execution in the scope, up to the flag locals (c20_branch_partial, c20_function_partial: simulation with an '
    'inductive flag invariant). Outside the scope the statement is false of the code in two recorded ways, each decided in the kernel on a concrete program and reproduced on the crate by the sem family: F14 (flag never cleared: '
    'br_table with two targets, targets in loops) and F15 (function label).',
    'Lean 4 proof (constructs: simulation; branches: simulation up to flag locals with an inductive invariant, on the stated scope) + kernel-decided counterexamples outside the scope + differential correspondence and execution in the Lean interpreter', with_lower=True)

# the code-skeleton ties (translator/scan_resolver.py, translator/scan_api.py) are regenerated for these on every run
for _p in ['C06', 'C07', 'C09', 'C10', 'C11', 'C12', 'C13', 'C14', 'C17', 'C18', 'C19', 'C20', 'C21', 'C22', 'C25', 'C26', 'C29', 'C30']:
    PROPS[_p]['translator'] = True
    PROPS[_p]['trusted'] = list(PROPS[_p]['trusted']) + [
        'translator/scan_resolver.py / translator/scan_api.py (regular expressions: control keywords, calls, Operator:: names, mode names and assignments of the functions the model transcribes, in source order); they tie the *shape* of the code to the reviewed copy the model was written against, not its expressions - a changed operand or comparison inside an unchanged skeleton is left to the correspondence check']
for _p, _what in [('C05', 'translator/scan_writes.py (regular expressions: every assignment through a field path, mutable borrow and mutating call in `encode_internal`, in source order; a write through an alias the patterns do not recognise as mutating is not listed and is left to the correspondence check)'),
                   ('C23', 'translator/scan_sidefx.py (regular expressions: every call of `add_injection` with its literal key, record variant and field names, and the (mode, list) pairs of the probe closures; fails closed on a call whose key or record is not literal)'),
                   ('C28', 'translator/scan_api.py in word-for-word mode for the six `CustomSections` functions (white space normalised; any change of their text breaks the obligation)')]:
    PROPS[_p]['translator'] = True
    PROPS[_p]['trusted'] = list(PROPS[_p]['trusted']) + [_what]
ALL_IDS = ['C%02d' % i for i in range(1, 31)]
