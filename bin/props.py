"""Registry of the claimed properties: which theorem files, which harness families, how many cases."""

COMMON_TRUST = [
    'correspondence check (differential): harness/ drives the real crate built from /repo on every run and diffs its canonical observations against the Lean driver built from the model files',
    'wasmparser 0.235 (decoder, validator) and the `wat` crate used by the harness to build inputs and to read outputs',
]

PROPS = {
    'C14': {
        'title': 'Added locals get fresh indices of the requested type',
        'props_files': ['Orca/Props/C14.lean'],
        'families': [{'name': 'locals', 'quick_n': 600, 'thorough_n': 60000}],
        'rule': 'generated modules (1-4 functions, random params and run-length local groups over 15 value types) x one of 7 '
                'local-adding API paths x 0-7 additions biased to repeat types; a case is distinct by its case line '
                '(params, stored run-length groups, added types); all cases are non-trivial except adds=0',
        'trusted': COMMON_TRUST + [
            'modelled, not verified: the value-type conversion of each added local (covered by C01/C02 tables), wasm-encoder emitting Body.locals verbatim',
        ],
        'assumptions': ['u32 arithmetic does not overflow (fewer than 2^32 locals)'],
        'design_ref': 'DESIGN.md section 6, C14',
        'level_text': 'Lean 4 theorems over the model of add_local (every local-adding API funnels into it): returned index, declared type, '
                      'frame; tied to the code by a differential run of all seven API paths against the model plus a decoder-based oracle.',
        'technique': 'Lean 4 proof over an executable model of add_local + differential correspondence check',
    },
}

PROPS['C25'] = {
    'title': 'Iterators visit every instruction exactly once in order',
    'props_files': ['Orca/Props/C25.lean'],
    'families': [{'name': 'iter', 'quick_n': 1500, 'thorough_n': 150000}],
    'rule': 'generated modules (0-2 function imports, 0-4 local functions of 1-16 instructions) x skip lists (none / leading / '
            'trailing / all / random / foreign ids, any order) x reset after 0-7 steps; distinct by (metadata, skip list, reset point); '
            'non-trivial unless the module has no local function and the skip list is empty',
    'trusted': COMMON_TRUST + [
        'modelled, not verified: Module::get_func_metadata (the harness checks that curr_op is the operator at the reported location)',
    ],
    'assumptions': ['every function body has at least one instruction (its final end) - true of every parsed or built function'],
    'design_ref': 'DESIGN.md section 6, C25',
    'level_text': 'Lean 4 theorems over the transcribed Func/Module sub-iterator state machines: the client loop reports exactly the '
                  'specified visit list (unbounded metadata and skip lists), no duplicates, reset restarts, totality; tied to the code '
                  'by a differential run of ModuleIterator against the model and an independent expected-visit oracle.',
    'technique': 'Lean 4 proof (invariant over iterator steps) + differential correspondence check',
}
PROPS['C26'] = {
    'title': 'Component iteration and injection match module-level behaviour',
    'props_files': ['Orca/Props/C26.lean'],
    'families': [{'name': 'compiter', 'quick_n': 800, 'thorough_n': 60000}],
    'rule': 'generated components of 1-4 core modules (each 0-1 imports, 0-3 local functions) x per-module skip lists (map entries '
            'present or absent) x reset point x 0-4 injections (before/after/alternate) replayed through the component iterator and '
            'through per-module iterators; distinct by case line; non-trivial when at least one module has a visited instruction',
    'trusted': COMMON_TRUST + [
        'the injection half of C26 is decided by the differential oracle (component iterator vs module iterators, encoded modules compared byte for byte), not by a theorem',
        'modelled, not verified: HashMap lookups of per-module metadata/skip lists (as list indexing with empty default)',
    ],
    'assumptions': ['every function body has at least one instruction'],
    'design_ref': 'DESIGN.md section 6, C26',
    'level_text': 'Lean 4 theorems over the transcribed ComponentSubIterator: the client loop reports, module after module, exactly what '
                  'C25 specifies for each module (proved equal to the concatenation of module-iterator traces); injection equivalence by '
                  'differential run.',
    'technique': 'Lean 4 proof (refinement to the per-module specification) + differential correspondence check',
}

PROPS['C28'] = {
    'title': 'Custom sections are preserved and edited exactly',
    'props_files': ['Orca/Props/C28.lean'],
    'families': [{'name': 'custom', 'quick_n': 1200, 'thorough_n': 100000}],
    'rule': '6 base modules x 0-4 custom sections (names incl. duplicates, empty, non-ASCII, producers, known-custom names) inserted at '
            'random positions between the sections x 0-6 edits (add / delete / overwrite / get_id, in- and out-of-range ids); distinct by '
            'case line; non-trivial when there is at least one custom section or edit',
    'trusted': COMMON_TRUST + [
        'modelled, not verified: wasm-encoder CustomSection framing; the rest-of-module frame is decided per case by comparing wasmprinter text of input and output with custom sections stripped',
    ],
    'assumptions': ['a `producers` section, when present, is well-formed (malformed ones are C03)'],
    'design_ref': 'DESIGN.md section 6, C28',
    'level_text': 'Lean 4 theorems over the list model of CustomSections (round trip, add, delete, modify, get_id, history); tied to the code by '
                  'differential runs of random edit histories and an oracle that re-derives the expected section list independently.',
    'technique': 'Lean 4 proof over a list model + differential correspondence check',
}

ALL_IDS = ['C%02d' % i for i in range(1, 31)]
