"""Registry of the claimed properties: which theorem files, which harness families, how many cases."""

COMMON_TRUST = [
    'correspondence check (differential): harness/ drives the real crate built from /repo on every run and diffs its canonical observations against the Lean driver built from the model files',
    'wasmparser 0.235 (decoder, validator) and the `wat` crate used by the harness to build inputs and to read outputs',
]

PROPS = {
    'C14': {
        'title': 'Added locals get fresh indices of the requested type',
        'props_files': ['Orca/Props/C14.lean'],
        'families': [{'name': 'locals', 'quick_n': 600, 'thorough_n': 60000}],
        'rule': 'generated modules (1-4 functions, random params and run-length local groups over 15 value types) x one of 7 '
                'local-adding API paths x 0-7 additions biased to repeat types; a case is distinct by its case line '
                '(params, stored run-length groups, added types); all cases are non-trivial except adds=0',
        'trusted': COMMON_TRUST + [
            'modelled, not verified: the value-type conversion of each added local (covered by C01/C02 tables), wasm-encoder emitting Body.locals verbatim',
        ],
        'assumptions': ['u32 arithmetic does not overflow (fewer than 2^32 locals)'],
        'design_ref': 'DESIGN.md section 6, C14',
        'level_text': 'Lean 4 theorems over the model of add_local (every local-adding API funnels into it): returned index, declared type, '
                      'frame; tied to the code by a differential run of all seven API paths against the model plus a decoder-based oracle.',
        'technique': 'Lean 4 proof over an executable model of add_local + differential correspondence check',
    },
}

ALL_IDS = ['C%02d' % i for i in range(1, 31)]
