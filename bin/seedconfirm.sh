#!/bin/sh
# bin/seedconfirm.sh <name>: in a scratch worktree of /repo's HEAD, does seeded/<name>'s demo still fail with the change and pass without it?
name=$1
root="$(cd "$(dirname "$0")/.." && pwd)"
d=$root/seeded/$name
patch=$d/patch.diff; [ -f $d/patch.rebased.diff ] && patch=$d/patch.rebased.diff
wt=/tmp/wtc_$name
git -C /repo worktree remove --force $wt >/dev/null 2>&1
git -C /repo worktree add -q --detach $wt HEAD || exit 2
cp $d/seeded_demo.rs $wt/tests/seeded_demo.rs
cd $wt
without=$(CARGO_TARGET_DIR=$wt/target cargo test --offline --test seeded_demo 2>&1 | grep -c "test result: ok")
if git apply $patch 2>/dev/null; then
  with=$(CARGO_TARGET_DIR=$wt/target cargo test --offline --test seeded_demo 2>&1 | grep -c "test result: FAILED\|error: test failed")
else
  with=NOAPPLY
fi
cd /; git -C /repo worktree remove --force $wt >/dev/null 2>&1
echo "$name passes-without=$without fails-with=$with"
