#!/usr/bin/env python3
"""bin/seedprompt.py <Cxx> <worktree> : prints the prompt given to a seeding sub-agent (property text only, nothing from /verif)"""
import json, sys
pid, wt = sys.argv[1], sys.argv[2]
p = next(json.loads(l) for l in open('/verif/properties.jsonl') if json.loads(l)['id'] == pid)
print(f"""You are helping test a verification effort for the Rust crate `wirm` (formerly "orca", a WebAssembly module/component
transformation library). You have your own scratch git worktree of the crate at {wt} (a checkout of the current HEAD).
Work ONLY inside {wt}. Never read or touch /verif or /repo. Do NOT use `git stash` (the stash is shared between worktrees);
do not commit. The sandbox has no network: always pass `--offline` to cargo (e.g. `CARGO_NET_OFFLINE=true cargo test --offline ...`).
No `wasm-tools`, wasmtime or other wasm engine is installed; the crates `wasmparser`, `wasm-encoder`, `wasmprinter` and `wat`
are available as dev-dependencies of the crate (check Cargo.toml) and can be used in tests (wasmparser's `Validator` works).

Here is a semantic property of the library that is supposed to hold:

  id: {p['id']}
  title: {p['title']}
  statement: {p['statement']}
  quantified over: {p['quantifier']['text']}
  anchored in: {json.dumps(p['anchors']['mechanism'])}

Your task: make a small, realistic change to the library source (under {wt}/src only) that BREAKS this property while
 (a) the crate still compiles without new warnings that would give it away,
 (b) the existing test suite still passes: run `cd {wt} && CARGO_NET_OFFLINE=true cargo test --offline 2>&1 | grep -E "^test result|FAILED|failed"`
     BEFORE your change to record which tests pass (about 45 tests always fail because they shell out to the absent `wasm-tools`;
     those do not count) and AFTER your change: every test that passed before must still pass,
 (c) the breakage needs something specific to manifest - a particular multi-step sequence of operations, an unusual input,
     a particular nesting/interleaving, or two cooperating sites that each look fine alone - NOT something that ordinary use
     or a trivial smoke test would expose at once. It should look like a plausible refactoring slip, optimisation or
     off-by-one that a maintainer could make, not sabotage. Do not special-case magic constants.
Then write a demonstration as an integration test file {wt}/tests/seeded_demo.rs (using only the crate's public API and its
existing dev-dependencies) containing one or more #[test] functions that FAIL with your change and PASS without it (verify both:
to test without the change use `git diff -- src > /tmp/{pid}_my.patch && git apply -R /tmp/{pid}_my.patch`, run, then
`git apply /tmp/{pid}_my.patch`, and delete the /tmp patch file afterwards). The demo should check the property itself
(e.g. decode the encoded output with wasmparser and compare with what the property requires), not incidental text.
Also write {wt}/SEEDED.md (<= 60 lines): what was changed and where, why it breaks the property, exactly what is needed for it
to manifest, and the commands you ran with their results.
Leave the change applied in the worktree (uncommitted) together with tests/seeded_demo.rs and SEEDED.md.
Your final answer: a 10-line summary (files/functions changed, manifestation condition, test results before/after).""")
