#!/usr/bin/env python3
"""writes MANIFEST.json from bin/props.py (claimed properties) and bin/not_applicable.json (reasons for the rest)"""
import json, os, sys
ROOT = os.path.dirname(os.path.dirname(os.path.abspath(__file__)))
sys.path.insert(0, os.path.join(ROOT, 'bin'))
from props import PROPS, ALL_IDS
na = json.load(open(os.path.join(ROOT, 'bin', 'not_applicable.json')))
hooks = json.load(open(os.path.join(ROOT, 'bin', 'hooks.json')))
checks = []
for pid in ALL_IDS:
    if pid not in PROPS:
        continue
    s = PROPS[pid]
    checks.append({
        'property_id': pid,
        'quick_cmd': f'bin/check {pid} --tier quick',
        'thorough_cmd': f'bin/check {pid} --tier thorough',
        'evidence_file': f'/verif/evidence/{pid}.json',
        'replay_cmd_template': f'bin/check {pid} --replay {{path}}',
        'engine': 'lean4-model+correspondence',
        'level_claimed': {'category': 'proof', 'text': s['level_text'], 'design_ref': s['design_ref']},
        'level_note': '; '.join(s['trusted'] + s['assumptions']),
        'technique': s['technique'],
    })
man = {
    'version': 1,
    'setup_cmd': 'bin/setup.sh',
    'hooks': hooks,
    'engines': [
        {'name': 'lean4-model+correspondence', 'path': '/verif/lean, /verif/harness, /verif/bin/check',
         'serves_properties': [c['property_id'] for c in checks],
         'kind_free_text': 'Lean 4.33 theorems about executable models (lake project Orca), a compiled model driver, a Rust harness '
                           'linked against /repo that runs the same cases on the real crate, an oracle of the property on the real output'}],
    'checks': checks,
    'not_applicable': [{'property_id': p, 'reason': na[p]} for p in ALL_IDS if p not in PROPS],
    'notes': 'every check rebuilds the harness against /repo working tree (cargo path dependency) and the Lean obligations (lake) before it runs',
}
json.dump(man, open(os.path.join(ROOT, 'MANIFEST.json'), 'w'), indent=1)
print('claimed', len(checks), 'unclaimed', len(man['not_applicable']))
