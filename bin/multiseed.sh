#!/bin/sh
# every quick check under several seeds on the unchanged tree; prints any exit != 0 or VIOLATION line
cd "$(dirname "$0")/.."
mkdir -p work
for s in "$@"; do
  for p in C01 C02 C03 C04 C05 C06 C07 C08 C09 C10 C11 C12 C13 C14 C15 C16 C17 C18 C19 C20 C21 C22 C23 C24 C25 C26 C27 C28 C29 C30; do
    VERIF_SEED=$s VERIF_TIER=quick bin/check $p --tier quick > work/ms_$p.$s.log 2>&1
    rc=$?
    v=$(grep -c '^VIOLATION' work/ms_$p.$s.log)
    echo "seed=$s $p rc=$rc violations=$v"
  done
done
echo MSDONE
