#!/bin/sh
# re-runs the quick check of the property each seeded change was written for, with the change applied (after generators changed)
cd "$(dirname "$0")/.."
mkdir -p work
out=work/recheck_all.${VERIF_SEED:-default}.out
: > $out
for d in seeded/*/; do
  n=$(basename $d)
  p=$(python3 -c "import json;print(json.load(open('$d/meta.json'))['breaks'][0])")
  bin/seedrecheck $n $p > work/rc_$n.log 2>&1
  v=$(grep -c "VIOLATION" work/rc_$n.log)
  nf=$(grep "VIOLATION" work/rc_$n.log | grep -vc "no-failing-input-found")
  echo "$n $p violations=$v with-input=$nf" >> $out
  rm -f work/rc_$n.log
done
echo RCDONE >> $out
