#!/usr/bin/env python3
"""runs /repo's test suite offline (guard off) and checks that every stable baseline test still passes"""
import json, re, subprocess, sys
repo = sys.argv[1] if len(sys.argv) > 1 else '/repo'
base = json.load(open('/root/.vp/BASELINE.json'))['stable_pass']
p = subprocess.run('cargo test --workspace --no-fail-fast --offline 2>&1', cwd=repo, shell=True, stdout=subprocess.PIPE)
out = p.stdout.decode('utf-8', 'replace')
ok = set()
binname = None
for line in out.split('\n'):
    m = re.match(r'\s+Running (?:unittests )?(\S+)', line)
    if m:
        f = m.group(1)
        binname = 'lib' if f.startswith('src/') else re.sub(r'\.rs$', '', f.split('/')[-1])
    m = re.match(r'test (\S+)(?: - should panic)? \.\.\. ok', line)
    if m:
        name = m.group(1)
        ok.add(('wirm::' + name) if binname == 'lib' else f'wirm::{binname}::{name}')
missing = [t for t in base if t not in ok]
print(f'passed={len(ok)} baseline={len(base)} missing={len(missing)}')
for t in missing[:20]:
    print('  MISSING', t)
sys.exit(1 if missing else 0)
