//! canonical one-token text of an operator (shared by the `lower` and `sem` families and their Lean drivers)
use wasmparser::{BlockType, Operator};

fn bt(b: &BlockType) -> String {
    match b {
        BlockType::Empty => String::new(),
        BlockType::Type(t) => format!(":{}", format!("{t:?}").to_lowercase()),
        BlockType::FuncType(_) => ":functype".to_string(),
    }
}

pub fn tok_of(op: &Operator) -> String {
    use Operator::*;
    match op {
        Nop => "nop".into(),
        Drop => "drop".into(),
        Unreachable => "unreachable".into(),
        Return => "return".into(),
        End => "end".into(),
        Else => "else".into(),
        Block { blockty } => format!("block{}", bt(blockty)),
        Loop { blockty } => format!("loop{}", bt(blockty)),
        If { blockty } => format!("if{}", bt(blockty)),
        Br { relative_depth } => format!("br:{relative_depth}"),
        BrIf { relative_depth } => format!("br_if:{relative_depth}"),
        BrTable { targets } => {
            let ts: Vec<String> = targets.targets().map(|t| t.unwrap().to_string()).collect();
            format!("br_table:{}/{}", ts.join("."), targets.default())
        }
        Call { function_index } => format!("call:{function_index}"),
        ReturnCall { function_index } => format!("return_call:{function_index}"),
        I32Const { value } => format!("i32.const:{value}"),
        I64Const { value } => format!("i64.const:{value}"),
        LocalGet { local_index } => format!("local.get:{local_index}"),
        LocalSet { local_index } => format!("local.set:{local_index}"),
        LocalTee { local_index } => format!("local.tee:{local_index}"),
        GlobalGet { global_index } => format!("global.get:{global_index}"),
        GlobalSet { global_index } => format!("global.set:{global_index}"),
        I32Add => "i32.add".into(),
        I32Sub => "i32.sub".into(),
        I32Mul => "i32.mul".into(),
        I32Eqz => "i32.eqz".into(),
        I32Eq => "i32.eq".into(),
        I32LtU => "i32.lt_u".into(),
        I32And => "i32.and".into(),
        I32Or => "i32.or".into(),
        I32Xor => "i32.xor".into(),
        I32Ne => "i32.ne".into(),
        I32GtU => "i32.gt_u".into(),
        I32RemU => "i32.rem_u".into(),
        I32DivU => "i32.div_u".into(),
        I32Load { memarg } => format!("i32.load:{}", memarg.offset),
        I32Store { memarg } => format!("i32.store:{}", memarg.offset),
        Select => "select".into(),
        // without handlers only (what the `lower` family generates): a construct that nests and takes no special mode
        TryTable { try_table } if try_table.catches.is_empty() => format!("try_table{}", bt(&try_table.ty)),
        other => format!("{other:?}").replace([' ', ',', ';', '~', '='], "_"),
    }
}

pub fn body_toks(wasm: &[u8], func: usize) -> Result<(Vec<String>, Vec<u32>), String> {
    let mut k = 0;
    for p in wasmparser::Parser::new(0).parse_all(wasm) {
        if let wasmparser::Payload::CodeSectionEntry(b) = p.map_err(|e| e.to_string())? {
            if k == func {
                let mut locals = vec![];
                for l in b.get_locals_reader().map_err(|e| e.to_string())? {
                    let (c, t) = l.map_err(|e| e.to_string())?;
                    for _ in 0..c {
                        locals.push(crate::tys::code_of_valtype(t));
                    }
                }
                let mut v = vec![];
                for op in b.get_operators_reader().map_err(|e| e.to_string())? {
                    v.push(tok_of(&op.map_err(|e| e.to_string())?));
                }
                return Ok((v, locals));
            }
            k += 1;
        }
    }
    Err(format!("function {func} not found"))
}
