//! families `iter` (C25) and `compiter` (C26): what the iterators visit, reset, and — for components —
//! that injections through the component iterator give the same modules as through module iterators
use crate::ctx::{guarded, show_nats, Ctx};
use crate::rng::Rng;
use std::collections::HashMap;
use wirm::ir::id::{FunctionID, ModuleID};
use wirm::ir::types::Location;
use wirm::iterator::component_iterator::ComponentIterator;
use wirm::iterator::iterator_trait::{IteratingInstrumenter, Iterator as _};
use wirm::iterator::module_iterator::ModuleIterator;
use wasmparser::Operator;
use wirm::opcode::{InjectAt, Instrumenter, Opcode};
use wirm::{Component, Module};

/// a module with `nimp` function imports and local functions of the given body shapes
fn module_wat(nimp: usize, bodies: &[Vec<&'static str>]) -> String {
    let mut s = String::from("(module\n");
    for i in 0..nimp {
        s.push_str(&format!("  (import \"env\" \"i{i}\" (func))\n"));
    }
    for b in bodies {
        s.push_str("  (func");
        for op in b {
            s.push(' ');
            s.push_str(op);
        }
        s.push_str(")\n");
    }
    s.push_str(")\n");
    s
}

const STMTS: &[&[&str]] = &[
    &["nop"],
    &["i32.const 7", "drop"],
    &["block", "nop", "end"],
    &["i32.const 1", "if", "nop", "else", "nop", "end"],
    &["loop", "end"],
];

fn mode_of(mode: usize) -> wirm::ir::types::InstrumentationMode {
    use wirm::ir::types::InstrumentationMode::*;
    [Before, After, Alternate, SemanticAfter, BlockEntry, BlockExit, BlockAlt][mode]
}

fn gen_bodies(r: &mut Rng, nf: usize) -> Vec<Vec<&'static str>> {
    (0..nf)
        .map(|_| {
            let mut b = vec![];
            for _ in 0..r.weighted(&[3, 3, 2, 1, 1]) {
                b.extend_from_slice(STMTS[r.below(STMTS.len())]);
            }
            b
        })
        .collect()
}

/// skip lists with the shapes the property names: none, leading, trailing, all, random, foreign ids
fn gen_skip(r: &mut Rng, nimp: usize, nf: usize) -> Vec<u32> {
    let ids: Vec<u32> = (0..nf).map(|k| (nimp + k) as u32).collect();
    let mut s: Vec<u32> = match r.weighted(&[3, 2, 2, 2, 4, 1]) {
        0 => vec![],
        1 => ids.iter().take(r.range(1, nf.max(1))).cloned().collect(),
        2 => ids.iter().rev().take(r.range(1, nf.max(1))).cloned().collect(),
        3 => ids.clone(),
        4 => ids.iter().filter(|_| r.chance(1, 2)).cloned().collect(),
        _ => vec![0, (nimp + nf + 3) as u32],
    };
    if r.chance(1, 6) {
        s.push((nimp + nf) as u32); // an id that does not exist
    }
    if r.chance(1, 4) {
        s.reverse();
    }
    s
}

fn ops_of(wasm: &[u8]) -> Vec<Vec<String>> {
    let mut out = vec![];
    for p in wasmparser::Parser::new(0).parse_all(wasm) {
        if let Ok(wasmparser::Payload::CodeSectionEntry(b)) = p {
            let ops: Vec<String> =
                b.get_operators_reader().unwrap().into_iter().map(|o| format!("{:?}", o.unwrap())).collect();
            out.push(ops);
        }
    }
    out
}

fn show_trace(t: &[(u32, usize, bool)]) -> String {
    if t.is_empty() {
        return "-".into();
    }
    t.iter().map(|(f, i, e)| format!("{f}.{i}.{}", *e as u8)).collect::<Vec<_>>().join(";")
}

fn show_ctrace(t: &[(u32, u32, usize, bool)]) -> String {
    if t.is_empty() {
        return "-".into();
    }
    t.iter().map(|(m, f, i, e)| format!("{m}.{f}.{i}.{}", *e as u8)).collect::<Vec<_>>().join(";")
}

fn expected(nimp: usize, lens: &[usize], skip: &[u32]) -> Vec<(u32, usize, bool)> {
    let mut v = vec![];
    for (k, n) in lens.iter().enumerate() {
        let fid = (nimp + k) as u32;
        if skip.contains(&fid) {
            continue;
        }
        for i in 0..*n {
            v.push((fid, i, i + 1 == *n));
        }
    }
    v
}

pub fn run_iter(ctx: &mut Ctx) {
    for case in 0..ctx.n {
        if !ctx.wants(case) {
            continue;
        }
        let mut r = Rng::new(ctx.seed, "iter", case);
        let nimp = r.weighted(&[3, 2, 1]);
        let nf = r.weighted(&[1, 3, 3, 3, 2]);
        let bodies = gen_bodies(&mut r, nf);
        let skip = gen_skip(&mut r, nimp, nf);
        let reset_after = r.below(8);
        let wat = module_wat(nimp, &bodies);
        let bytes = wat::parse_str(&wat).unwrap_or_else(|e| panic!("bad wat {e}\n{wat}"));
        let ops = ops_of(&bytes);
        let lens: Vec<usize> = ops.iter().map(|o| o.len()).collect();
        let md: Vec<String> = lens.iter().enumerate().map(|(k, n)| format!("{}:{n}", nimp + k)).collect();
        ctx.case_line(&format!("iter {case} md={} skip={} resetafter={reset_after}", show_nats(&md), show_nats(&skip)));
        ctx.count(&format!("nfuncs={nf}"));
        let exp = expected(nimp, &lens, &skip);
        ctx.count(if exp.is_empty() { "visits=none" } else { "visits=some" });
        if nf > 0 && skip.contains(&(nimp as u32)) {
            ctx.count("first-skipped");
        }
        if nf > 0 && skip.contains(&((nimp + nf - 1) as u32)) {
            ctx.count("last-skipped");
        }
        let res = guarded(|| {
            let mut m = Module::parse(&bytes, false).expect("parse");
            let sk: Vec<FunctionID> = skip.iter().map(|s| FunctionID(*s)).collect();
            let mut it = ModuleIterator::new(&mut m, &sk);
            let mut wrong_op = None;
            let collect = |it: &mut ModuleIterator, wrong_op: &mut Option<String>| {
                let mut tr = vec![];
                if it.curr_op().is_some() {
                    loop {
                        let (loc, e) = it.curr_loc();
                        if let Location::Module { func_idx, instr_idx } = loc {
                            tr.push((*func_idx, instr_idx, e));
                            let got = format!("{:?}", it.curr_op().unwrap());
                            let want = ops.get((*func_idx as usize).wrapping_sub(nimp)).and_then(|o| o.get(instr_idx));
                            if Some(&got) != want {
                                *wrong_op = Some(format!("at {func_idx:?}.{instr_idx}: {got} vs {want:?}"));
                            }
                        }
                        if tr.len() > 10_000 {
                            break;
                        }
                        if it.next().is_none() {
                            break;
                        }
                    }
                }
                tr
            };
            let t1 = collect(&mut it, &mut wrong_op);
            // a second walk: `reset_after` steps, then reset, then the full walk again
            it.reset();
            for _ in 0..reset_after {
                it.next();
            }
            it.reset();
            let t2 = collect(&mut it, &mut wrong_op);
            (t1, t2, wrong_op)
        });
        match res {
            Err(p) => {
                ctx.impl_line(&format!("iter {case} PANIC"));
                ctx.fail("iter", case, "C25", "panic", &p);
            }
            Ok((t1, t2, wrong_op)) => {
                ctx.impl_line(&format!("iter {case} trace={}", show_trace(&t1)));
                ctx.impl_line(&format!("iter {case} reset_trace={}", show_trace(&t2)));
                if t1 != exp {
                    ctx.fail("iter", case, "C25", "visit-sequence-wrong", &format!("got {} expected {}", show_trace(&t1), show_trace(&exp)));
                } else if t2 != exp {
                    ctx.fail("iter", case, "C25", "reset-does-not-restart", &format!("got {} expected {}", show_trace(&t2), show_trace(&exp)));
                } else if let Some(w) = wrong_op {
                    ctx.fail("iter", case, "C25", "curr-op-not-at-location", &w);
                } else {
                    ctx.ok("iter", case);
                }
            }
        }
    }
}

pub fn run_compiter(ctx: &mut Ctx) {
    for case in 0..ctx.n {
        if !ctx.wants(case) {
            continue;
        }
        let mut r = Rng::new(ctx.seed, "compiter", case);
        let nm = r.range(1, 4);
        let mut wats = vec![];
        let mut nimps = vec![];
        let mut all_lens = vec![];
        let mut all_ops = vec![];
        let mut skips: Vec<Vec<u32>> = vec![];
        let mut has_key: Vec<bool> = vec![];
        for _ in 0..nm {
            let nimp = r.weighted(&[3, 2]);
            let nf = r.weighted(&[2, 3, 3, 2]);
            let bodies = gen_bodies(&mut r, nf);
            let wat = module_wat(nimp, &bodies);
            let bytes = wat::parse_str(&wat).unwrap();
            let ops = ops_of(&bytes);
            all_lens.push(ops.iter().map(|o| o.len()).collect::<Vec<_>>());
            all_ops.push(ops);
            skips.push(gen_skip(&mut r, nimp, nf));
            has_key.push(r.chance(3, 4));
            nimps.push(nimp);
            wats.push(wat);
        }
        for k in 0..nm {
            if !has_key[k] {
                skips[k].clear();
            }
        }
        let mut ctext = String::from("(component\n");
        for w in &wats {
            ctext.push_str(&format!("(core {}", &w[1..]));
        }
        ctext.push_str(")\n");
        let cbytes = wat::parse_str(&ctext).unwrap_or_else(|e| panic!("bad component {e}\n{ctext}"));
        let reset_after = r.below(8);
        let mods: Vec<String> = (0..nm)
            .map(|k| show_nats(&all_lens[k].iter().enumerate().map(|(j, n)| format!("{}:{n}", nimps[k] + j)).collect::<Vec<_>>()))
            .collect();
        let sks: Vec<String> = skips.iter().map(|s| show_nats(s)).collect();
        ctx.case_line(&format!("compiter {case} mods={} skips={} resetafter={reset_after}", mods.join("|"), sks.join("|")));
        ctx.count(&format!("nmods={nm}"));
        let mut exp: Vec<(u32, u32, usize, bool)> = vec![];
        for k in 0..nm {
            let e = expected(nimps[k], &all_lens[k], &skips[k]);
            ctx.count(if e.is_empty() { "module-visits=none" } else { "module-visits=some" });
            exp.extend(e.into_iter().map(|(f, i, e)| (k as u32, f, i, e)));
        }
        // an injection plan over the visited locations: (position in the visit sequence, mode, constant)
        let nplan = if exp.is_empty() { 0 } else { r.below(5) };
        // modes 0-2: before / after / alternate; 3-6: semantic_after / block_entry / block_exit / block_alt, on block-structured
        // operators only (elsewhere the API rejects them); each either at the cursor or through `inject_at`
        let plan: Vec<(usize, usize, i32, bool)> = (0..nplan)
            .map(|_| {
                let pos = r.below(exp.len());
                let (k, f, i, _) = exp[pos];
                let op = &all_ops[k as usize][f as usize - nimps[k as usize]][i];
                let blockish = ["Block", "Loop", "If", "Else"].iter().any(|p| op.starts_with(p));
                let mode = if blockish && r.chance(1, 2) { 3 + r.below(4) } else { r.below(3) };
                (pos, mode, r.below(1000) as i32, r.chance(1, 3))
            })
            .collect();
        ctx.count(&format!("plan={nplan}"));
        for (_, mode, _, at) in &plan {
            ctx.count(&format!("inject={}{}", ["before", "after", "alternate", "semantic_after", "block_entry", "block_exit", "block_alt"][*mode], if *at { "-inject_at" } else { "" }));
        }
        let res = guarded(|| {
            let mut comp = Component::parse(&cbytes, false).expect("parse component");
            let mut skipmap: HashMap<ModuleID, Vec<FunctionID>> = HashMap::new();
            for k in 0..nm {
                if has_key[k] {
                    skipmap.insert(ModuleID(k as u32), skips[k].iter().map(|s| FunctionID(*s)).collect());
                }
            }
            let mut wrong_op = None;
            let (t1, t2) = {
                let mut it = ComponentIterator::new(&mut comp, skipmap.clone());
                let collect = |it: &mut ComponentIterator, wrong_op: &mut Option<String>| {
                    let mut tr = vec![];
                    if it.curr_op().is_some() {
                        loop {
                            let (loc, e) = it.curr_loc();
                            if let Location::Component { mod_idx, func_idx, instr_idx } = loc {
                                tr.push((*mod_idx, *func_idx, instr_idx, e));
                                let got = format!("{:?}", it.curr_op().unwrap());
                                let want = all_ops
                                    .get(*mod_idx as usize)
                                    .and_then(|o| o.get((*func_idx as usize).wrapping_sub(nimps[*mod_idx as usize])))
                                    .and_then(|o| o.get(instr_idx));
                                if Some(&got) != want {
                                    *wrong_op = Some(format!("at {mod_idx:?}.{func_idx:?}.{instr_idx}: {got} vs {want:?}"));
                                }
                            }
                            if tr.len() > 10_000 {
                                break;
                            }
                            if it.next().is_none() {
                                break;
                            }
                        }
                    }
                    tr
                };
                let t1 = collect(&mut it, &mut wrong_op);
                it.reset();
                for _ in 0..reset_after {
                    it.next();
                }
                it.reset();
                let t2 = collect(&mut it, &mut wrong_op);
                // injections through the component iterator
                for (pos, mode, k, at) in &plan {
                    it.reset();
                    if *at {
                        // another instruction of the same function is the current one; the target is addressed by its index
                        let (m0, f0, i0, _) = exp[*pos];
                        let first = exp.iter().position(|v| v.0 == m0 && v.1 == f0).unwrap();
                        for _ in 0..first {
                            it.next();
                        }
                        it.inject_at(i0, mode_of(*mode), Operator::I32Const { value: *k });
                        it.inject_at(i0, mode_of(*mode), Operator::Drop);
                        continue;
                    }
                    for _ in 0..*pos {
                        it.next();
                    }
                    match mode {
                        0 => it.before(),
                        1 => it.after(),
                        2 => it.alternate(),
                        3 => it.semantic_after(),
                        4 => it.block_entry(),
                        5 => it.block_exit(),
                        _ => it.block_alt(),
                    };
                    it.i32_const(*k).drop();
                }
                (t1, t2)
            };
            let via_comp: Vec<Vec<u8>> = (0..nm).map(|k| comp.modules[k].encode()).collect();
            // the same injections through one module iterator per module
            let mut via_mod: Vec<Vec<u8>> = vec![];
            for k in 0..nm {
                let mb = wat::parse_str(&wats[k]).unwrap();
                let mut m = Module::parse(&mb, false).expect("parse module");
                {
                    let sk: Vec<FunctionID> = skips[k].iter().map(|s| FunctionID(*s)).collect();
                    let mut it = ModuleIterator::new(&mut m, &sk);
                    let before_this: usize = exp.iter().filter(|v| (v.0 as usize) < k).count();
                    for (pos, mode, c, at) in &plan {
                        if exp[*pos].0 as usize != k {
                            continue;
                        }
                        it.reset();
                        if *at {
                            let (m0, f0, i0, _) = exp[*pos];
                            let first = exp.iter().position(|v| v.0 == m0 && v.1 == f0).unwrap();
                            for _ in 0..(first - before_this) {
                                it.next();
                            }
                            it.inject_at(i0, mode_of(*mode), Operator::I32Const { value: *c });
                            it.inject_at(i0, mode_of(*mode), Operator::Drop);
                            continue;
                        }
                        for _ in 0..(*pos - before_this) {
                            it.next();
                        }
                        match mode {
                            0 => it.before(),
                            1 => it.after(),
                            2 => it.alternate(),
                            3 => it.semantic_after(),
                            4 => it.block_entry(),
                            5 => it.block_exit(),
                            _ => it.block_alt(),
                        };
                        it.i32_const(*c).drop();
                    }
                }
                via_mod.push(m.encode());
            }
            (t1, t2, wrong_op, via_comp == via_mod)
        });
        match res {
            Err(p) => {
                ctx.impl_line(&format!("compiter {case} PANIC"));
                ctx.fail("compiter", case, "C26", "panic", &p);
            }
            Ok((t1, t2, wrong_op, same)) => {
                ctx.impl_line(&format!("compiter {case} trace={}", show_ctrace(&t1)));
                ctx.impl_line(&format!("compiter {case} reset_trace={}", show_ctrace(&t2)));
                if t1 != exp {
                    ctx.fail("compiter", case, "C26", "visit-sequence-wrong", &format!("got {} expected {}", show_ctrace(&t1), show_ctrace(&exp)));
                } else if t2 != exp {
                    ctx.fail("compiter", case, "C26", "reset-does-not-restart", &format!("got {} expected {}", show_ctrace(&t2), show_ctrace(&exp)));
                } else if let Some(w) = wrong_op {
                    ctx.fail("compiter", case, "C26", "curr-op-not-at-location", &w);
                } else if !same {
                    ctx.fail("compiter", case, "C26", "injection-differs-from-module-iterator", &format!("plan {plan:?}"));
                } else {
                    ctx.ok("compiter", case);
                }
            }
        }
    }
}
