//! family `sem` (C16-C20): generated terminating programs in a core fragment (i32 values; locals, globals, one memory,
//! calls, block / loop / if-else incl. value-producing ones, br / br_if / br_table / return / unreachable), neutral
//! reporting probes (`i32.const id; call $log`) injected in every mode through three API paths. The decoded output of
//! the real crate is (a) compared with the Lean models of the lowering and (b) *executed* by the Lean interpreter next to
//! the monitored original (ORACLE lines written by the model driver); here the output is validated with wasmparser.
use crate::ctx::Ctx;
use crate::fam_lower::{branch_target, instrument, max_flagged_per_block, Step, MODES, PATHS, PROBE_CALL};
use crate::optok::body_toks;
use crate::rng::Rng;

#[derive(Clone, Copy, PartialEq)]
enum LK {
    Block,
    Loop,
    If,
    Func,
}

struct G<'r> {
    r: &'r mut Rng,
    out: Vec<String>,
    labels: Vec<(LK, usize)>,
    nparams: usize,
    nscratch: usize,
    nloops: usize,
    max_loops: usize,
    nres: usize,
    next_log: i32,
    budget: i32,
}

const BINOPS: &[&str] = &["i32.add", "i32.sub", "i32.mul", "i32.and", "i32.or", "i32.xor", "i32.eq", "i32.ne", "i32.lt_u", "i32.gt_u"];

impl<'r> G<'r> {
    fn emit(&mut self, s: &str) {
        self.out.push(s.to_string());
        self.budget -= 1;
    }
    fn var(&mut self) -> usize {
        self.r.below(self.nparams + self.nscratch)
    }
    fn expr(&mut self, depth: usize) {
        let deep = depth < 3 && self.budget > 0;
        let k = self.r.weighted(&[4, 4, 2, if deep { 4 } else { 0 }, if deep { 1 } else { 0 }, if deep { 2 } else { 0 }, if deep { 1 } else { 0 },
            if deep { 2 } else { 0 }, if deep { 2 } else { 0 }, if deep { 2 } else { 0 }, if deep { 1 } else { 0 }, if deep { 1 } else { 0 }]);
        match k {
            0 => {
                let v: i64 = *self.r.pick(&[0, 1, 2, 3, 7, 100, -1, 65532, 65536]);
                self.emit(&format!("i32.const {v}"));
            }
            1 => {
                let x = self.var();
                self.emit(&format!("local.get {x}"));
            }
            2 => {
                let g = self.r.below(2);
                self.emit(&format!("global.get {g}"));
            }
            3 => {
                self.expr(depth + 1);
                self.expr(depth + 1);
                let op = *self.r.pick(BINOPS);
                self.emit(op);
            }
            4 => {
                self.expr(depth + 1);
                self.emit("i32.eqz");
            }
            5 => {
                self.expr(depth + 1);
                if self.r.chance(9, 10) {
                    self.emit("i32.const 65520");
                    self.emit("i32.and");
                }
                let off = *self.r.pick(&[0, 4, 8]);
                self.emit(&format!("i32.load offset={off}"));
            }
            6 => {
                self.expr(depth + 1);
                self.expr(depth + 1);
                self.expr(depth + 1);
                self.emit("select");
            }
            7 => {
                if self.r.chance(1, 2) {
                    self.expr(depth + 1);
                    self.emit("call $h1");
                } else {
                    self.expr(depth + 1);
                    self.expr(depth + 1);
                    self.emit("call $h2");
                }
            }
            8 => {
                self.emit("block (result i32)");
                self.labels.push((LK::Block, 1));
                let n = self.r.below(3);
                let div = self.stmts(depth + 1, n);
                if !div || self.r.chance(1, 2) {
                    self.expr(depth + 1);
                } else {
                    // after a diverging statement the rest of the block is dead: any stack shape is accepted
                    self.emit("i32.const 0");
                }
                self.labels.pop();
                self.emit("end");
            }
            9 => {
                self.expr(depth + 1);
                self.emit("if (result i32)");
                self.labels.push((LK::If, 1));
                let n = self.r.below(2);
                self.stmts(depth + 1, n);
                self.expr(depth + 1);
                self.emit("else");
                let n = self.r.below(2);
                self.stmts(depth + 1, n);
                self.expr(depth + 1);
                self.labels.pop();
                self.emit("end");
            }
            10 => {
                self.expr(depth + 1);
                self.expr(depth + 1);
                if self.r.chance(3, 4) {
                    // avoid most divisions by zero
                    self.emit("i32.const 1");
                    self.emit("i32.or");
                }
                let op = if self.r.chance(1, 2) { "i32.div_u" } else { "i32.rem_u" };
                self.emit(op);
            }
            _ => {
                self.expr(depth + 1);
                let x = self.var();
                self.emit(&format!("local.tee {x}"));
            }
        }
    }
    fn values_for(&mut self, arity: usize, depth: usize) {
        for _ in 0..arity {
            self.expr(depth + 2);
        }
    }
    /// returns true when the sequence ends with an instruction that never falls through
    fn stmts(&mut self, depth: usize, n: usize) -> bool {
        for _ in 0..n {
            if self.stmt(depth) {
                if self.r.chance(3, 4) {
                    return true;
                }
                // keep going: dead code (still valid: every statement is stack-neutral)
            }
        }
        false
    }
    fn stmt(&mut self, depth: usize) -> bool {
        let nest = depth < 3 && self.budget > 0;
        let can_loop = nest && self.nloops < self.max_loops && !self.labels.iter().any(|l| l.0 == LK::Loop && false);
        let k = self.r.weighted(&[5, 3, 2, 2, 2, 1, if nest { 4 } else { 0 }, if can_loop { 3 } else { 0 }, if nest { 4 } else { 0 }, 3, 3, 2, 1, 1, 1]);
        match k {
            0 => {
                let id = self.next_log;
                self.next_log += 1;
                self.emit(&format!("i32.const {id}"));
                self.emit("call $log");
                false
            }
            1 => {
                self.expr(depth + 1);
                let x = self.var();
                self.emit(&format!("local.set {x}"));
                false
            }
            2 => {
                self.expr(depth + 1);
                let g = self.r.below(2);
                self.emit(&format!("global.set {g}"));
                false
            }
            3 => {
                self.expr(depth + 1);
                if self.r.chance(19, 20) {
                    self.emit("i32.const 65520");
                    self.emit("i32.and");
                }
                self.expr(depth + 1);
                let off = *self.r.pick(&[0, 4, 8]);
                self.emit(&format!("i32.store offset={off}"));
                false
            }
            4 => {
                self.expr(depth + 1);
                self.emit("drop");
                false
            }
            5 => {
                if self.r.chance(1, 2) {
                    self.emit("nop");
                } else {
                    self.expr(depth + 1);
                    self.emit("call $h3");
                }
                false
            }
            6 => {
                self.emit("block");
                self.labels.push((LK::Block, 0));
                let n = self.r.range(0, 3);
                self.stmts(depth + 1, n);
                self.labels.pop();
                self.emit("end");
                false
            }
            7 => {
                let c = self.nparams + self.nscratch + self.nloops;
                self.nloops += 1;
                let iters = self.r.range(1, 3);
                self.emit(&format!("i32.const {iters}"));
                self.emit(&format!("local.set {c}"));
                self.emit("loop");
                self.labels.push((LK::Loop, 0));
                let n = self.r.range(0, 3);
                let div = self.stmts(depth + 1, n);
                let _ = div;
                self.emit(&format!("local.get {c}"));
                self.emit("i32.const 1");
                self.emit("i32.sub");
                self.emit(&format!("local.tee {c}"));
                self.emit("br_if 0");
                self.labels.pop();
                self.emit("end");
                false
            }
            8 => {
                self.expr(depth + 1);
                self.emit("if");
                self.labels.push((LK::If, 0));
                let n = self.r.range(0, 3);
                let d1 = self.stmts(depth + 1, n);
                let mut d2 = false;
                if self.r.chance(2, 3) {
                    self.emit("else");
                    let n = self.r.range(0, 3);
                    d2 = self.stmts(depth + 1, n);
                }
                self.labels.pop();
                self.emit("end");
                let _ = (d1, d2);
                false
            }
            9 => {
                // br to a non-loop label
                let cands: Vec<usize> = (0..self.labels.len()).filter(|d| self.labels[self.labels.len() - 1 - d].0 != LK::Loop).collect();
                let d = *self.r.pick(&cands);
                let a = self.labels[self.labels.len() - 1 - d].1;
                self.values_for(a, depth);
                self.emit(&format!("br {d}"));
                true
            }
            10 => {
                let cands: Vec<usize> = (0..self.labels.len()).filter(|d| self.labels[self.labels.len() - 1 - d].0 != LK::Loop).collect();
                let d = *self.r.pick(&cands);
                let a = self.labels[self.labels.len() - 1 - d].1;
                self.values_for(a, depth);
                self.expr(depth + 1);
                self.emit(&format!("br_if {d}"));
                for _ in 0..a {
                    self.emit("drop");
                }
                false
            }
            11 => {
                // br_table: all targets of one arity
                let arities: Vec<usize> = self.labels.iter().filter(|l| l.0 != LK::Loop).map(|l| l.1).collect();
                let a = *self.r.pick(&arities);
                let cands: Vec<usize> = (0..self.labels.len())
                    .filter(|d| {
                        let l = self.labels[self.labels.len() - 1 - d];
                        l.0 != LK::Loop && l.1 == a
                    })
                    .collect();
                let nt = self.r.below(4);
                let mut t: Vec<String> = (0..nt).map(|_| self.r.pick(&cands).to_string()).collect();
                t.push(self.r.pick(&cands).to_string());
                self.values_for(a, depth);
                self.expr(depth + 1);
                self.emit(&format!("br_table {}", t.join(" ")));
                true
            }
            12 => {
                let a = self.nres;
                self.values_for(a, depth);
                self.emit("return");
                true
            }
            13 => {
                if self.r.chance(1, 3) {
                    self.emit("unreachable");
                    true
                } else {
                    self.emit("nop");
                    false
                }
            }
            _ => {
                self.emit("nop");
                false
            }
        }
    }
}

fn is_block_style(t: &str) -> bool {
    matches!(t.split(':').next().unwrap(), "block" | "loop" | "if" | "else")
}
fn is_structural(t: &str) -> bool {
    matches!(t.split(':').next().unwrap(), "block" | "loop" | "if" | "else" | "end")
}
fn is_branch(t: &str) -> bool {
    matches!(t.split(':').next().unwrap(), "br" | "br_if" | "br_table")
}

/// sort the probes inside every maximal run of `i32.const:p, call:0` pairs (p >= 1000); must agree with `normProbes` of the driver
pub fn norm_probes(toks: &[String]) -> Vec<String> {
    let mut out: Vec<String> = vec![];
    let mut run: Vec<u64> = vec![];
    let mut i = 0;
    let flush = |run: &mut Vec<u64>, out: &mut Vec<String>| {
        run.sort();
        for p in run.iter() {
            out.push(format!("i32.const:{p}"));
            out.push("call:0".into());
        }
        run.clear();
    };
    while i < toks.len() {
        let p = toks[i].strip_prefix("i32.const:").and_then(|x| x.parse::<u64>().ok());
        if let (Some(p), Some(k)) = (p, toks.get(i + 1)) {
            if p >= 1000 && k == "call:0" {
                run.push(p);
                i += 2;
                continue;
            }
        }
        flush(&mut run, &mut out);
        out.push(toks[i].clone());
        i += 1;
    }
    flush(&mut run, &mut out);
    out
}

fn gen_plan(r: &mut Rng, toks: &[String], next_probe: &mut i32) -> Vec<Step> {
    let n = toks.len();
    let nsteps = r.weighted(&[0, 3, 3, 3, 2, 2, 1]);
    let mut plan = vec![];
    for _ in 0..nsteps {
        if !plan.is_empty() && r.chance(1, 10) {
            // withdraw an earlier injection, or clear a list nothing was injected into
            let prev: Vec<(usize, usize)> = plan.iter().filter_map(|s| match s {
                Step::At { idx, mode, .. } | Step::InjectAt { idx, mode, .. } => Some((*idx, *mode)),
                _ => None,
            }).collect();
            let (idx, mode) = if !prev.is_empty() && r.chance(2, 3) { *r.pick(&prev) } else { (r.below(n), *r.pick(&[0usize, 1, 3, 4, 5])) };
            plan.push(Step::ClearAt { idx, mode });
            continue;
        }
        let kind = r.weighted(&[12, 3, 3]);
        let np = r.range(1, 2);
        let probes: Vec<i32> = (0..np)
            .map(|_| {
                *next_probe += 1;
                *next_probe
            })
            .collect();
        match kind {
            0 | 1 => {
                // modes: before, after, semantic_after, block_entry, block_exit (alternates are not neutral: C15 / C21)
                let mode = *r.pick(&[0usize, 0, 1, 1, 3, 3, 3, 4, 4, 5, 5, 5]);
                let cands: Vec<usize> = (0..n)
                    .filter(|i| match mode {
                        // the function's final `end` takes `before` probes (they fire when the body falls through to it)
                        0 => !matches!(toks[*i].as_str(), "end" | "else") || *i + 1 == n,
                        1 => !is_structural(&toks[*i]),
                        3 => (is_block_style(&toks[*i]) && !toks[*i].starts_with("loop")) || is_branch(&toks[*i]),
                        _ => is_block_style(&toks[*i]),
                    })
                    .collect();
                if cands.is_empty() {
                    continue;
                }
                let mut idx = *r.pick(&cands);
                if mode == 3 {
                    // bias semantic-after towards br_table (several targets per branch: the stale-flag mechanism F14) and br_if
                    let tables: Vec<usize> = cands.iter().cloned().filter(|i| toks[*i].starts_with("br_table")).collect();
                    let brifs: Vec<usize> = cands.iter().cloned().filter(|i| toks[*i].starts_with("br_if") || toks[*i].starts_with("br:")).collect();
                    if !tables.is_empty() && r.chance(1, 3) {
                        idx = *r.pick(&tables);
                    } else if !brifs.is_empty() && r.chance(1, 3) {
                        idx = *r.pick(&brifs);
                    }
                }
                if kind == 0 {
                    plan.push(Step::At { idx, mode, probes });
                } else {
                    plan.push(Step::InjectAt { idx, mode, probes });
                }
            }
            _ => plan.push(Step::Func { exit: r.chance(3, 5), probes }),
        }
    }
    // a block-level probe on a construct together with a semantic-after probe on a `br` / `br_if` that targets it: both wait for the
    // same `end`, one unguarded, the other behind its flag
    if r.chance(1, 6) {
        let pairs: Vec<(usize, usize)> = (0..n)
            .filter(|b| toks[*b].starts_with("br:") || toks[*b].starts_with("br_if"))
            .filter_map(|b| branch_target(toks, b).map(|t| (b, t)))
            .filter(|(_, t)| !toks[*t].starts_with("loop"))
            .collect();
        if !pairs.is_empty() {
            let (b, t) = *r.pick(&pairs);
            *next_probe += 1;
            let s1 = Step::At { idx: t, mode: *r.pick(&[5usize, 5, 4]), probes: vec![*next_probe] };
            *next_probe += 1;
            let s2 = Step::At { idx: b, mode: 3, probes: vec![*next_probe] };
            if r.chance(1, 2) {
                plan.push(s1);
                plan.push(s2);
            } else {
                plan.push(s2);
                plan.push(s1);
            }
        }
    }
    // function-exit probes together with a `before` probe on the final `end`: the exit code follows the wrapper's `end`, the
    // before-probe precedes it
    if plan.iter().any(|s| matches!(s, Step::Func { exit: true, .. })) && r.chance(1, 3) {
        *next_probe += 1;
        let s = Step::At { idx: n - 1, mode: 0, probes: vec![*next_probe] };
        if r.chance(1, 2) {
            plan.push(s);
        } else {
            plan.insert(0, s);
        }
    }
    plan
}

/// fixed cases that run first in every run (the minimised inputs of recorded defects): body, instruction index, mode
const FIXED: &[(&str, usize, usize)] = &[
    // F14: br_table with two different target blocks, semantic-after on it: the flag is never cleared
    ("block block i32.const 0 br_table 0 1 end i32.const 1 call $log end i32.const 2 call $log", 3, 3),
    // F15: semantic-after on a branch to the function label
    ("i32.const 5 call $log br 0", 2, 3),
    // F27: three flagged bodies at one end
    ("block i32.const 0 br_table 0 0 0 end", 2, 3),
    // F13 (repaired): block-exit on an `if` whose then-arm starts with a nested block
    ("i32.const 1 if block nop end i32.const 3 call $log end", 1, 5),
    // F14 in a loop: the target block is re-entered and left by falling through after the branch was taken once
    ("i32.const 2 local.set 2 loop block local.get 2 i32.const 2 i32.eq br_if 0 i32.const 4 call $log end local.get 2 i32.const 1 i32.sub local.tee 2 br_if 0 end", 7, 3),
];

pub fn run(ctx: &mut Ctx) {
    let fam = "sem";
    PROBE_CALL.with(|c| c.set(Some(0)));
    for case in 0..ctx.n {
        if !ctx.wants(case) {
            continue;
        }
        let mut r = Rng::new(ctx.seed, fam, case);
        let fixed = FIXED.get(case as usize);
        let nparams = if fixed.is_some() { 0 } else { r.below(3) };
        let nres = if fixed.is_some() { 0 } else { r.weighted(&[3, 3, 1]) };
        let nscratch = 2;
        let max_loops = 3;
        let extra_locals: (&str, usize) = if fixed.is_some() { ("", 0) } else { *r.pick(&[("", 0), ("", 0), (" (local i64)", 1), (" (local f32 i64)", 2), (" (local i64 i32 f64)", 3)]) };
        let wat;
        let nloops;
        {
            let mut g = G { r: &mut r, out: vec![], labels: vec![(LK::Func, nres)], nparams, nscratch, nloops: 0, max_loops, nres, next_log: 1, budget: 40 };
            if let Some((body, _, _)) = fixed {
                g.out.push(body.to_string());
            } else {
                let n0 = g.r.range(1, 5);
                let div = g.stmts(0, n0);
                if !div || g.r.chance(1, 2) {
                    g.values_for(nres, 0);
                } else {
                    for _ in 0..nres {
                        g.emit("i32.const 0");
                    }
                }
            }
            nloops = g.nloops;
            let mut w = String::from("(module\n  (import \"e\" \"log\" (func $log (param i32)))\n  (memory 1)\n  (global (mut i32) (i32.const 0))\n  (global (mut i32) (i32.const 0))\n  (func $t");
            for _ in 0..nparams {
                w.push_str(" (param i32)");
            }
            for _ in 0..nres {
                w.push_str(" (result i32)");
            }
            for _ in 0..(nscratch + max_loops) {
                w.push_str(" (local i32)");
            }
            // unused locals of other types behind the i32 ones (several run-length groups; the last one not i32)
            w.push_str(extra_locals.0);
            w.push('\n');
            w.push_str(&g.out.join("\n"));
            w.push_str(")\n  (func $h1 (param i32) (result i32) local.get 0 i32.const 3 i32.mul i32.const 1 i32.add)\n");
            w.push_str("  (func $h2 (param i32 i32) (result i32) local.get 0 local.get 1 i32.sub global.get 0 i32.add)\n");
            w.push_str("  (func $h3 (param i32) local.get 0 global.set 1 i32.const 16 local.get 0 i32.store)\n");
            w.push_str("  (export \"t\" (func $t))\n)\n");
            wat = w;
        }
        let nl = nscratch + max_loops + extra_locals.1;
        let bytes = wat::parse_str(&wat).unwrap_or_else(|e| panic!("bad wat {e}\n{wat}"));
        if let Err(e) = wasmparser::Validator::new_with_features(wasmparser::WasmFeatures::all()).validate_all(&bytes) {
            panic!("generator produced an invalid program: {e}\n{wat}");
        }
        let (toks, _) = body_toks(&bytes, 0).unwrap();
        let mut np = 1000;
        let plan = match fixed {
            Some((_, idx, mode)) => vec![Step::At { idx: *idx, mode: *mode, probes: vec![1001] }],
            None => gen_plan(&mut r, &toks, &mut np),
        };
        let path = PATHS[r.below(PATHS.len())];
        if crate::fam_lower::set_pull_first(ctx.seed, case) {
            ctx.count("side-effect-report-pulled-before-encode");
        }
        if crate::fam_lower::set_decoy_exits(ctx.seed, case) {
            ctx.count("function-exit-probes-on-the-other-functions");
        }
        let lowered = instrument(&wat, 0, 1, path, &plan, toks.len(), nl);
        // callees as the driver reads them
        let mut callees = vec!["log".to_string(), "self".to_string()];
        for (k, (p, rs)) in [(1usize, 1usize), (2, 1), (1, 0)].iter().enumerate() {
            let (ct, _) = body_toks(&bytes, k + 1).unwrap();
            // the callee body without its final `end` is what `parseToks` expects? no: it expects the final end too
            callees.push(format!("{p}~{rs}~0~{}", ct.join(",")));
        }
        let argvs: Vec<String> = (0..3)
            .map(|_| {
                if nparams == 0 {
                    "_".to_string()
                } else {
                    (0..nparams).map(|_| r.pick(&[0u32, 1, 2, 3, 5, 7, 65532, 4294967295]).to_string()).collect::<Vec<_>>().join(".")
                }
            })
            .collect();
        let out_field = match &lowered.out {
            Ok((o, _, _, _)) => o.join(","),
            Err(_) => "PANIC".to_string(),
        };
        ctx.count(&format!("path={path}"));
        ctx.count(&format!("nres={nres}"));
        ctx.count(&format!("bodylen={}", (toks.len() / 10) * 10));
        ctx.count(&format!("loops={nloops}"));
        for t in &toks {
            let h = t.split(':').next().unwrap();
            if matches!(h, "block" | "loop" | "if" | "else" | "br" | "br_if" | "br_table" | "return" | "unreachable" | "call") {
                ctx.count(&format!("op={h}"));
            }
        }
        for st in &plan {
            match st {
                Step::At { mode, .. } | Step::InjectAt { mode, .. } => ctx.count(&format!("mode={}", MODES[*mode].0)),
                Step::Func { exit, .. } => ctx.count(if *exit { "mode=func_exit" } else { "mode=func_entry" }),
                Step::ClearAt { .. } => ctx.count("step=clear_instr_at"),
                _ => {}
            }
        }
        ctx.case_line(&format!(
            "sem {case} np={nparams} nl={nl} nres={nres} nglob=2 callees={} body={} plan={} args={} out={}",
            callees.join("|"),
            toks.join(","),
            if lowered.plan_ops.is_empty() { "-".to_string() } else { lowered.plan_ops.join(";") },
            argvs.join(";"),
            out_field
        ));
        match &lowered.out {
            Err(e) if lowered.undecodable.is_some() => {
                ctx.impl_line(&format!("sem {case} UNDECODABLE"));
                ctx.fail(fam, case, "C16,C17,C18,C19,C20", "output-undecodable", e);
            }
            Err(p) => {
                ctx.impl_line(&format!("sem {case} PANIC"));
                ctx.fail(fam, case, "C16,C17,C18,C19,C20", "unexpected-panic", p);
            }
            Ok((out, added, _special, b)) => {
                ctx.hash_line(fam, case, b);
                ctx.impl_line(&format!("sem {case} out={}", norm_probes(out).join(",")));
                ctx.impl_line(&format!("sem {case} added={added}"));
                if let Err(e) = wasmparser::Validator::new_with_features(wasmparser::WasmFeatures::all()).validate_all(b) {
                    if max_flagged_per_block(&toks, &plan) >= 3 {
                        ctx.fail(fam, case, "C16,C20", "output-invalid-three-flagged-bodies-at-one-end", &e.to_string());
                    } else {
                        ctx.fail(fam, case, "C16,C17,C18,C19,C20", "output-invalid", &e.to_string());
                    }
                } else {
                    ctx.ok(fam, case);
                }
            }
        }
    }
    PROBE_CALL.with(|c| c.set(None));
}
