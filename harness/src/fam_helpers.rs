//! family `helpers` (C24): every instruction helper of `Opcode` / `MacroOpcode` is called (through the generated
//! `gen_helpers::call_helper`, re-derived from /repo/src/opcode.rs on every run) with random immediates, through the
//! function builder, the module iterator and the function modifier; the module is encoded, the injected instruction is
//! decoded with wasmparser and printed as `variant + immediates`; the Lean driver prints what the regenerated table
//! says the helper injects for the same arguments, and the oracle compares the decoded instruction with the expected
//! instruction written down here from the *name* of the helper (the property), independently of both.
use crate::ctx::{guarded, Ctx};
use crate::gen_helpers::{call_helper, HELPERS};
use crate::rng::Rng;
use wasmparser::Operator;
use wirm::ir::function::FunctionBuilder;
use wirm::ir::id::FunctionID;
use wirm::ir::types::{BlockType, InstrumentationMode, Location};
use wirm::iterator::iterator_trait::Iterator as _;
use wirm::iterator::module_iterator::ModuleIterator;
use wirm::opcode::{Inject, Instrumenter};
use wirm::Module;

/// one argument: the bit pattern (or, for structured values, the code shared with the model)
#[derive(Clone, Copy, Debug)]
pub struct Arg(pub u64);

pub const ABSTRACT: &[wirm::ir::module::module_types::AbstractHeapType] = {
    use wirm::ir::module::module_types::AbstractHeapType as A;
    &[A::Func, A::Extern, A::Any, A::None, A::NoExtern, A::NoFunc, A::Eq, A::Struct, A::Array, A::I31, A::Exn, A::NoExn]
};

impl Arg {
    pub fn u32(&self) -> u32 {
        self.0 as u32
    }
    pub fn u64(&self) -> u64 {
        self.0
    }
    /// code = align + 4 * memory + 8 * offset
    pub fn memarg(&self) -> wasmparser::MemArg {
        wasmparser::MemArg { align: (self.0 & 3) as u8, max_align: 3, memory: ((self.0 >> 2) & 1) as u32, offset: self.0 >> 3 }
    }
    /// code 0 = empty, 1 + value type code = single result, 100000 + i = function type i
    pub fn blockty(&self) -> BlockType {
        match self.0 {
            0 => BlockType::Empty,
            c if c >= 100000 => BlockType::FuncType(wirm::ir::id::TypeID((c - 100000) as u32)),
            c => BlockType::Type(crate::tys::TYS.iter().find(|t| t.code as u64 == c - 1).unwrap().dt.clone()),
        }
    }
    /// code 1 + k = abstract heap type k (+ 100 when shared), 1000 + i = concrete module type i
    pub fn heapty(&self) -> wirm::ir::module::module_types::HeapType {
        use wirm::ir::module::module_types::HeapType as H;
        if self.0 >= 1000 {
            H::Concrete(wasmparser::UnpackedIndex::Module((self.0 - 1000) as u32))
        } else {
            let shared = self.0 > 100;
            let k = (if shared { self.0 - 100 } else { self.0 }) - 1;
            H::Abstract { shared, ty: ABSTRACT[k as usize].clone() }
        }
    }
}

fn memarg_code(m: &wasmparser::MemArg) -> i128 {
    (m.align as i128) + 4 * (m.memory as i128) + 8 * (m.offset as i128)
}
fn blockty_code(b: &wasmparser::BlockType) -> i128 {
    match b {
        wasmparser::BlockType::Empty => 0,
        wasmparser::BlockType::Type(t) => 1 + crate::tys::code_of_valtype(*t) as i128,
        wasmparser::BlockType::FuncType(i) => 100000 + *i as i128,
    }
}
fn heapty_code(h: &wasmparser::HeapType) -> i128 {
    use wasmparser::AbstractHeapType as A;
    match h {
        wasmparser::HeapType::Concrete(wasmparser::UnpackedIndex::Module(i)) => 1000 + *i as i128,
        wasmparser::HeapType::Concrete(_) => -1,
        wasmparser::HeapType::Abstract { shared, ty } => {
            let k = match ty {
                A::Func => 0,
                A::Extern => 1,
                A::Any => 2,
                A::None => 3,
                A::NoExtern => 4,
                A::NoFunc => 5,
                A::Eq => 6,
                A::Struct => 7,
                A::Array => 8,
                A::I31 => 9,
                A::Exn => 10,
                A::NoExn => 11,
                _ => 90,
            };
            1 + k + if *shared { 100 } else { 0 }
        }
    }
}

/// variant name and immediates (declaration order) of a decoded operator
pub fn describe(op: &Operator) -> (String, Vec<i128>) {
    use Operator::*;
    let dbg = format!("{op:?}");
    let name = dbg.split([' ', '{', '(']).next().unwrap().to_string();
    let imm: Vec<i128> = match op {
        Call { function_index } | RefFunc { function_index } | ReturnCall { function_index } => vec![*function_index as i128],
        If { blockty } | Block { blockty } | Loop { blockty } => vec![blockty_code(blockty)],
        Br { relative_depth } | BrIf { relative_depth } => vec![*relative_depth as i128],
        LocalGet { local_index } | LocalSet { local_index } | LocalTee { local_index } => vec![*local_index as i128],
        GlobalGet { global_index } | GlobalSet { global_index } => vec![*global_index as i128],
        I32Const { value } => vec![*value as i128],
        I64Const { value } => vec![*value as i128],
        F32Const { value } => vec![value.bits() as i128],
        F64Const { value } => vec![value.bits() as i128],
        MemoryInit { data_index, mem } => vec![*data_index as i128, *mem as i128],
        MemorySize { mem } | MemoryGrow { mem } | MemoryFill { mem } | MemoryDiscard { mem } => vec![*mem as i128],
        MemoryCopy { dst_mem, src_mem } => vec![*dst_mem as i128, *src_mem as i128],
        DataDrop { data_index } => vec![*data_index as i128],
        I32Load8S { memarg } | I32Load8U { memarg } | I32Load16S { memarg } | I32Load16U { memarg } | I32Load { memarg }
        | I32Store { memarg } | I32Store8 { memarg } | I32Store16 { memarg } | I64Load8S { memarg } | I64Load8U { memarg }
        | I64Load16S { memarg } | I64Load16U { memarg } | I64Load32S { memarg } | I64Load32U { memarg } | I64Load { memarg }
        | I64Store { memarg } | I64Store8 { memarg } | I64Store16 { memarg } | I64Store32 { memarg } | F32Load { memarg }
        | F32Store { memarg } | F64Load { memarg } | F64Store { memarg } => vec![memarg_code(memarg)],
        RefNull { hty } | RefTestNonNull { hty } | RefTestNullable { hty } | RefCastNonNull { hty } | RefCastNullable { hty } => {
            vec![heapty_code(hty)]
        }
        StructNew { struct_type_index } | StructNewDefault { struct_type_index } => vec![*struct_type_index as i128],
        StructGet { struct_type_index, field_index }
        | StructGetS { struct_type_index, field_index }
        | StructGetU { struct_type_index, field_index }
        | StructSet { struct_type_index, field_index } => vec![*struct_type_index as i128, *field_index as i128],
        ArrayNew { array_type_index }
        | ArrayNewDefault { array_type_index }
        | ArrayGet { array_type_index }
        | ArrayGetS { array_type_index }
        | ArrayGetU { array_type_index }
        | ArraySet { array_type_index }
        | ArrayFill { array_type_index } => vec![*array_type_index as i128],
        ArrayNewFixed { array_type_index, array_size } => vec![*array_type_index as i128, *array_size as i128],
        ArrayNewData { array_type_index, array_data_index } | ArrayInitData { array_type_index, array_data_index } => {
            vec![*array_type_index as i128, *array_data_index as i128]
        }
        ArrayNewElem { array_type_index, array_elem_index } | ArrayInitElem { array_type_index, array_elem_index } => {
            vec![*array_type_index as i128, *array_elem_index as i128]
        }
        ArrayCopy { array_type_index_dst, array_type_index_src } => vec![*array_type_index_dst as i128, *array_type_index_src as i128],
        _ => {
            if dbg.contains('{') || dbg.contains('(') {
                // an operator with immediates that no helper is expected to emit: make it visible
                vec![-999999]
            } else {
                vec![]
            }
        }
    };
    (name, imm)
}

/// the instruction the *name* of the helper denotes (WebAssembly text mnemonic), and the signedness of its immediates;
/// written from the names alone
fn expected_mnemonic(h: &str) -> String {
    let special: &[(&str, &str)] = &[
        ("return_stmt", "return"),
        ("if_stmt", "if"),
        ("else_stmt", "else"),
        ("loop_stmt", "loop"),
        ("u32_const", "i32.const"),
        ("u64_const", "i64.const"),
        ("ref_test", "ref.test"),
        ("ref_test_null", "ref.test"),
        ("ref_cast", "ref.cast"),
        ("ref_cast_null", "ref.cast"),
        ("br_if", "br_if"),
        ("ref_is_null", "ref.is_null"),
        ("ref_as_non_null", "ref.as_non_null"),
        ("any_convert_extern", "any.convert_extern"),
        ("extern_convert_any", "extern.convert_any"),
        ("struct_new_default", "struct.new_default"),
        ("array_new_default", "array.new_default"),
        ("array_new_fixed", "array.new_fixed"),
        ("array_new_data", "array.new_data"),
        ("array_new_elem", "array.new_elem"),
        ("array_init_data", "array.init_data"),
        ("array_init_elem", "array.init_elem"),
        ("struct_get_s", "struct.get_s"),
        ("struct_get_u", "struct.get_u"),
        ("array_get_s", "array.get_s"),
        ("array_get_u", "array.get_u"),
        ("i31_get_s", "i31.get_s"),
        ("i31_get_u", "i31.get_u"),
    ];
    if let Some((_, m)) = special.iter().find(|(k, _)| *k == h) {
        return m.to_string();
    }
    // type_prefix '.' rest, with the spelled-out suffixes of wirm's names folded back to the spec's
    let mut parts: Vec<String> = h.split('_').map(|s| s.to_string()).collect();
    let head = parts.remove(0);
    let mut rest = parts.join("_");
    for (a, b) in [("_signed", "_s"), ("_unsigned", "_u"), ("lte", "le"), ("gte", "ge")] {
        rest = rest.replace(a, b);
    }
    // i32_trunc_f32s -> trunc_f32_s ; i64_extend_i32u -> extend_i32_u ; i32_extend_8s -> extend8_s ; f32_convert_i32s -> convert_i32_s
    for ty in ["f32", "f64", "i32", "i64"] {
        for su in ["s", "u"] {
            let from = format!("_{ty}{su}");
            if rest.ends_with(&from) {
                rest = format!("{}_{ty}_{su}", &rest[..rest.len() - from.len()]);
            }
        }
    }
    for (a, b) in [("extend_8s", "extend8_s"), ("extend_16s", "extend16_s")] {
        rest = rest.replace(a, b);
    }
    if rest.is_empty() {
        head
    } else {
        format!("{head}.{rest}")
    }
}

/// wasmprinter's mnemonic of a single operator (first token of its text form)
fn printed_mnemonic(op: &Operator) -> String {
    // encode the operator alone into a function body and print it
    use wasm_encoder::reencode::Reencode;
    let mut f = wasm_encoder::Function::new(vec![]);
    let mut r = wasm_encoder::reencode::RoundtripReencoder;
    match op {
        Operator::End => return "end".into(),
        Operator::Else => return "else".into(),
        _ => {}
    }
    if let Ok(i) = r.instruction(op.clone()) {
        f.instruction(&i);
    }
    if matches!(op, Operator::Block { .. } | Operator::Loop { .. } | Operator::If { .. }) {
        f.instruction(&wasm_encoder::Instruction::End);
    }
    f.instruction(&wasm_encoder::Instruction::End);
    let mut m = wasm_encoder::Module::new();
    let mut t = wasm_encoder::TypeSection::new();
    t.ty().function(vec![], vec![]);
    m.section(&t);
    let mut fs = wasm_encoder::FunctionSection::new();
    fs.function(0);
    m.section(&fs);
    let mut c = wasm_encoder::CodeSection::new();
    c.function(&f);
    m.section(&c);
    let bytes = m.finish();
    let mut out = String::new();
    let mut cfg = wasmprinter::Config::new();
    cfg.print_offsets(false);
    if cfg.print(&bytes, &mut wasmprinter::PrintFmtWrite(&mut out)).is_err() {
        return "?unprintable".into();
    }
    // the body is the line(s) after `(func (;0;) (type 0)`
    for line in out.lines() {
        let l = line.trim();
        if l.starts_with('(') || l.is_empty() || l == ")" {
            continue;
        }
        return l.split([' ', ')']).next().unwrap().to_string();
    }
    "end".into()
}

const BASE: &str = r#"(module
  (type (func))
  (type (func (param i32) (result i32)))
  (import "e" "f0" (func))
  (import "e" "f1" (func))
  (memory 1)
  (memory 1)
  (global (mut i32) (i32.const 0))
  (global (mut i32) (i32.const 0))
  (func $a nop)
  (func $b i32.const 0 if nop end)
  (func $c i32.const 0 if nop end)
)"#;

fn first_ops(wasm: &[u8], func: usize, n: usize) -> Result<Vec<(String, Vec<i128>)>, String> {
    let mut k = 0;
    for p in wasmparser::Parser::new(0).parse_all(wasm) {
        if let wasmparser::Payload::CodeSectionEntry(b) = p.map_err(|e| e.to_string())? {
            if k == func {
                let mut rd = b.get_operators_reader().map_err(|e| e.to_string())?;
                let mut v = vec![];
                for _ in 0..n {
                    match rd.read() {
                        Ok(op) => v.push(describe(&op)),
                        Err(e) => {
                            if v.is_empty() {
                                return Err(e.to_string());
                            }
                            break;
                        }
                    }
                }
                return Ok(v);
            }
            k += 1;
        }
    }
    Err("function not found".into())
}

fn interesting(r: &mut Rng, bits: u32) -> u64 {
    let max = if bits == 64 { u64::MAX } else { (1u64 << bits) - 1 };
    match r.below(8) {
        0 => 0,
        1 => 1,
        2 => max,
        3 => max >> 1,
        4 => (max >> 1) + 1,
        5 => max - 1,
        6 => {
            // a value of every width: the boundaries of the narrower types lie inside the wider ones (2^31 and 2^32 for a u64)
            let w = r.range(1, bits as usize) as u32;
            let top = 1u64 << (w - 1);
            match r.below(4) {
                0 => top,
                1 => top - 1,
                2 => (top | (r.next() & (top - 1))) & max,
                _ => ((top << 1).wrapping_sub(1)) & max,
            }
        }
        _ => r.next() & max,
    }
}

const BOUND64: &[u64] = &[
    1 << 31, (1 << 32) - 1, (1 << 31) - 1, 1 << 32, u64::MAX, 1 << 63, 0, (1 << 63) - 1, (1 << 31) + 12345, (1 << 32) + 1, 0xFFFF_FFFF_8000_0000, 1,
];

pub const PATHS: &[&str] = &["builder", "moditer", "modifier"];

pub fn run(ctx: &mut Ctx) {
    let fam = "helpers";
    let nh = HELPERS.len() as u64;
    for case in 0..ctx.n {
        if !ctx.wants(case) {
            continue;
        }
        let mut r = Rng::new(ctx.seed, fam, case);
        let k = (case % nh) as usize; // every helper is exercised once per `nh` cases
        let (hname, ptys) = HELPERS[k];
        let path = PATHS[((case / nh) as usize + r.below(3)) % 3];
        let mut args: Vec<Arg> = vec![];
        for p in ptys.iter() {
            let (mty, rty) = p.split_once(':').unwrap();
            let v: u64 = match (mty, rty) {
                ("id32", "FunctionID") => r.below(5) as u64,
                ("id32", "GlobalID") => r.below(2) as u64,
                ("id32", _) => interesting(&mut r, 32),
                ("u32", _) => {
                    // memory indices and function indices are remapped by encode: keep them valid
                    if hname.starts_with("memory_") {
                        r.below(2) as u64
                    } else if hname == "ref_func" {
                        r.below(5) as u64
                    } else {
                        interesting(&mut r, 32)
                    }
                }
                ("i32", _) => interesting(&mut r, 32),
                ("f32", _) => match r.below(8) {
                    0 => 0x7FC0_0000,
                    1 => 0x7FA0_0001,
                    2 => 0xFFFF_FFFF,
                    3 => 0xFF80_0001,
                    4 => 0x8000_0000,
                    _ => r.next() & 0xFFFF_FFFF,
                },
                // the first rounds over the helpers walk the boundaries of the narrower types inside the 64-bit range
                ("i64", _) | ("u64", _) => match BOUND64.get((case / nh) as usize) {
                    Some(v) => *v,
                    None => interesting(&mut r, 64),
                },
                ("f64", _) => match r.below(6) {
                    0 => 0x7FF8_0000_0000_0000,
                    1 => 0x7FF4_0000_0000_0001,
                    2 => 0xFFFF_FFFF_FFFF_FFFF,
                    3 => 0xFFF0_0000_0000_0001,
                    _ => r.next(),
                },
                ("memarg", _) => (r.below(4) as u64) + 4 * (r.below(2) as u64) + 8 * (interesting(&mut r, 32)),
                ("blockTy", _) => match r.below(4) {
                    0 => 0,
                    1 => 100000 + r.below(2) as u64,
                    _ => 1 + crate::tys::TYS[r.below(crate::tys::TYS.len())].code as u64,
                },
                ("heapTy", _) => match r.below(5) {
                    0 => 1000 + r.below(3) as u64,
                    // shared abstract heap types (shared-everything-threads)
                    1 => 101 + r.below(ABSTRACT.len()) as u64,
                    _ => 1 + r.below(ABSTRACT.len()) as u64,
                },
                _ => panic!("unknown parameter type {p}"),
            };
            args.push(Arg(v));
        }
        ctx.count(&format!("path={path}"));
        ctx.count(&format!("arity={}", ptys.len()));
        for p in ptys.iter() {
            ctx.count(&format!("pty={}", p.split(':').next().unwrap()));
        }
        ctx.case_line(&format!(
            "helpers {case} h={hname} args={}",
            if args.is_empty() { "-".to_string() } else { args.iter().map(|a| a.0.to_string()).collect::<Vec<_>>().join(",") }
        ));
        let bytes = wat::parse_str(BASE).unwrap();
        let res = guarded(|| {
            let mut m = Module::parse(&bytes, false).expect("parse");
            let target;
            match path {
                "builder" => {
                    let mut fb = FunctionBuilder::new(&[], &[]);
                    fb.inject(Operator::I32Const { value: 0 });
                    fb.inject(Operator::If { blockty: wasmparser::BlockType::Empty });
                    call_helper(&mut fb, k, &args);
                    fb.inject(Operator::Nop);
                    fb.inject(Operator::End);
                    let id = fb.finish_module(&mut m);
                    target = (*id - 2) as usize;
                }
                "moditer" => {
                    let mut it = ModuleIterator::new(&mut m, &vec![]);
                    // second local function, its first instruction
                    while !matches!(it.curr_loc().0, Location::Module { func_idx: FunctionID(3), instr_idx: 2 }) {
                        it.next().expect("location");
                    }
                    it.set_instrument_mode_at(InstrumentationMode::Before, Location::Module { func_idx: FunctionID(3), instr_idx: 2 });
                    call_helper(&mut it, k, &args);
                    target = 1;
                }
                _ => {
                    let mut fm = m.functions.get_fn_modifier(FunctionID(4)).expect("local");
                    fm.set_instrument_mode_at(InstrumentationMode::Before, Location::Module { func_idx: FunctionID(4), instr_idx: 2 });
                    call_helper(&mut fm, k, &args);
                    target = 2;
                }
            }
            let out = m.encode();
            (out, target)
        });
        match res {
            Err(p) => {
                ctx.impl_line(&format!("helpers {case} PANIC"));
                ctx.fail(fam, case, "C24", "helper-call-or-encode-panics", &format!("{hname}: {p}"));
            }
            Ok((out, target)) => match first_ops(&out, target, 4) {
                Err(e) => {
                    ctx.impl_line(&format!("helpers {case} UNDECODABLE"));
                    ctx.fail(fam, case, "C24", "output-undecodable", &format!("{hname}: {e}"));
                }
                Ok(ops) => {
                    if ops.len() < 3 {
                        ctx.impl_line(&format!("helpers {case} UNDECODABLE"));
                        ctx.fail(fam, case, "C24", "output-undecodable", &format!("{hname}: only {} operators decoded", ops.len()));
                        continue;
                    }
                    let (name, imm) = &ops[2];
                    ctx.impl_line(&format!(
                        "helpers {case} op={name} imm={}",
                        if imm.is_empty() { "-".to_string() } else { imm.iter().map(|x| x.to_string()).collect::<Vec<_>>().join(",") }
                    ));
                    // ---- oracle: the property, from the helper's name and the arguments alone
                    let mut fails: Vec<(String, String)> = vec![];
                    // (1) the instruction: wasmprinter's mnemonic of what was decoded = what the name says
                    let want = expected_mnemonic(hname);
                    // re-decode the operator itself for printing
                    let got = {
                        let mut kk = 0;
                        let mut s = String::from("?");
                        for p in wasmparser::Parser::new(0).parse_all(&out) {
                            if let Ok(wasmparser::Payload::CodeSectionEntry(b)) = p {
                                if kk == target {
                                    if let Ok(mut rd) = b.get_operators_reader() {
                                        let _ = rd.read();
                                        let _ = rd.read();
                                        if let Ok(op) = rd.read() {
                                            s = printed_mnemonic(&op);
                                        }
                                    }
                                }
                                kk += 1;
                            }
                        }
                        s
                    };
                    if got != want {
                        fails.push(("wrong-instruction".into(), format!("{hname} emitted `{got}`, its name denotes `{want}`")));
                    }
                    // nullable / non-nullable reference tests and casts
                    let nn = match hname {
                        "ref_test" => Some("RefTestNonNull"),
                        "ref_test_null" => Some("RefTestNullable"),
                        "ref_cast" => Some("RefCastNonNull"),
                        "ref_cast_null" => Some("RefCastNullable"),
                        _ => None,
                    };
                    if let Some(w) = nn {
                        if name != w {
                            fails.push(("wrong-instruction".into(), format!("{hname} emitted {name}")));
                        }
                    }
                    // (2) immediates: the arguments, bit for bit, in order
                    let want_imm: Vec<i128> = args
                        .iter()
                        .zip(ptys.iter())
                        .map(|(a, p)| {
                            let signed32 = matches!(name.as_str(), "I32Const");
                            let signed64 = matches!(name.as_str(), "I64Const");
                            let _ = p;
                            if signed32 {
                                (a.0 as u32 as i32) as i128
                            } else if signed64 {
                                (a.0 as i64) as i128
                            } else {
                                a.0 as i128
                            }
                        })
                        .collect();
                    if *imm != want_imm {
                        fails.push(("immediates-differ".into(), format!("{hname}{:?} decoded with immediates {:?}", want_imm, imm)));
                    }
                    // (3) exactly one instruction was appended: the next one is the function's own first instruction
                    if ops.len() > 3 {
                        let next = &ops[3].0;
                        if next != "Nop" {
                            fails.push(("more-than-one-instruction".into(), format!("{hname}: followed by {next}")));
                        }
                    }
                    if fails.is_empty() {
                        ctx.ok(fam, case);
                    } else {
                        for (s, d) in fails {
                            ctx.fail(fam, case, "C24", &s, &d);
                        }
                    }
                }
            },
        }
    }
}
