//! family `comp` (C27, also the seeds of `parse`): generated component trees — core modules, nested components up to depth 4,
//! core instances, aliases, lifted functions, exports, imports, a zoo of component-level types (records, variants,
//! resources, streams and futures inside instance and component type declarations), core types, custom sections — in
//! random interleavings, so that section runs of one kind are split by sections of other kinds. Plus the component fixtures
//! of the repository. Oracle: the input validates => `Component::parse` succeeds, the encoded component validates and
//! prints to the same text (sections, contents, nested components and modules at every depth). Correspondence: the
//! sequence of section kinds at every nesting level, predicted by the Lean model M10 of record / replay and of the
//! ownership of nested payloads.
use crate::ctx::{guarded, Ctx};
use crate::rng::Rng;
use wirm::Component;

/// pieces that are valid on their own inside any component; `#` = unique number
const PIECES: &[(&str, &str)] = &[
    ("lifted-export",
     "(core module $m# (func (export \"f\") (result i32) i32.const #))
      (core instance $i# (instantiate $m#))
      (alias core export $i# \"f\" (core func $cf#))
      (type $ft# (func (result u32)))
      (func $f# (type $ft#) (canon lift (core func $cf#)))
      (export \"e#\" (func $f#))"),
    ("two-modules", "(core module $ma# (memory (export \"mem\") 1)) (core module $mb# (func))"),
    ("types-zoo",
     "(type $r# (record (field \"a\" u8) (field \"b\" string)))
      (type $v# (variant (case \"x\") (case \"y\" u32)))
      (type (list $r#)) (type (tuple u8 s16 f32)) (type (flags \"a\" \"b\")) (type (enum \"a\" \"b\"))
      (type (option $v#)) (type (result u8 (error string))) (type (result))"),
    ("resource", "(type $res# (resource (rep i32))) (type (own $res#)) (type (borrow $res#))"),
    ("async-types", "(type (stream)) (type (stream u8)) (type (future)) (type (future string))"),
    ("instance-type",
     "(type $it# (instance (type $s (stream)) (type $s2 (stream u8)) (type $f (future)) (type $rec (record (field \"x\" u8)))
        (export \"s\" (type (eq $s))) (export \"f\" (func (param \"x\" u32) (result u32)))))"),
    ("component-type",
     "(type $ct# (component (type $s (stream)) (type $fu (future u8)) (import \"i\" (func (param \"a\" string))) (export \"e\" (type (sub resource)))))"),
    ("import-func", "(import \"imp#\" (func (param \"x\" u32) (result u32)))"),
    ("import-instance", "(import \"inst#\" (instance (export \"f\" (func)) (export \"t\" (type (sub resource)))))"),
    ("core-type", "(core type $cty# (module (import \"a\" \"b\" (func)) (export \"c\" (func (param i32)))))"),
    ("custom", "(@custom \"sec#\" \"payload #\")"),
    ("instance-type-zoo",
     "(type $ozo# (record (field \"q\" u8)))
      (type $itz# (instance
        (type $r (record (field \"a\" u8) (field \"b\" string)))
        (type $v (variant (case \"x\") (case \"y\" u32)))
        (type $l (list $r)) (type $t (tuple u8 s16 f32)) (type $fl (flags \"a\" \"b\")) (type $en (enum \"a\" \"b\"))
        (type $o (option $v)) (type $rs (result u8 (error string))) (type $rs2 (result)) (type $p u8)
        (export \"res\" (type $res (sub resource)))
        (type $ow (own $res)) (type $bo (borrow $res))
        (core type $cm (module (import \"a\" \"b\" (func)) (export \"c\" (func))))
        (alias outer 1 $ozo# (type $al))
        (type $nested (instance (export \"f\" (func (param \"x\" $al)))))
        (export \"n\" (instance (type $nested)))
        (export \"g\" (func (param \"a\" $l) (param \"b\" $o) (result $rs)))))"),
    ("component-type-zoo",
     "(type $ozc# (variant (case \"k\" string)))
      (type $ctz# (component
        (type $r (record (field \"a\" u8)))
        (type $e (enum \"p\" \"q\")) (type $tu (tuple $r $e)) (type $li (list $e)) (type $op (option $r)) (type $re (result $r))
        (import \"in\" (func (param \"x\" string)))
        (import \"it\" (instance (export \"f\" (func))))
        (export \"rt\" (type $rx (eq $r)))
        (core type $cm (module))
        (alias outer 1 $ozc# (type $al))
        (type $inner (component (export \"x\" (func (param \"p\" u32)))))
        (export \"out\" (func (result $rx)))
        (export \"comp\" (component (type $inner)))
        (export \"rr\" (type $rr (sub resource)))
        (type $own (own $rr))
        (export \"mk\" (func (result $own)))))"),
    ("resource-dtor",
     "(core module $rm# (func (export \"dtor\") (param i32)))
      (core instance $ri# (instantiate $rm#))
      (type $rd# (resource (rep i32) (dtor (core func $ri# \"dtor\"))))
      (core func $rnew# (canon resource.new $rd#))
      (core func $rdrop# (canon resource.drop $rd#))
      (core func $rrep# (canon resource.rep $rd#))"),
    ("lift-with-options",
     "(core module $om# (memory (export \"mem\") 1)
         (func (export \"realloc\") (param i32 i32 i32 i32) (result i32) i32.const 0)
         (func (export \"g\") (param i32 i32))
         (func (export \"post\")))
      (core instance $oi# (instantiate $om#))
      (type $oft# (func (param \"s\" string)))
      (func $of# (type $oft#) (canon lift (core func $oi# \"g\") (memory (core memory $oi# \"mem\")) (realloc (core func $oi# \"realloc\")) string-encoding=utf16))
      (export \"opt#\" (func $of#))"),
    ("alias-instance-export",
     "(import \"ai#\" (instance $aii# (export \"f\" (func)) (export \"t\" (type (sub resource)))))
      (alias export $aii# \"f\" (func $aif#))
      (alias export $aii# \"t\" (type $ait#))
      (export \"re#\" (func $aif#))"),
    ("core-type-func", "(core type $ctf# (func (param i32) (result i32))) (core type $cts# (struct (field i32)))"),
    ("core-type-rec", "(core rec (type $cra# (struct)) (type $crb# (struct (field (ref null $cra#)))))"),
    ("primitive-type", "(type $pt# u8) (type $pl# (list $pt#)) (type $pf# (func (param \"a\" $pt#) (result $pl#)))"),
    ("fixed-list", "(type $fxl# (list u8 4))"),
    ("instantiate-with-args",
     "(component $ca# (import \"x\" (func $f)) (export \"y\" (func $f)))
      (import \"fx#\" (func $fx#))
      (instance $ia# (instantiate $ca# (with \"x\" (func $fx#))))
      (instance $ie# (export \"z\" (func $fx#)))
      (alias export $ia# \"y\" (func $fy#))
      (export \"ey#\" (func $fy#) (func))"),
    ("named-core-items",
     "(core module $nm# (memory (export \"mem\") 1) (global (export \"g\") i32 (i32.const 0)) (table (export \"t\") 1 funcref) (tag (export \"tg\")))
      (core instance $ni# (instantiate $nm#))
      (alias core export $ni# \"mem\" (core memory $nmem#))
      (alias core export $ni# \"g\" (core global $ng#))
      (alias core export $ni# \"t\" (core table $nt#))
      (alias core export $ni# \"tg\" (core tag $ntg#))"),
    ("async-builtins",
     "(type $fut# (future))
      (type $str# (stream))
      (core func $fnew# (canon future.new $fut#))
      (core func $frd# (canon future.read $fut#))
      (core func $fwr# (canon future.write $fut#))
      (core func $fcr# (canon future.cancel-read $fut#))
      (core func $fcw# (canon future.cancel-write $fut#))
      (core func $fdr# (canon future.drop-readable $fut#))
      (core func $fdw# (canon future.drop-writable $fut#))
      (core func $snew# (canon stream.new $str#))
      (core func $scr# (canon stream.cancel-read $str#))
      (core func $scw# (canon stream.cancel-write $str#))"),
    ("lower",
     "(import \"low#\" (func $lf# (param \"x\" u32)))
      (core func $lowered# (canon lower (func $lf#)))
      (core module $lm# (import \"a\" \"b\" (func (param i32))))
      (core instance $li# (instantiate $lm# (with \"a\" (instance (export \"b\" (func $lowered#))))))"),
];

pub struct Gen<'r> {
    pub r: &'r mut Rng,
    pub next: usize,
    pub kinds: Vec<String>,
}

impl<'r> Gen<'r> {
    fn piece(&mut self, k: usize) -> String {
        self.next += 1;
        self.kinds.push(PIECES[k].0.to_string());
        PIECES[k].1.replace('#', &self.next.to_string())
    }
    /// a component body; `depth` = how many more levels may be nested below
    pub fn component(&mut self, depth: usize) -> String {
        let n = self.r.range(1, 6);
        let mut s = String::new();
        for _ in 0..n {
            let nest = depth > 0 && self.r.chance(2, 5);
            if nest {
                self.next += 1;
                let id = self.next;
                let inner = self.component(depth - 1);
                self.kinds.push("nested".into());
                s.push_str(&format!("(component $c{id}\n{inner})\n"));
                // sometimes instantiate it (only components without imports can be instantiated without arguments)
                if !inner.contains("(import \"") && self.r.chance(1, 3) {
                    s.push_str(&format!("(instance $ci{id} (instantiate $c{id}))\n"));
                }
            } else {
                let k = self.r.below(PIECES.len());
                s.push_str(&self.piece(k));
                s.push('\n');
            }
        }
        s
    }
}

pub fn gen_component(r: &mut Rng) -> (String, Vec<String>, usize) {
    let depth = r.weighted(&[2, 3, 3, 2, 1]);
    let mut g = Gen { r, next: 0, kinds: vec![] };
    let body = g.component(depth);
    (format!("(component $root\n{body})\n"), g.kinds, depth)
}

/// the section kinds at every nesting level, depth first: `<path>:<kind>*<items>`; adjacent sections of one kind are merged
/// (section framing is not part of the property)
pub fn structure(wasm: &[u8]) -> Result<Vec<String>, String> {
    use wasmparser::{Parser, Payload};
    let mut out: Vec<String> = vec![];
    let mut path: Vec<usize> = vec![];
    let mut counters: Vec<usize> = vec![0];
    let mut push = |path: &Vec<usize>, kind: &str, n: usize, out: &mut Vec<String>| {
        let p = if path.is_empty() { "r".to_string() } else { path.iter().map(|x| x.to_string()).collect::<Vec<_>>().join(".") };
        if let Some(last) = out.last_mut() {
            if let Some((lp, rest)) = last.split_once(':') {
                if let Some((lk, ln)) = rest.split_once('*') {
                    if lp == p && lk == kind {
                        let m: usize = ln.parse().unwrap();
                        *last = format!("{p}:{kind}*{}", m + n);
                        return;
                    }
                }
            }
        }
        out.push(format!("{p}:{kind}*{n}"));
    };
    // nested modules are opaque here (C01/C02 cover them): skip their payloads
    let mut module_depth = 0usize;
    for p in Parser::new(0).parse_all(wasm) {
        let p = p.map_err(|e| e.to_string())?;
        if module_depth > 0 {
            match p {
                Payload::End(_) => module_depth -= 1,
                _ => {}
            }
            continue;
        }
        match p {
            Payload::ModuleSection { .. } => {
                push(&path, "module", 1, &mut out);
                module_depth = 1;
            }
            Payload::ComponentSection { .. } => {
                push(&path, "component", 1, &mut out);
                let c = counters.last_mut().unwrap();
                path.push(*c);
                *c += 1;
                counters.push(0);
            }
            Payload::End(_) => {
                path.pop();
                counters.pop();
            }
            Payload::CoreTypeSection(r) => push(&path, "coretype", r.count() as usize, &mut out),
            Payload::ComponentTypeSection(r) => push(&path, "type", r.count() as usize, &mut out),
            Payload::ComponentImportSection(r) => push(&path, "import", r.count() as usize, &mut out),
            Payload::ComponentExportSection(r) => push(&path, "export", r.count() as usize, &mut out),
            Payload::InstanceSection(r) => push(&path, "coreinstance", r.count() as usize, &mut out),
            Payload::ComponentInstanceSection(r) => push(&path, "instance", r.count() as usize, &mut out),
            Payload::ComponentAliasSection(r) => push(&path, "alias", r.count() as usize, &mut out),
            Payload::ComponentCanonicalSection(r) => push(&path, "canon", r.count() as usize, &mut out),
            Payload::ComponentStartSection { .. } => push(&path, "start", 1, &mut out),
            Payload::CustomSection(c) => {
                if c.name() != "component-name" && c.name() != "name" {
                    push(&path, "custom", 1, &mut out)
                }
            }
            _ => {}
        }
    }
    Ok(out)
}

fn print(wasm: &[u8]) -> Result<String, String> {
    let mut out = String::new();
    let mut cfg = wasmprinter::Config::new();
    cfg.print_offsets(false);
    cfg.print(wasm, &mut wasmprinter::PrintFmtWrite(&mut out)).map_err(|e| e.to_string())?;
    Ok(out)
}

fn fixtures() -> Vec<std::path::PathBuf> {
    let mut v = vec![];
    let mut stack = vec![std::path::PathBuf::from("/repo/tests/test_inputs")];
    while let Some(d) = stack.pop() {
        if let Ok(rd) = std::fs::read_dir(&d) {
            for e in rd.flatten() {
                let p = e.path();
                if p.is_dir() {
                    stack.push(p);
                } else if matches!(p.extension().and_then(|x| x.to_str()), Some("wat") | Some("wasm")) {
                    v.push(p);
                }
            }
        }
    }
    v.sort();
    v
}

fn check_pieces() {
    for (name, text) in PIECES {
        let m = format!("(component\n{}\n)", text.replace('#', "1"));
        match wat::parse_str(&m) {
            Err(e) => println!("PIECE {name} TEXT: {e}"),
            Ok(b) => match wasmparser::Validator::new_with_features(wasmparser::WasmFeatures::all()).validate_all(&b) {
                Err(e) => println!("PIECE {name} INVALID: {e}"),
                Ok(_) => println!("PIECE {name} ok"),
            },
        }
    }
}

pub fn run(ctx: &mut Ctx) {
    let fam = "comp";
    if std::env::var("ORCA_FRAGS").is_ok() {
        check_pieces();
        return;
    }
    let fx: Vec<_> = fixtures();
    for case in 0..ctx.n {
        if !ctx.wants(case) {
            continue;
        }
        let mut r = Rng::new(ctx.seed, fam, case);
        let (bytes, label, depth): (Vec<u8>, String, usize) = if (case as usize) < fx.len() {
            let p = &fx[case as usize];
            let b = if p.extension().and_then(|x| x.to_str()) == Some("wat") { wat::parse_file(p).ok() } else { std::fs::read(p).ok() };
            match b {
                Some(b) if wasmparser::Parser::is_component(&b) => (b, format!("fixture:{}", p.strip_prefix("/repo/tests/test_inputs").unwrap().display()), 9),
                _ => continue,
            }
        } else {
            let (text, kinds, depth) = gen_component(&mut r);
            for k in &kinds {
                ctx.count(&format!("piece={k}"));
            }
            match wat::parse_str(&text) {
                Ok(mut b) => {
                    // one in three ends in two *neighbouring* type sections (one item, then two): a binary form that text-to-binary
                    // tools never write (they put the items of one kind that follow each other into one section)
                    if r.chance(1, 3) {
                        let mut b2 = b.clone();
                        b2.extend_from_slice(&[7, 2, 1, 0x7d]);
                        b2.extend_from_slice(&[7, 3, 2, 0x7d, 0x7c]);
                        if wasmparser::Validator::new_with_features(wasmparser::WasmFeatures::all()).validate_all(&b2).is_ok() {
                            ctx.count("sections=neighbouring-same-kind");
                            b = b2;
                        }
                    }
                    (b, "generated".to_string(), depth)
                }
                Err(e) => panic!("comp: generated text does not parse: {e}\n{text}"),
            }
        };
        if let Err(e) = wasmparser::Validator::new_with_features(wasmparser::WasmFeatures::all()).validate_all(&bytes) {
            if label == "generated" {
                panic!("comp: generated component is invalid: {e}");
            }
            ctx.count("skipped-invalid-input");
            continue;
        }
        let st_in = structure(&bytes).unwrap();
        let maxdepth = st_in.iter().map(|l| if l.starts_with("r:") { 0 } else { l.split(':').next().unwrap().split('.').count() }).max().unwrap_or(0);
        ctx.count(&format!("nesting-depth={maxdepth}"));
        let _ = depth;
        ctx.count(if label == "generated" { "input=generated" } else { "input=fixture" });
        ctx.case_line(&format!("comp {case} src={} st={}", label.replace(' ', "_"), st_in.join(",")));
        let res = guarded(|| Component::parse(&bytes, true).map(|mut c| c.encode()).map_err(|e| format!("{e}")));
        let out = match res {
            Err(p) => {
                ctx.impl_line(&format!("comp {case} PANIC"));
                ctx.fail(fam, case, "C27,C03", "parse-or-encode-panics-on-valid-component", &format!("{label}: {p}"));
                continue;
            }
            Ok(Err(e)) => {
                ctx.impl_line(&format!("comp {case} ERR"));
                ctx.fail(fam, case, "C27", "parse-rejects-valid-component", &format!("{label}: {e}"));
                continue;
            }
            Ok(Ok(o)) => o,
        };
        ctx.hash_line(fam, case, &out);
        let mut fails: Vec<(&str, String, String)> = vec![];
        match structure(&out) {
            Ok(s) => {
                // per nesting level, the kinds of the items in order (insensitive to how sections are cut)
                let mut paths: Vec<String> = vec![];
                let mut per: std::collections::HashMap<String, Vec<String>> = Default::default();
                for e in &s {
                    let (p, r) = e.split_once(':').unwrap();
                    let (k, n) = r.split_once('*').unwrap();
                    if !paths.contains(&p.to_string()) {
                        paths.push(p.to_string());
                    }
                    for _ in 0..n.parse::<usize>().unwrap() {
                        per.entry(p.to_string()).or_default().push(k.to_string());
                    }
                }
                let lines: Vec<String> = paths.iter().map(|p| format!("{p}={}", per[p].join("."))).collect();
                ctx.impl_line(&format!("comp {case} items={}", lines.join(",")));
            }
            Err(e) => {
                ctx.impl_line(&format!("comp {case} UNDECODABLE"));
                fails.push(("C27", "output-undecodable".into(), e));
            }
        }
        if let Err(e) = wasmparser::Validator::new_with_features(wasmparser::WasmFeatures::all()).validate_all(&out) {
            fails.push(("C27", "output-invalid".into(), format!("{label}: {e}")));
        }
        match (print(&bytes), print(&out)) {
            (Ok(a), Ok(b)) => {
                if a != b {
                    let d = a.lines().zip(b.lines()).find(|(x, y)| x != y).map(|(x, y)| format!("`{}` vs `{}`", x.trim(), y.trim())).unwrap_or_else(|| format!("{} vs {} lines", a.lines().count(), b.lines().count()));
                    let sig = if maxdepth >= 3 && a.lines().count() != b.lines().count() { "content-differs-nesting-depth>=3" } else { "content-differs" };
                    fails.push(("C27", sig.into(), format!("{label}: {d}")));
                }
            }
            (Ok(_), Err(e)) => fails.push(("C27", "output-unprintable".into(), e)),
            _ => {}
        }
        if fails.is_empty() {
            ctx.ok(fam, case);
        } else {
            let mut seen = std::collections::HashSet::new();
            for (p, s, d) in fails {
                if seen.insert(s.clone()) {
                    ctx.fail(fam, case, p, &s, &d);
                }
            }
        }
    }
}
