//! family `sidefx` (C23): histories of tagged and untagged additions (types, imports of the three kinds, functions,
//! globals, memories, exports, data segments), deletions of added items and probes (every mode, with and without a tag)
//! on generated base modules. The same history is applied to two parses of the base: one is encoded, the other is asked
//! for its side effects. The records are printed canonically (model comparison) and judged against the harness's own log
//! of what it added (oracle): one record per live addition that was given a tag, carrying that tag and that content, none
//! for parsed items, and every probe body equal to the code found in the *encoded* module (same index space).
use crate::ctx::{guarded, Ctx};
use crate::optok::tok_of;
use crate::rng::Rng;
use std::collections::BTreeMap;
use wasmparser::Operator;
use wirm::module_builder::AddLocal;
use wirm::ir::function::FunctionBuilder;
use wirm::ir::id::{ExportsID, FunctionID, GlobalID};
use wirm::ir::module::side_effects::{InjectType, Injection};
use wirm::ir::types::{FuncInstrMode, InitExpr, InitInstr, InstrumentationMode, Location, Tag, Value};
use wirm::opcode::{Inject, Instrumenter};
use wirm::{DataSegment, DataSegmentKind, DataType, Module};

const FMARK: i32 = 500_000;
const GMARK: i32 = 700_000;
const PMARK: i32 = 900_000;

/// function signatures the family uses: (params, results)
const SIGS: &[(&[&str], &[&str])] = &[(&[], &[]), (&["i32"], &[]), (&["i64", "i64"], &[]), (&["f32", "i32"], &[]), (&["i32", "i32", "i32"], &[]), (&["f64"], &[])];

fn dt(s: &str) -> DataType {
    match s {
        "i32" => DataType::I32,
        "i64" => DataType::I64,
        "f32" => DataType::F32,
        "f64" => DataType::F64,
        _ => unreachable!(),
    }
}
fn dts(xs: &[&str]) -> Vec<DataType> {
    xs.iter().map(|s| dt(s)).collect()
}
/// the locals a function built by this family declares
fn built_locals(uid: u32) -> Vec<DataType> {
    match uid % 4 {
        0 => vec![],
        1 => vec![DataType::I32, DataType::I32, DataType::I64],
        2 => vec![DataType::F32, DataType::I64, DataType::I64, DataType::I64],
        _ => vec![DataType::I64],
    }
}

fn dt_name(d: &DataType) -> String {
    format!("{d:?}").to_lowercase()
}

/// how an action is tagged
#[derive(Clone, Debug, PartialEq)]
enum TagSpec {
    /// `None` handed to an API that takes an `InjectTag` (types, exports, data segments)
    NoTag,
    /// the API without `_with_tag`: the library's default (empty) tag
    Default,
    Bytes(Vec<u8>),
}
impl TagSpec {
    fn code(&self) -> String {
        match self {
            TagSpec::NoTag => "N".into(),
            TagSpec::Default => "D".into(),
            TagSpec::Bytes(b) => format!("T{}", hex(b)),
        }
    }
    /// the tag the item carries, if any
    fn carried(&self) -> Option<Vec<u8>> {
        match self {
            TagSpec::NoTag => None,
            TagSpec::Default => Some(vec![]),
            TagSpec::Bytes(b) => Some(b.clone()),
        }
    }
    fn inject_tag(&self) -> Option<Tag> {
        self.carried().map(Tag::new)
    }
}
fn hex(b: &[u8]) -> String {
    if b.is_empty() {
        "e".into()
    } else {
        b.iter().map(|x| format!("{x:02x}")).collect()
    }
}

#[derive(Clone, Debug)]
enum RefTok {
    Const(u32),
    Call(usize, u32), // handle, site
    GGet(usize, u32), // handle, site
}

#[derive(Clone, Debug)]
enum Act {
    Type { sig: usize, tag: TagSpec },
    ImpF { uid: u32, tag: TagSpec },
    ImpG { uid: u32, tag: TagSpec },
    ImpM { uid: u32, tag: TagSpec },
    Func { uid: u32, sig: usize, tag: TagSpec, refs: Vec<RefTok> },
    /// `get`: the initialiser is `global.get` of this imported global (handle, site) instead of the marker constant
    Glob { uid: u32, tag: TagSpec, get: Option<(usize, u32)> },
    Mem { uid: u32, tag: TagSpec },
    ExpF { h: usize, site: u32, name: String, tag: TagSpec },
    Data { passive: bool, bytes: Vec<u8>, tag: TagSpec },
    DelF { h: usize },
    DelG { h: usize },
    DelX { pos: usize },
    /// a probe on a base local function: mode 0..=6 = before, after, alternate, semantic_after, block_entry, block_exit, block_alt
    Probe { h: usize, idx: usize, mode: usize, tag: Option<Vec<u8>>, refs: Vec<RefTok>, tag_first: bool },
    FProbe { h: usize, exit: bool, tag: Option<Vec<u8>>, refs: Vec<RefTok>, tag_first: bool },
}

pub const MODES: &[(&str, InstrumentationMode)] = &[
    ("before", InstrumentationMode::Before),
    ("after", InstrumentationMode::After),
    ("alternate", InstrumentationMode::Alternate),
    ("semantic_after", InstrumentationMode::SemanticAfter),
    ("block_entry", InstrumentationMode::BlockEntry),
    ("block_exit", InstrumentationMode::BlockExit),
    ("block_alt", InstrumentationMode::BlockAlt),
];

#[derive(Clone, Debug, PartialEq)]
enum Sp {
    F,
    G,
    M,
}

#[derive(Clone, Debug)]
struct Handle {
    sp: Sp,
    id: u32, // the id the caller holds (base: read off the module; additions: filled in from the API at run time)
    uid: u32,
    imp: bool,
    added: bool,
    refs: u32,
    dead: bool,
    /// a global the encoded module does not let the oracle recognise (initialised by `global.get`): never referenced
    noref: bool,
}

struct Base {
    wat: String,
    nif: usize,
    nlf: usize,
    nig: usize,
    nlg: usize,
    nim: usize,
    nlm: usize,
    types: Vec<usize>,
    /// per base local function: the operators after the marker (for choosing probe locations)
    bodies: Vec<Vec<&'static str>>,
    nexp: usize,
    ndata: usize,
}

const TEMPLATES: &[&[&str]] = &[
    &["nop", "nop"],
    &["block", "nop", "end", "nop"],
    &["i32.const 1", "if", "nop", "else", "nop", "end"],
    &["loop", "nop", "end"],
    &["block", "i32.const 0", "br_if 0", "nop", "end"],
    &["nop", "block", "block", "nop", "end", "end"],
];

fn gen_base(rng: &mut Rng) -> Base {
    let nif = rng.below(3);
    let nig = rng.below(3);
    let nim = if rng.chance(1, 4) { 1 } else { 0 };
    let nlf = rng.range(1, 3);
    let nlg = rng.below(3);
    let nlm = if nim == 0 && rng.chance(2, 3) { 1 } else { 0 };
    let mut types = vec![0usize];
    for s in 1..SIGS.len() {
        if rng.chance(1, 3) {
            types.push(s);
        }
    }
    let mut w = String::from("(module\n");
    for t in &types {
        let (p, _) = SIGS[*t];
        w.push_str(&format!("  (type (func{}))\n", if p.is_empty() { String::new() } else { format!(" (param {})", p.join(" ")) }));
    }
    for i in 0..nif {
        w.push_str(&format!("  (import \"env\" \"f{i}\" (func (type 0)))\n"));
    }
    for i in 0..nig {
        w.push_str(&format!("  (import \"env\" \"g{}\" (global i32))\n", nif + nlf + i));
    }
    if nim == 1 {
        w.push_str("  (import \"env\" \"m\" (memory 1))\n");
    }
    let mut bodies = vec![];
    for k in 0..nlf {
        let uid = nif + k;
        let t = TEMPLATES[rng.below(TEMPLATES.len())];
        let mut ops: Vec<&'static str> = vec!["MARK", "drop"];
        ops.extend(t.iter().copied());
        w.push_str(&format!("  (func (type 0)\n    i32.const {}\n    drop\n", FMARK + uid as i32));
        for o in t {
            w.push_str(&format!("    {o}\n"));
        }
        // references of the base code are renumbered by the encoder like everything else
        if nif + k > 0 && rng.chance(1, 2) {
            w.push_str(&format!("    call {}\n", rng.below(nif + k)));
            ops.push("call");
        }
        w.push_str("  )\n");
        bodies.push(ops);
    }
    for k in 0..nlg {
        let uid = nif + nlf + nig + k;
        w.push_str(&format!("  (global {} (i32.const {}))\n", if k % 2 == 0 { "i32" } else { "(mut i32)" }, GMARK + uid as i32));
    }
    if nlm == 1 {
        w.push_str("  (memory 1)\n");
    }
    let mut nexp = 0;
    for k in 0..nlf {
        if rng.chance(1, 2) {
            w.push_str(&format!("  (export \"b{k}\" (func {}))\n", nif + k));
            nexp += 1;
        }
    }
    let mut ndata = 0;
    if nim + nlm > 0 && rng.chance(1, 2) {
        w.push_str("  (data (i32.const 8) \"base\")\n");
        ndata += 1;
    }
    w.push_str(")\n");
    Base { wat: w, nif, nlf, nig, nlg, nim, nlm, types, bodies, nexp, ndata }
}

struct Gen {
    handles: Vec<Handle>,
    next_uid: u32,
    next_site: u32,
    next_probe: u32,
    next_tag: u32,
    nexports: usize,
    exp_deleted: Vec<bool>,
    exp_added: Vec<bool>,
    exp_name: Vec<String>,
    /// the name of this deleted export has been given to a later one
    exp_reused: Vec<bool>,
    special_funcs: Vec<usize>,
    plain_funcs: Vec<usize>,
}

impl Gen {
    fn tagbytes(&mut self, rng: &mut Rng) -> Vec<u8> {
        // unique, non-empty
        self.next_tag += 1;
        let mut v = vec![0xA0 + (self.next_tag as u8 & 0x1f), self.next_tag as u8];
        if rng.chance(1, 3) {
            v.push(rng.below(256) as u8);
        }
        v
    }
    fn tagspec(&mut self, rng: &mut Rng, allow_none: bool) -> TagSpec {
        match rng.weighted(&[5, 2, if allow_none { 2 } else { 0 }]) {
            0 => TagSpec::Bytes(self.tagbytes(rng)),
            1 => TagSpec::Default,
            _ => TagSpec::NoTag,
        }
    }
    fn live(&self, sp: Sp, pred: impl Fn(&Handle) -> bool) -> Vec<usize> {
        (0..self.handles.len()).filter(|i| self.handles[*i].sp == sp && !self.handles[*i].dead && pred(&self.handles[*i])).collect()
    }
    fn refs(&mut self, rng: &mut Rng) -> Vec<RefTok> {
        let mut v = vec![];
        self.next_probe += 1;
        v.push(RefTok::Const(self.next_probe));
        for _ in 0..rng.below(3) {
            match rng.below(3) {
                0 => {
                    self.next_probe += 1;
                    v.push(RefTok::Const(self.next_probe));
                }
                1 => {
                    // only functions of type [] -> [] are called: the imports and the base locals
                    let fs = self.live(Sp::F, |h| h.imp || !h.added);
                    if !fs.is_empty() {
                        let h = *rng.pick(&fs);
                        self.handles[h].refs += 1;
                        self.next_site += 1;
                        v.push(RefTok::Call(h, self.next_site));
                    }
                }
                _ => {
                    let gs = self.live(Sp::G, |h| !h.noref);
                    if !gs.is_empty() {
                        let h = *rng.pick(&gs);
                        self.handles[h].refs += 1;
                        self.next_site += 1;
                        v.push(RefTok::GGet(h, self.next_site));
                    }
                }
            }
        }
        v
    }
}

fn gen_history(rng: &mut Rng, b: &Base, special: u8) -> (Vec<Act>, Vec<Handle>) {
    let mut g = Gen {
        handles: vec![],
        next_uid: 0,
        next_site: 0,
        next_probe: 0,
        next_tag: 0,
        nexports: b.nexp,
        exp_deleted: vec![false; b.nexp],
        exp_added: vec![false; b.nexp],
        exp_name: (0..b.nexp).map(|k| format!("b{k}")).collect(),
        exp_reused: vec![false; b.nexp],
        special_funcs: vec![],
        plain_funcs: vec![],
    };
    // base handles; uids number the base entities: functions, then globals, then memories
    for i in 0..b.nif + b.nlf {
        g.handles.push(Handle { sp: Sp::F, id: i as u32, uid: i as u32, imp: i < b.nif, added: false, refs: 0, dead: false, noref: false });
    }
    for i in 0..b.nig + b.nlg {
        g.handles.push(Handle { sp: Sp::G, id: i as u32, uid: (b.nif + b.nlf + i) as u32, imp: i < b.nig, added: false, refs: 0, dead: false, noref: false });
    }
    for i in 0..b.nim + b.nlm {
        g.handles.push(Handle { sp: Sp::M, id: i as u32, uid: (b.nif + b.nlf + b.nig + b.nlg + i) as u32, imp: i < b.nim, added: false, refs: 0, dead: false, noref: false });
    }
    g.next_uid = g.handles.len() as u32;
    // in a case with special modes, each base local function takes either plain or special probes, never both: where a
    // special mode is lowered to depends on the function's structure (model M3), which this family does not repeat
    for k in 0..b.nlf {
        if special == 2 {
            // mixed cases (judged by the oracle only; their probe records are left out of the model comparison)
            g.special_funcs.push(b.nif + k);
            g.plain_funcs.push(b.nif + k);
        } else if special == 1 && rng.chance(1, 2) {
            g.special_funcs.push(b.nif + k);
        } else {
            g.plain_funcs.push(b.nif + k);
        }
    }
    let n = rng.range(2, 10);
    let mut acts = vec![];
    let mut nmem = b.nim + b.nlm;
    for _ in 0..n {
        let k = rng.weighted(&[2, 2, 2, 1, 3, 3, 1, 2, 2, 2, 1, 1, 8, 2]);
        match k {
            0 => {
                let tag = g.tagspec(rng, true);
                acts.push(Act::Type { sig: rng.below(SIGS.len()), tag });
            }
            1 | 2 | 3 => {
                let uid = g.next_uid;
                g.next_uid += 1;
                let tag = g.tagspec(rng, false);
                let sp = [Sp::F, Sp::G, Sp::M][k - 1].clone();
                if sp == Sp::M {
                    nmem += 1;
                }
                g.handles.push(Handle { sp: sp.clone(), id: u32::MAX, uid, imp: true, added: true, refs: 0, dead: false, noref: false });
                acts.push(match sp {
                    Sp::F => Act::ImpF { uid, tag },
                    Sp::G => Act::ImpG { uid, tag },
                    Sp::M => Act::ImpM { uid, tag },
                });
            }
            4 => {
                let uid = g.next_uid;
                g.next_uid += 1;
                let tag = g.tagspec(rng, false);
                let mut refs = g.refs(rng);
                refs.remove(0);
                g.handles.push(Handle { sp: Sp::F, id: u32::MAX, uid, imp: false, added: true, refs: 0, dead: false, noref: false });
                acts.push(Act::Func { uid, sig: rng.below(SIGS.len()), tag, refs });
            }
            5 => {
                let uid = g.next_uid;
                g.next_uid += 1;
                let tag = g.tagspec(rng, false);
                let igs = g.live(Sp::G, |h| h.imp);
                let get = if !igs.is_empty() && rng.chance(1, 3) {
                    let h = *rng.pick(&igs);
                    g.handles[h].refs += 1;
                    g.next_site += 1;
                    Some((h, g.next_site))
                } else {
                    None
                };
                g.handles.push(Handle { sp: Sp::G, id: u32::MAX, uid, imp: false, added: true, refs: 0, dead: false, noref: get.is_some() });
                acts.push(Act::Glob { uid, tag, get });
            }
            6 => {
                let uid = g.next_uid;
                g.next_uid += 1;
                let tag = g.tagspec(rng, false);
                nmem += 1;
                g.handles.push(Handle { sp: Sp::M, id: u32::MAX, uid, imp: false, added: true, refs: 0, dead: false, noref: false });
                acts.push(Act::Mem { uid, tag });
            }
            7 => {
                let fs = g.live(Sp::F, |_| true);
                if !fs.is_empty() {
                    let h = *rng.pick(&fs);
                    g.handles[h].refs += 1;
                    g.next_site += 1;
                    let tag = g.tagspec(rng, true);
                    // one added export in three takes the name of an export deleted earlier (a parsed one: `b<k>`, or an added one):
                    // redirecting an export is delete + add under the same name, and the record must be the new one's
                    let gone: Vec<usize> = (0..g.nexports).filter(|i| g.exp_deleted[*i] && !g.exp_reused[*i]).collect();
                    let name = if !gone.is_empty() && rng.chance(1, 3) {
                        let i = *rng.pick(&gone);
                        g.exp_reused[i] = true;
                        g.exp_name[i].clone()
                    } else {
                        format!("x{}", g.nexports)
                    };
                    g.exp_name.push(name.clone());
                    g.exp_reused.push(false);
                    g.nexports += 1;
                    g.exp_deleted.push(false);
                    g.exp_added.push(true);
                    acts.push(Act::ExpF { h, site: g.next_site, name, tag });
                }
            }
            8 => {
                let passive = nmem == 0 || rng.chance(1, 2);
                let tag = g.tagspec(rng, true);
                g.next_probe += 1;
                let mut bytes = vec![0xD0, g.next_probe as u8];
                for _ in 0..rng.below(3) {
                    bytes.push(rng.below(256) as u8);
                }
                acts.push(Act::Data { passive, bytes, tag });
            }
            9 => {
                // delete an added, unreferenced function
                let fs = g.live(Sp::F, |h| h.added && h.refs == 0);
                if !fs.is_empty() {
                    let h = *rng.pick(&fs);
                    g.handles[h].dead = true;
                    acts.push(Act::DelF { h });
                }
            }
            10 => {
                let gs = g.live(Sp::G, |h| h.added && h.refs == 0);
                if !gs.is_empty() {
                    let h = *rng.pick(&gs);
                    g.handles[h].dead = true;
                    acts.push(Act::DelG { h });
                }
            }
            11 => {
                let xs: Vec<usize> = (0..g.nexports).filter(|i| !g.exp_deleted[*i]).collect();
                if !xs.is_empty() {
                    let pos = *rng.pick(&xs);
                    g.exp_deleted[pos] = true;
                    acts.push(Act::DelX { pos });
                }
            }
            12 => {
                let use_special = !g.special_funcs.is_empty() && (g.plain_funcs.is_empty() || rng.chance(1, 2));
                let fh = if use_special { *rng.pick(&g.special_funcs.clone()) } else if !g.plain_funcs.is_empty() { *rng.pick(&g.plain_funcs.clone()) } else { continue };
                let body = &b.bodies[fh - b.nif];
                // the final `end` (index body.len()) takes only `before`
                let idx = rng.below(body.len() + 1);
                let op = if idx < body.len() { body[idx] } else { "end" };
                let mode = if !use_special {
                    // the marker stays (the oracle finds the function by it) and the block structure stays balanced
                    let replaceable = idx >= 2 && idx < body.len() && matches!(body[idx], "nop" | "call" | "i32.const 0" | "i32.const 1");
                    if idx == body.len() {
                        0
                    } else if replaceable {
                        rng.below(3)
                    } else {
                        rng.below(2)
                    }
                } else {
                    let blockish = matches!(op, "block" | "loop" | "if" | "else");
                    let branch = op.starts_with("br");
                    if blockish {
                        // a removed block takes the plain probes inside it along: no block_alt where the two are mixed
                        rng.range(3, if special == 2 { 5 } else { 6 })
                    } else if branch {
                        3
                    } else {
                        continue;
                    }
                };
                let tag = if rng.chance(2, 3) { Some(g.tagbytes(rng)) } else { None };
                let refs = g.refs(rng);
                acts.push(Act::Probe { h: fh, idx, mode, tag, refs, tag_first: rng.chance(1, 3) });
            }
            _ => {
                if !g.special_funcs.is_empty() {
                    let fh = *rng.pick(&g.special_funcs.clone());
                    let tag = if rng.chance(2, 3) { Some(g.tagbytes(rng)) } else { None };
                    let refs = g.refs(rng);
                    acts.push(Act::FProbe { h: fh, exit: rng.chance(1, 2), tag, refs, tag_first: rng.chance(1, 3) });
                }
            }
        }
    }
    (acts, g.handles)
}

fn ref_ops<'a>(refs: &[RefTok], hs: &[Handle]) -> Vec<Operator<'a>> {
    let mut v = vec![];
    for r in refs {
        match r {
            RefTok::Const(n) => {
                v.push(Operator::I32Const { value: PMARK + *n as i32 });
                v.push(Operator::Drop);
            }
            RefTok::Call(h, _) => v.push(Operator::Call { function_index: hs[*h].id }),
            RefTok::GGet(h, _) => {
                v.push(Operator::GlobalGet { global_index: hs[*h].id });
                v.push(Operator::Drop);
            }
        }
    }
    v
}

fn refs_plan(refs: &[RefTok], hs: &[Handle]) -> String {
    if refs.is_empty() {
        return "-".into();
    }
    refs.iter()
        .map(|r| match r {
            RefTok::Const(n) => format!("c{n}"),
            RefTok::Call(h, s) => format!("f{s}.{}", hs[*h].id),
            RefTok::GGet(h, s) => format!("g{s}.{}", hs[*h].id),
        })
        .collect::<Vec<_>>()
        .join(",")
}

/// apply the history; fills in the ids the API reports and returns the plan tokens (which quote those ids)
fn apply<'a>(m: &mut Module<'a>, acts: &[Act], hs: &mut [Handle]) -> Vec<String> {
    let mut plan = vec![];
    let find = |hs: &[Handle], uid: u32| hs.iter().position(|h| h.uid == uid).unwrap();
    for a in acts {
        match a {
            Act::Type { sig, tag } => {
                let (p, r) = SIGS[*sig];
                let id = m.types.add_func_type(&dts(p), &dts(r), tag.inject_tag());
                plan.push(format!("ty~{sig}~{}~{}", tag.code(), *id));
            }
            Act::ImpF { uid, tag } => {
                let ty = m.types.add_func_type(&[], &[], None);
                let (id, imp) = match tag {
                    TagSpec::Bytes(b) => m.add_import_func_with_tag("env".into(), format!("f{uid}"), ty, Tag::new(b.clone())),
                    _ => m.add_import_func("env".into(), format!("f{uid}"), ty),
                };
                hs[find(hs, *uid)].id = *id;
                plan.push(format!("if~{uid}~{}~{}~{}", tag.code(), *id, *imp));
            }
            Act::ImpG { uid, tag } => {
                let (id, imp) = match tag {
                    TagSpec::Bytes(b) => m.add_imported_global_with_tag("env".into(), format!("g{uid}"), DataType::I32, false, false, Tag::new(b.clone())),
                    _ => m.add_imported_global("env".into(), format!("g{uid}"), DataType::I32, false, false),
                };
                hs[find(hs, *uid)].id = *id;
                plan.push(format!("ig~{uid}~{}~{}~{}", tag.code(), *id, *imp));
            }
            Act::ImpM { uid, tag } => {
                let ty = mem_ty(*uid);
                let (id, imp) = match tag {
                    TagSpec::Bytes(b) => m.add_import_memory_with_tag("env".into(), format!("m{uid}"), ty, Tag::new(b.clone())),
                    _ => m.add_import_memory("env".into(), format!("m{uid}"), ty),
                };
                hs[find(hs, *uid)].id = *id;
                plan.push(format!("im~{uid}~{}~{}~{}", tag.code(), *id, *imp));
            }
            Act::Func { uid, sig, tag, refs } => {
                let (p, r) = SIGS[*sig];
                let mut fb = FunctionBuilder::new(&dts(p), &dts(r));
                // locals of its own (a function of its uid): none, one run, or several runs of different types - the record lists them
                for l in built_locals(*uid) {
                    fb.add_local(l);
                }
                fb.inject(Operator::I32Const { value: FMARK + *uid as i32 });
                fb.inject(Operator::Drop);
                for o in ref_ops(refs, hs) {
                    fb.inject(o);
                }
                let id = match tag {
                    TagSpec::Bytes(b) => fb.finish_module_with_tag(m, Tag::new(b.clone())),
                    _ => fb.finish_module(m),
                };
                hs[find(hs, *uid)].id = *id;
                plan.push(format!("fn~{uid}~{sig}~{}~{}~{}", tag.code(), refs_plan(refs, hs), *id));
            }
            Act::Glob { uid, tag, get } => {
                let init = match get {
                    Some((h, _)) => InitExpr::new(vec![InitInstr::Global(GlobalID(hs[*h].id))]),
                    None => InitExpr::new(vec![InitInstr::Value(Value::I32(GMARK + *uid as i32))]),
                };
                let id = match tag {
                    TagSpec::Bytes(b) => m.add_global_with_tag(init, DataType::I32, uid % 2 == 0, false, Tag::new(b.clone())),
                    _ => m.add_global(init, DataType::I32, uid % 2 == 0, false),
                };
                hs[find(hs, *uid)].id = *id;
                let r = match get {
                    Some((h, s)) => format!("g{s}.{}", hs[*h].id),
                    None => "-".into(),
                };
                plan.push(format!("gl~{uid}~{}~{r}~{}", tag.code(), *id));
            }
            Act::Mem { uid, tag } => {
                let ty = mem_ty(*uid);
                let id = match tag {
                    TagSpec::Bytes(b) => m.add_local_memory_with_tag(ty, Tag::new(b.clone())),
                    _ => m.add_local_memory(ty),
                };
                hs[find(hs, *uid)].id = *id;
                plan.push(format!("me~{uid}~{}~{}", tag.code(), *id));
            }
            Act::ExpF { h, site, name, tag } => {
                m.exports.add_export_func(name.clone(), hs[*h].id, tag.inject_tag());
                plan.push(format!("ex~{site}.{}~{}", hs[*h].id, tag.code()));
            }
            Act::Data { passive, bytes, tag } => {
                let kind = if *passive {
                    DataSegmentKind::Passive
                } else {
                    DataSegmentKind::Active { memory_index: 0, offset_expr: InitExpr::new(vec![InitInstr::Value(Value::I32(16))]) }
                };
                m.add_data(DataSegment { kind, data: bytes.clone(), tag: tag.inject_tag() });
                plan.push(format!("da~{}~{}~{}", if *passive { "p" } else { "a" }, tag.code(), hex(bytes)));
            }
            Act::DelF { h } => {
                m.delete_func(FunctionID(hs[*h].id));
                plan.push(format!("df~{}", hs[*h].id));
            }
            Act::DelG { h } => {
                m.delete_global(GlobalID(hs[*h].id));
                plan.push(format!("dg~{}", hs[*h].id));
            }
            Act::DelX { pos } => {
                m.exports.delete(ExportsID(*pos as u32));
                plan.push(format!("dx~{pos}"));
            }
            Act::Probe { h, idx, mode, tag, refs, tag_first } => {
                let fid = FunctionID(hs[*h].id);
                let mut fm = m.functions.get_fn_modifier(fid).expect("local function");
                let loc = Location::Module { func_idx: fid, instr_idx: *idx };
                fm.set_instrument_mode_at(MODES[*mode].1, loc);
                // the tag may be attached before the list has a body
                if let (Some(t), true) = (tag, *tag_first) {
                    fm.append_tag_at(t.clone(), loc);
                }
                for o in ref_ops(refs, hs) {
                    fm.inject(o);
                }
                if let (Some(t), false) = (tag, *tag_first) {
                    fm.append_tag_at(t.clone(), loc);
                }
                plan.push(format!("pr~{}~{idx}~{}~{}~{}~{}", hs[*h].id, MODES[*mode].0, tag.as_ref().map_or("-".to_string(), |t| hex(t)), refs_plan(refs, hs), if *tag_first { "tf" } else { "tl" }));
            }
            Act::FProbe { h, exit, tag, refs, tag_first } => {
                let fid = FunctionID(hs[*h].id);
                let mut fm = m.functions.get_fn_modifier(fid).expect("local function");
                if *exit {
                    fm.func_exit();
                } else {
                    fm.func_entry();
                }
                if let (Some(t), true) = (tag, *tag_first) {
                    fm.append_tag_at(t.clone(), Location::Module { func_idx: fid, instr_idx: 0 });
                }
                for o in ref_ops(refs, hs) {
                    fm.inject(o);
                }
                if let (Some(t), false) = (tag, *tag_first) {
                    fm.append_tag_at(t.clone(), Location::Module { func_idx: fid, instr_idx: 0 });
                }
                fm.finish_instr();
                plan.push(format!("fp~{}~{}~{}~{}~{}", hs[*h].id, if *exit { "exit" } else { "entry" }, tag.as_ref().map_or("-".to_string(), |t| hex(t)), refs_plan(refs, hs), if *tag_first { "tf" } else { "tl" }));
            }
        }
    }
    plan
}

fn mem_ty(uid: u32) -> wasmparser::MemoryType {
    wasmparser::MemoryType { memory64: false, shared: false, initial: uid as u64 + 2, maximum: None, page_size_log2: None }
}

fn toks(ops: &[Operator]) -> String {
    if ops.is_empty() {
        "-".into()
    } else {
        ops.iter().map(tok_of).collect::<Vec<_>>().join(",")
    }
}
fn init_toks(e: &InitExpr) -> String {
    e.instructions()
        .iter()
        .map(|i| match i {
            InitInstr::Value(Value::I32(v)) => format!("i32.const:{v}"),
            InitInstr::Global(g) => format!("global.get:{}", **g),
            InitInstr::RefFunc(f) => format!("ref.func:{}", **f),
            other => format!("{other:?}").replace([' ', ',', ';', '~', '='], "_"),
        })
        .collect::<Vec<_>>()
        .join(",")
}
fn sig_str(p: &[DataType], r: &[DataType]) -> String {
    format!("{}>{}", p.iter().map(dt_name).collect::<Vec<_>>().join("."), r.iter().map(dt_name).collect::<Vec<_>>().join("."))
}

#[derive(Clone, Debug, PartialEq)]
struct Rec {
    kind: &'static str,
    tag: Vec<u8>,
    /// canonical text (model comparison)
    text: String,
    /// what the oracle keys on
    key: String,
    body: Option<String>,
    fid: u32,
}

fn canon(fx: &std::collections::HashMap<InjectType, Vec<Injection>>) -> Vec<Rec> {
    let order = [
        (InjectType::Type, "type"),
        (InjectType::Import, "import"),
        (InjectType::Export, "export"),
        (InjectType::Memory, "memory"),
        (InjectType::Data, "data"),
        (InjectType::Global, "global"),
        (InjectType::Func, "func"),
        (InjectType::Local, "local"),
        (InjectType::Table, "table"),
        (InjectType::Element, "element"),
        (InjectType::Probe, "probe"),
    ];
    let mut out = vec![];
    for (t, kind) in order {
        let Some(v) = fx.get(&t) else { continue };
        for inj in v {
            let r = match inj {
                Injection::Type { ty, tag } => {
                    let s = sig_str(&ty.params(), &ty.results());
                    Rec { kind, tag: tag.data().clone(), text: s.clone(), key: s, body: None, fid: 0 }
                }
                Injection::Import { module, name, type_ref, tag } => {
                    let k = match type_ref {
                        wasmparser::TypeRef::Func(_) => "F",
                        wasmparser::TypeRef::Global(_) => "G",
                        wasmparser::TypeRef::Memory(_) => "M",
                        _ => "?",
                    };
                    Rec { kind, tag: tag.data().clone(), text: format!("{module}.{name}:{k}"), key: name.clone(), body: None, fid: 0 }
                }
                Injection::Export { name, kind: k, index, tag } => {
                    Rec { kind, tag: tag.data().clone(), text: format!("{name}:{k:?}:{index}"), key: name.clone(), body: None, fid: 0 }
                }
                Injection::Memory { id, initial, maximum, tag } => {
                    Rec { kind, tag: tag.data().clone(), text: format!("{id}:{initial}:{maximum:?}"), key: initial.to_string(), body: None, fid: 0 }
                }
                Injection::PassiveData { data, tag } => Rec { kind, tag: tag.data().clone(), text: format!("p:{}", hex(data)), key: hex(data), body: None, fid: 0 },
                Injection::ActiveData { memory_index, offset_expr, data, tag } => {
                    Rec { kind, tag: tag.data().clone(), text: format!("a:{memory_index}:{}:{}", init_toks(offset_expr), hex(data)), key: hex(data), body: None, fid: 0 }
                }
                Injection::Global { id, ty, shared, mutable, init_expr, tag } => Rec {
                    kind,
                    tag: tag.data().clone(),
                    text: format!("{id}:{}:{}:{}:{}", dt_name(ty), *shared as u8, *mutable as u8, init_toks(init_expr)),
                    key: init_toks(init_expr),
                    body: None,
                    fid: 0,
                },
                Injection::Func { id, fname, sig, locals, body, tag } => {
                    let ops: Vec<Operator> = body.iter().map(|i| i.op.clone()).collect();
                    Rec {
                        kind,
                        tag: tag.data().clone(),
                        // the model does not carry the locals of a built function: the record's list is judged here, against what the
                        // family declared for the function (identified by the marker constant its body starts with), and shown as `0` when right
                        text: format!("{id}:{}:{}:{}:{}", fname.clone().unwrap_or("-".into()), sig_str(&sig.0, &sig.1), {
                            let uid = match ops.first() {
                                Some(Operator::I32Const { value }) if *value >= FMARK => Some((*value - FMARK) as u32),
                                _ => None,
                            };
                            let want: Option<Vec<String>> = uid.map(|u| built_locals(u).iter().map(dt_name).collect());
                            let got: Vec<String> = locals.iter().map(dt_name).collect();
                            if want.as_ref() == Some(&got) { "0".to_string() } else { format!("LOCALS!{}", got.join("+")) }
                        }, toks(&ops)),
                        key: ops.first().map(tok_of).unwrap_or_default(),
                        body: None,
                        fid: *id,
                    }
                }
                Injection::Local { target_fid, ty, tag } => Rec { kind, tag: tag.data().clone(), text: format!("{target_fid}:{}", dt_name(ty)), key: String::new(), body: None, fid: *target_fid },
                Injection::Table { tag } => Rec { kind, tag: tag.data().clone(), text: String::new(), key: String::new(), body: None, fid: 0 },
                Injection::Element { tag } => Rec { kind, tag: tag.data().clone(), text: String::new(), key: String::new(), body: None, fid: 0 },
                Injection::FuncProbe { target_fid, mode, body, tag } => {
                    let md = match mode {
                        FuncInstrMode::Entry => "entry",
                        FuncInstrMode::Exit => "exit",
                    };
                    Rec { kind, tag: tag.data().clone(), text: format!("F:{target_fid}:{md}:{}", toks(body)), key: format!("F:{md}"), body: Some(toks(body)), fid: *target_fid }
                }
                Injection::FuncLocProbe { target_fid, target_opcode_idx, mode, body, tag } => {
                    let md = MODES.iter().find(|(_, x)| x == mode).map(|(n, _)| *n).unwrap_or("?");
                    Rec {
                        kind,
                        tag: tag.data().clone(),
                        text: format!("L:{target_fid}:{target_opcode_idx}:{md}:{}", toks(body)),
                        key: format!("L:{target_opcode_idx}:{md}"),
                        body: Some(toks(body)),
                        fid: *target_fid,
                    }
                }
            };
            out.push(r);
        }
    }
    out
}

/// what the encoded module says: output index of every function / global by marker or import name, and the code
struct Decoded {
    fidx: BTreeMap<u32, u32>, // uid -> output function index
    gidx: BTreeMap<u32, u32>,
    /// globals initialised by `global.get` (uid unknown): output index -> output index of the global read
    getters: Vec<(u32, u32)>,
    code: BTreeMap<u32, Vec<String>>, // output function index -> tokens
}

fn decode(bytes: &[u8]) -> Result<Decoded, String> {
    let mut d = Decoded { fidx: BTreeMap::new(), gidx: BTreeMap::new(), getters: vec![], code: BTreeMap::new() };
    let (mut nf, mut ng) = (0u32, 0u32);
    let mut k = 0u32;
    for p in wasmparser::Parser::new(0).parse_all(bytes) {
        match p.map_err(|e| e.to_string())? {
            wasmparser::Payload::ImportSection(r) => {
                for i in r {
                    let i = i.map_err(|e| e.to_string())?;
                    match i.ty {
                        wasmparser::TypeRef::Func(_) => {
                            d.fidx.insert(i.name[1..].parse().map_err(|_| "import name")?, nf);
                            nf += 1;
                        }
                        wasmparser::TypeRef::Global(_) => {
                            d.gidx.insert(i.name[1..].parse().map_err(|_| "import name")?, ng);
                            ng += 1;
                        }
                        _ => {}
                    }
                }
            }
            wasmparser::Payload::GlobalSection(r) => {
                for g in r {
                    let g = g.map_err(|e| e.to_string())?;
                    let mut rd = g.init_expr.get_operators_reader();
                    match rd.read().map_err(|e| e.to_string())? {
                        Operator::I32Const { value } => {
                            d.gidx.insert((value - GMARK) as u32, ng);
                        }
                        Operator::GlobalGet { global_index } => d.getters.push((ng, global_index)),
                        _ => return Err("global initialiser".into()),
                    }
                    ng += 1;
                }
            }
            wasmparser::Payload::CodeSectionEntry(b) => {
                let mut v = vec![];
                for op in b.get_operators_reader().map_err(|e| e.to_string())? {
                    v.push(tok_of(&op.map_err(|e| e.to_string())?));
                }
                // the marker is the first constant >= FMARK (an entry probe may precede it)
                let uid = v.iter().find_map(|t| t.strip_prefix("i32.const:").and_then(|n| n.parse::<i32>().ok()).filter(|n| *n >= FMARK && *n < GMARK)).ok_or("function without marker")?;
                d.fidx.insert((uid - FMARK) as u32, nf + k);
                d.code.insert(nf + k, v);
                k += 1;
            }
            _ => {}
        }
    }
    Ok(d)
}

fn contains_run(hay: &[String], needle: &[&str]) -> bool {
    if needle.is_empty() {
        return true;
    }
    hay.windows(needle.len()).any(|w| w.iter().zip(needle).all(|(a, b)| a == b))
}

pub fn run(ctx: &mut Ctx) {
    for case in 0..ctx.n {
        if !ctx.wants(case) {
            continue;
        }
        let mut rng = Rng::new(ctx.seed, "sidefx", case);
        let special: u8 = match rng.below(8) {
            0 | 1 => 1,
            2 => 2,
            _ => 0,
        };
        let base = gen_base(&mut rng);
        let (acts, handles) = gen_history(&mut rng, &base, special);
        let bytes = match wat::parse_str(&base.wat) {
            Ok(b) => b,
            Err(e) => panic!("sidefx: generated base does not assemble: {e}\n{}", base.wat),
        };
        // --- implementation: the same history on two parses
        let mut hs1 = handles.clone();
        let mut hs2 = handles.clone();
        let r = guarded(|| {
            let mut m1 = Module::parse(&bytes, true).expect("base parses");
            let plan = apply(&mut m1, &acts, &mut hs1);
            let out = m1.encode();
            let mut m2 = Module::parse(&bytes, true).expect("base parses");
            let plan2 = apply(&mut m2, &acts, &mut hs2);
            assert_eq!(plan, plan2, "the same history reported different ids on the second parse");
            let fx = m2.pull_side_effects();
            (plan, out, canon(&fx))
        });
        let base_line = format!(
            "F:{}:{},G:{}:{},M:{}:{},T:{},X:{},D:{}",
            base.nif,
            base.nlf,
            base.nig,
            base.nlg,
            base.nim,
            base.nlm,
            base.types.iter().map(|t| t.to_string()).collect::<Vec<_>>().join("."),
            // base exports: function index of each
            {
                let mut v = vec![];
                for l in base.wat.lines() {
                    if let Some(rest) = l.trim().strip_prefix("(export ") {
                        let n: String = rest.chars().rev().skip(2).take_while(|c| c.is_ascii_digit()).collect::<String>().chars().rev().collect();
                        v.push(n);
                    }
                }
                if v.is_empty() {
                    "-".to_string()
                } else {
                    v.join(".")
                }
            },
            base.ndata
        );
        for a in &acts {
            ctx.count(match a {
                Act::Type { .. } => "op=add_type",
                Act::ImpF { .. } => "op=add_import_func",
                Act::ImpG { .. } => "op=add_imported_global",
                Act::ImpM { .. } => "op=add_import_memory",
                Act::Func { .. } => "op=add_func",
                Act::Glob { .. } => "op=add_global",
                Act::Mem { .. } => "op=add_local_memory",
                Act::ExpF { .. } => "op=add_export",
                Act::Data { .. } => "op=add_data",
                Act::DelF { .. } => "op=delete_func",
                Act::DelG { .. } => "op=delete_global",
                Act::DelX { .. } => "op=delete_export",
                Act::Probe { mode, .. } => ["op=probe_before", "op=probe_after", "op=probe_alternate", "op=probe_semantic_after", "op=probe_block_entry", "op=probe_block_exit", "op=probe_block_alt"][*mode],
                Act::FProbe { exit, .. } => {
                    if *exit {
                        "op=probe_func_exit"
                    } else {
                        "op=probe_func_entry"
                    }
                }
            });
        }
        for a in &acts {
            if let Act::Probe { tag: Some(_), tag_first: true, .. } | Act::FProbe { tag: Some(_), tag_first: true, .. } = a {
                ctx.count("probe-tagged-before-first-instruction");
            }
        }
        ctx.count(["case=plain-modes", "case=special-modes-on-separate-functions", "case=special-and-plain-modes-mixed"][special as usize]);
        ctx.add("history-length", acts.len() as u64);
        match r {
            Err(msg) => {
                // the plan cannot be printed without the ids; a panic of this family is a finding of its own
                ctx.case_line(&format!("sidefx {case} special={} base={base_line} ops=-", special));
                ctx.impl_line(&format!("sidefx {case} panic"));
                ctx.count("result=panic");
                ctx.fail("sidefx", case, "C23", "panic-while-adding-or-pulling", &msg);
            }
            Ok((plan, out, recs)) => {
                ctx.case_line(&format!("sidefx {case} special={} base={base_line} ops={}", special, if plan.is_empty() { "-".to_string() } else { plan.join(";") }));
                ctx.hash_line("sidefx", case, &out);
                // records of a function with special probes: only those with a non-empty tag are compared with the model
                let special_out: Vec<u32> = vec![];
                let _ = special_out;
                let mut groups: BTreeMap<&str, Vec<String>> = BTreeMap::new();
                // the model identifies an export by its position in the export vector (`x<pos>`); an added export may carry the name
                // of a deleted one, so the name in the record is translated to the position of the latest export added under it
                let mut added_names: Vec<String> = vec![];
                for a in &acts {
                    if let Act::ExpF { name, .. } = a {
                        added_names.push(name.clone());
                    }
                }
                for r in &recs {
                    if r.kind == "probe" && (special == 2 || (special == 1 && r.tag.is_empty())) {
                        continue;
                    }
                    let text = if r.kind == "export" {
                        match added_names.iter().rposition(|n| *n == r.key) {
                            Some(k) => format!("x{}{}", base.nexp + k, &r.text[r.key.len()..]),
                            None => r.text.clone(),
                        }
                    } else {
                        r.text.clone()
                    };
                    groups.entry(r.kind).or_default().push(format!("{}~{}", text, hex(&r.tag)));
                }
                let fx: Vec<String> = groups.iter().map(|(k, v)| format!("{k}[{}]", v.join(";"))).collect();
                ctx.impl_line(&format!("sidefx {case} fx={}", if fx.is_empty() { "-".to_string() } else { fx.join("|") }));
                ctx.add("records", recs.len() as u64);
                for r in &recs {
                    ctx.count(&format!("record={}", r.kind));
                }
                judge(ctx, case, &base, &acts, &hs1, &out, &recs, special != 0);
            }
        }
    }
}

/// the oracle: the harness's own log against the records
fn judge(ctx: &mut Ctx, case: u64, base: &Base, acts: &[Act], hs: &[Handle], out: &[u8], recs: &[Rec], special: bool) {
    let d = match decode(out) {
        Ok(d) => d,
        Err(e) => {
            ctx.fail("sidefx", case, "C23", "encoded-module-unreadable", &e);
            return;
        }
    };
    let mut fails: Vec<(String, String)> = vec![];
    for r in recs.iter().filter(|r| r.kind == "func" && r.text.contains(":LOCALS!")) {
        fails.push(("func-record-wrong-locals".to_string(), r.text.clone()));
    }
    // ---- expected records of the non-probe kinds: (kind, key, tag)
    let mut want: Vec<(&str, String, Vec<u8>)> = vec![];
    let mut sigs: Vec<usize> = base.types.clone();
    let mut add_sig = |sigs: &mut Vec<usize>, s: usize, tag: Option<Vec<u8>>, want: &mut Vec<(&str, String, Vec<u8>)>| {
        if !sigs.contains(&s) {
            sigs.push(s);
            if let Some(t) = tag {
                want.push(("type", sig_str(&dts(SIGS[s].0), &dts(SIGS[s].1)), t));
            }
        }
    };
    let dead_uid = |uid: u32| hs.iter().any(|h| h.uid == uid && h.dead);
    let mut exp_names: Vec<(String, Option<Vec<u8>>)> = (0..base.nexp).map(|_| (String::new(), None)).collect();
    for a in acts {
        match a {
            Act::Type { sig, tag } => add_sig(&mut sigs, *sig, tag.carried(), &mut want),
            Act::ImpF { uid, tag } => {
                if !dead_uid(*uid) {
                    want.push(("import", format!("f{uid}"), tag.carried().unwrap()));
                }
            }
            Act::ImpG { uid, tag } => {
                if !dead_uid(*uid) {
                    want.push(("import", format!("g{uid}"), tag.carried().unwrap()));
                }
            }
            Act::ImpM { uid, tag } => {
                want.push(("import", format!("m{uid}"), tag.carried().unwrap()));
            }
            Act::Func { uid, sig, tag, .. } => {
                // a function brings its type along (under the function's tag) when the module does not have it yet
                add_sig(&mut sigs, *sig, tag.carried(), &mut want);
                if !dead_uid(*uid) {
                    want.push(("func", format!("i32.const:{}", FMARK + *uid as i32), tag.carried().unwrap()));
                }
            }
            Act::Glob { uid, tag, get } => {
                if !dead_uid(*uid) {
                    let key = match get {
                        // the initialiser in the record is in the index space of the encoded module
                        Some((h, _)) => format!("global.get:{}", d.gidx.get(&hs[*h].uid).copied().map_or("?".to_string(), |x| x.to_string())),
                        None => format!("i32.const:{}", GMARK + *uid as i32),
                    };
                    want.push(("global", key, tag.carried().unwrap()));
                }
            }
            Act::Mem { uid, tag } => want.push(("memory", (*uid as u64 + 2).to_string(), tag.carried().unwrap())),
            Act::ExpF { name, tag, .. } => exp_names.push((name.clone(), tag.carried())),
            Act::Data { bytes, tag, .. } => {
                if let Some(t) = tag.carried() {
                    want.push(("data", hex(bytes), t));
                }
            }
            Act::DelX { pos } => exp_names[*pos].1 = None,
            _ => {}
        }
    }
    for (n, t) in exp_names {
        if let Some(t) = t {
            want.push(("export", n, t));
        }
    }
    for kind in ["type", "import", "export", "memory", "data", "global", "func", "local", "table", "element"] {
        let mut w: Vec<(String, Vec<u8>)> = want.iter().filter(|x| x.0 == kind).map(|x| (x.1.clone(), x.2.clone())).collect();
        let mut g: Vec<(String, Vec<u8>)> = recs.iter().filter(|r| r.kind == kind).map(|r| (r.key.clone(), r.tag.clone())).collect();
        w.sort();
        g.sort();
        if w != g {
            let missing: Vec<_> = w.iter().filter(|x| !g.contains(x)).collect();
            let extra: Vec<_> = g.iter().filter(|x| !w.contains(x)).collect();
            let sig = if !missing.is_empty() && extra.is_empty() {
                format!("{kind}-record-missing")
            } else if missing.is_empty() {
                format!("{kind}-record-not-an-addition")
            } else if missing.iter().any(|m| extra.iter().any(|e| e.0 == m.0)) {
                format!("{kind}-record-wrong-tag")
            } else {
                format!("{kind}-record-wrong-content")
            };
            fails.push((sig, format!("want {w:?} got {g:?}")));
        }
    }
    // ---- probes: one list per (function, location, mode); a later injection into the same list extends body and tag
    let mut lists: Vec<(String, usize, Vec<String>, Option<Vec<u8>>, bool)> = vec![]; // key, function handle, body tokens, tag, special mode
    let tok = |refs: &[RefTok]| -> Vec<String> {
        let mut v = vec![];
        for r in refs {
            match r {
                RefTok::Const(n) => {
                    v.push(format!("i32.const:{}", PMARK + *n as i32));
                    v.push("drop".into());
                }
                RefTok::Call(h, _) => v.push(format!("call:{}", d.fidx.get(&hs[*h].uid).copied().map_or("?".to_string(), |x| x.to_string()))),
                RefTok::GGet(h, _) => {
                    v.push(format!("global.get:{}", d.gidx.get(&hs[*h].uid).copied().map_or("?".to_string(), |x| x.to_string())));
                    v.push("drop".into());
                }
            }
        }
        v
    };
    for a in acts {
        let (key, h, refs, tag, sp) = match a {
            Act::Probe { h, idx, mode, tag, refs, .. } => (format!("L:{idx}:{}", MODES[*mode].0), *h, refs, tag, *mode >= 3),
            Act::FProbe { h, exit, tag, refs, .. } => (format!("F:{}", if *exit { "exit" } else { "entry" }), *h, refs, tag, false),
            _ => continue,
        };
        match lists.iter_mut().find(|l| l.0 == key && l.1 == h) {
            Some(l) => {
                l.2.extend(tok(refs));
                if let Some(t) = tag {
                    l.3.get_or_insert_with(Vec::new).extend(t.iter().copied());
                }
            }
            None => lists.push((key, h, tok(refs), tag.clone(), sp)),
        }
    }
    let mut matched = vec![false; recs.len()];
    for (key, h, body, tag, sp) in &lists {
        let fid = d.fidx.get(&hs[*h].uid).copied().unwrap_or(u32::MAX);
        let Some(tag) = tag else {
            // an untagged probe: nothing is demanded (the library reports it under an empty tag)
            for (i, r) in recs.iter().enumerate() {
                if r.kind == "probe" && r.fid == fid && &r.key == key && r.tag.is_empty() && !matched[i] {
                    matched[i] = true;
                    break;
                }
            }
            continue;
        };
        let what = if *sp {
            key.split(':').nth(2).unwrap_or("").replace('_', "-")
        } else if key.starts_with("F:") {
            format!("func-{}", &key[2..])
        } else {
            key.split(':').nth(2).unwrap_or("").to_string()
        };
        let hits: Vec<usize> = (0..recs.len()).filter(|i| recs[*i].kind == "probe" && &recs[*i].tag == tag).collect();
        if hits.is_empty() {
            fails.push((format!("{what}-probe-tag-lost"), format!("no record carries the tag {} of the probe {key} on function {fid}", hex(tag))));
            continue;
        }
        if hits.len() > 1 {
            fails.push((format!("{what}-probe-reported-twice"), format!("{} records carry the tag {}", hits.len(), hex(tag))));
        }
        let r = &recs[hits[0]];
        matched[hits[0]] = true;
        let want_body = body.join(",");
        if r.fid != fid || (!*sp && &r.key != key) {
            fails.push((format!("{what}-probe-wrong-target"), format!("record {} for the probe {key} on function {fid}", r.text)));
        } else if r.body.as_deref() != Some(want_body.as_str()) {
            let sig = if r.body.as_deref().is_some_and(|b| b.contains(&want_body)) { format!("{what}-probe-body-has-foreign-code") } else { format!("{what}-probe-body-not-in-output-index-space") };
            fails.push((sig, format!("record body {:?}, probe body in the encoded module's indices {want_body}", r.body)));
        }
    }
    for (i, r) in recs.iter().enumerate() {
        if r.kind != "probe" {
            continue;
        }
        // every reported body is code of the encoded module
        if let Some(b) = &r.body {
            let needle: Vec<&str> = b.split(',').collect();
            if !d.code.get(&r.fid).is_some_and(|c| contains_run(c, &needle)) {
                fails.push(("probe-body-not-in-encoded-function".into(), format!("record {} is not a run of function {} of the encoded module", r.text, r.fid)));
            }
        }
        if !matched[i] && !r.tag.is_empty() {
            fails.push(("probe-record-not-a-probe".into(), format!("record {} matches no probe of the history", r.text)));
        }
        if !matched[i] && r.tag.is_empty() && !special {
            fails.push(("probe-record-not-a-probe".into(), format!("record {} (empty tag) matches no probe of the history", r.text)));
        }
    }
    if fails.is_empty() {
        ctx.ok("sidefx", case);
    } else {
        let mut seen = vec![];
        for (sig, detail) in fails {
            if !seen.contains(&sig) {
                seen.push(sig.clone());
                ctx.fail("sidefx", case, "C23", &sig, &detail);
            }
        }
    }
}
