//! family `roundtrip` (C01, C02): every `.wat` / `.wasm` module under /repo/tests/test_inputs that validates, plus generated
//! modules composed from a library of feature fragments (MVP, multi-value, reference types, bulk memory, SIMD, tail calls,
//! typed function references, GC, exceptions old and new, threads, memory64, multi-memory, names of every kind, custom
//! sections). Oracle: the input validates => `Module::parse` succeeds, the encoded module validates (C01), and prints
//! (wasmprinter) to the same text with the same names and the same custom sections in the same order (C02).
//! Correspondence: the value types, constant-expression operators and recursion groups that wirm converts itself are
//! listed from the input (case line) and from the decoded output (implementation side); the Lean tables regenerated from
//! the source predict the latter from the former.
use crate::ctx::{guarded, Ctx};
use crate::rng::Rng;
use wirm::Module;

fn vt_code(v: wasmparser::ValType) -> String {
    match v {
        wasmparser::ValType::I32 => "i32".into(),
        wasmparser::ValType::I64 => "i64".into(),
        wasmparser::ValType::F32 => "f32".into(),
        wasmparser::ValType::F64 => "f64".into(),
        wasmparser::ValType::V128 => "v128".into(),
        wasmparser::ValType::Ref(r) => match r.heap_type() {
            wasmparser::HeapType::Abstract { shared, ty } => format!("ref.{}.{}.{:?}", r.is_nullable() as u8, shared as u8, ty),
            wasmparser::HeapType::Concrete(wasmparser::UnpackedIndex::Module(i)) => format!("refm.{}.{i}", r.is_nullable() as u8),
            wasmparser::HeapType::Concrete(wasmparser::UnpackedIndex::RecGroup(i)) => format!("refr.{}.{i}", r.is_nullable() as u8),
            wasmparser::HeapType::Concrete(_) => "ref?".into(),
        },
    }
}
fn st_code(s: wasmparser::StorageType) -> Option<String> {
    match s {
        wasmparser::StorageType::Val(v) => Some(vt_code(v)),
        _ => None, // packed types are not value types
    }
}

/// what wirm converts itself: value types (type section, locals, globals), constant-expression operators (globals, data
/// offsets), recursion groups
pub struct Converted {
    pub vts: Vec<String>,
    pub consts: Vec<String>,
    pub groups: Vec<String>,
}

pub fn converted(wasm: &[u8]) -> Result<Converted, String> {
    use wasmparser::{Parser, Payload};
    let e2s = |e: wasmparser::BinaryReaderError| e.to_string();
    let mut c = Converted { vts: vec![], consts: vec![], groups: vec![] };
    let const_ops = |e: &wasmparser::ConstExpr, out: &mut Vec<String>| {
        for op in e.get_operators_reader() {
            if let Ok(op) = op {
                let d = format!("{op:?}");
                let n = d.split([' ', '{', '(']).next().unwrap().to_string();
                if n != "End" {
                    out.push(n);
                }
            }
        }
    };
    for p in Parser::new(0).parse_all(wasm) {
        match p.map_err(e2s)? {
            Payload::TypeSection(r) => {
                for g in r {
                    let g = g.map_err(e2s)?;
                    let ex = g.is_explicit_rec_group();
                    let mut n = 0;
                    for st in g.types() {
                        n += 1;
                        match &st.composite_type.inner {
                            wasmparser::CompositeInnerType::Func(f) => {
                                c.vts.extend(f.params().iter().map(|v| vt_code(*v)));
                                c.vts.extend(f.results().iter().map(|v| vt_code(*v)));
                            }
                            wasmparser::CompositeInnerType::Array(a) => c.vts.extend(st_code(a.0.element_type)),
                            wasmparser::CompositeInnerType::Struct(s) => c.vts.extend(s.fields.iter().filter_map(|f| st_code(f.element_type))),
                            _ => {}
                        }
                    }
                    c.groups.push(format!("{n}{}", if ex { "e" } else { "" }));
                }
            }
            Payload::GlobalSection(r) => {
                for g in r {
                    let g = g.map_err(e2s)?;
                    c.vts.push(vt_code(g.ty.content_type));
                    const_ops(&g.init_expr, &mut c.consts);
                }
            }
            Payload::DataSection(r) => {
                for d in r {
                    if let wasmparser::DataKind::Active { offset_expr, .. } = d.map_err(e2s)?.kind {
                        const_ops(&offset_expr, &mut c.consts);
                    }
                }
            }
            Payload::CodeSectionEntry(b) => {
                for l in b.get_locals_reader().map_err(e2s)? {
                    let (_, t) = l.map_err(e2s)?;
                    c.vts.push(vt_code(t));
                }
            }
            _ => {}
        }
    }
    Ok(c)
}

fn custom_sections(wasm: &[u8]) -> Vec<(String, Vec<u8>)> {
    let mut v = vec![];
    for p in wasmparser::Parser::new(0).parse_all(wasm) {
        if let Ok(wasmparser::Payload::CustomSection(c)) = p {
            if c.name() != "name" {
                v.push((c.name().to_string(), c.data().to_vec()));
            }
        }
    }
    v
}

/// every name of the name section, as text lines (sorted inside each subsection by index: the layout may change)
fn names(wasm: &[u8]) -> Vec<String> {
    use wasmparser::Name;
    let mut out = vec![];
    for p in wasmparser::Parser::new(0).parse_all(wasm) {
        if let Ok(wasmparser::Payload::CustomSection(c)) = p {
            if let wasmparser::KnownCustom::Name(nr) = c.as_known() {
                for n in nr {
                    let Ok(n) = n else {
                        out.push("?unreadable-subsection".into());
                        continue;
                    };
                    let map = |k: &str, m: wasmparser::NameMap, out: &mut Vec<String>| {
                        for x in m {
                            if let Ok(x) = x {
                                out.push(format!("{k} {} {}", x.index, x.name));
                            }
                        }
                    };
                    let imap = |k: &str, m: wasmparser::IndirectNameMap, out: &mut Vec<String>| {
                        for f in m {
                            if let Ok(f) = f {
                                for x in f.names {
                                    if let Ok(x) = x {
                                        out.push(format!("{k} {}.{} {}", f.index, x.index, x.name));
                                    }
                                }
                            }
                        }
                    };
                    match n {
                        Name::Module { name, .. } => out.push(format!("module {name}")),
                        Name::Function(m) => map("func", m, &mut out),
                        Name::Local(m) => imap("local", m, &mut out),
                        Name::Label(m) => imap("label", m, &mut out),
                        Name::Type(m) => map("type", m, &mut out),
                        Name::Table(m) => map("table", m, &mut out),
                        Name::Memory(m) => map("memory", m, &mut out),
                        Name::Global(m) => map("global", m, &mut out),
                        Name::Element(m) => map("elem", m, &mut out),
                        Name::Data(m) => map("data", m, &mut out),
                        Name::Field(m) => imap("field", m, &mut out),
                        Name::Tag(m) => map("tag", m, &mut out),
                        Name::Unknown { .. } => {}
                    }
                }
            }
        }
    }
    out.sort();
    out
}

fn print(wasm: &[u8]) -> Result<String, String> {
    let mut out = String::new();
    let mut cfg = wasmprinter::Config::new();
    cfg.print_offsets(false);
    cfg.print(wasm, &mut wasmprinter::PrintFmtWrite(&mut out)).map_err(|e| e.to_string())?;
    // custom sections are compared separately (their position is "section framing")
    Ok(out.lines().filter(|l| !l.trim_start().starts_with("(@custom") && !l.trim_start().starts_with("(@producers")).collect::<Vec<_>>().join("\n"))
}

// ---------------------------------------------------------------- fragment library
struct Frag {
    feature: &'static str,
    types: &'static str,
    imports: &'static str,
    body: &'static str, // everything else (funcs, globals, tables, elems, data, tags, exports)
    multi_memory: bool,
}

const fn f(feature: &'static str, types: &'static str, imports: &'static str, body: &'static str) -> Frag {
    Frag { feature, types, imports, body, multi_memory: false }
}

/// `#` is replaced by a number unique to the instance of the fragment, so a fragment can occur twice
const FRAGS: &[Frag] = &[
    f("mvp", "(type $t#a (func (param i32 i64 f32 f64) (result i32)))", "(import \"env\" \"f#\" (func $imp# (type $t#a)))",
      "(func $f#a (type $t#a) (local $l0 i32) (local $l1 i64) (local f32 f64)
         local.get 0 i32.const 1 i32.add local.tee $l0 drop
         local.get 1 i64.const -1 i64.xor local.set $l1
         local.get 2 f32.const nan:0x200001 f32.add drop
         local.get 3 f64.const -inf f64.mul drop
         (block $out (result i32) (loop $again (result i32) (br_if $again (i32.eqz (local.get $l0))) (br_table $out $out (local.get 0) (local.get $l0)))))
       (func $f#b (param i32) (result i32) (if (result i32) (local.get 0) (then (call $f#a (i32.const 1) (i64.const 2) (f32.const 3) (f64.const 4))) (else (i32.const 0))))
       (export \"f#b\" (func $f#b))"),
    f("mvp-globals", "", "(import \"env\" \"g#\" (global $ig# i32)) (import \"env\" \"gm#\" (global $igm# (mut i64)))",
      "(global $g#a i32 (i32.const -2147483648)) (global $g#b (mut i64) (i64.const 9223372036854775807)) (global $g#c f32 (f32.const nan:0x7fffff))
       (global $g#d f64 (f64.const -0)) (global $g#e i32 (global.get $ig#))
       (func $gf# (result i32) (global.set $g#b (i64.const 1)) (global.set $igm# (global.get $g#b)) (global.get $g#e))
       (export \"g#a\" (global $g#a))"),
    f("mvp-memory", "", "",
      "(func $m#a (param i32) (result i64)
         (i32.store8 offset=3 (local.get 0) (i32.const 1)) (i32.store16 offset=2 align=1 (local.get 0) (i32.const 2)) (i64.store32 (local.get 0) (i64.const 3))
         (f32.store (local.get 0) (f32.const 1.5)) (f64.store align=4 (local.get 0) (f64.const 2.5))
         (drop (i32.load8_s (local.get 0))) (drop (i32.load16_u offset=65535 (local.get 0))) (drop (memory.grow (i32.const 0)))
         (i64.load32_u (memory.size)))
       (data (i32.const 16) \"hello\\00\\ff\") (data $pd# \"passive\")"),
    f("mvp-table", "(type $ti# (func (param i32) (result i32)))", "",
      "(table $tb# 4 8 funcref) (func $tf# (type $ti#) local.get 0)
       (elem $e#a (table $tb#) (i32.const 1) func $tf# $tf#) (elem $e#b func $tf#) (elem $e#c declare func $tf#)
       (func $tc# (result i32) (call_indirect $tb# (type $ti#) (i32.const 7) (i32.const 1)))"),
    f("multi-value", "(type $mv# (func (param i32 i32) (result i32 i32)))", "",
      "(func $mv#f (type $mv#) local.get 0 local.get 1 block (type $mv#) br 0 end)
       (func $mv#g (result i32 i64 f32) i32.const 1 i64.const 2 f32.const 3)"),
    f("reference-types", "", "(import \"env\" \"t#\" (table $it# 1 externref))",
      "(table $rt# 2 funcref) (func $rf#) (elem declare func $rf#)
       (func $r#a (param externref) (result i32) (table.set $it# (i32.const 0) (local.get 0)) (ref.is_null (table.get $it# (i32.const 0))))
       (func $r#b (result funcref) (drop (table.grow $rt# (ref.null func) (i32.const 1))) (table.fill $rt# (i32.const 0) (ref.func $rf#) (i32.const 1)) (drop (table.size $rt#)) (ref.func $rf#))
       (global $rg# funcref (ref.func $rf#)) (global $rn# externref (ref.null extern))"),
    f("bulk-memory", "", "",
      "(data $bd# \"abcdef\") (func $bf#) (elem $be# func $bf#) (table $bt# 4 funcref)
       (func $b#a (memory.init $bd# (i32.const 0) (i32.const 0) (i32.const 3)) (data.drop $bd#) (memory.copy (i32.const 8) (i32.const 0) (i32.const 4)) (memory.fill (i32.const 0) (i32.const 255) (i32.const 2))
         (table.init $bt# $be# (i32.const 0) (i32.const 0) (i32.const 1)) (elem.drop $be#) (table.copy $bt# $bt# (i32.const 1) (i32.const 0) (i32.const 1)))"),
    f("simd", "", "",
      "(func $s#a (param v128) (result v128)
         (v128.store (i32.const 0) (local.get 0)) (v128.store32_lane 1 (i32.const 0) (local.get 0))
         (i8x16.shuffle 0 1 2 3 4 5 6 7 8 9 10 11 12 13 14 31 (local.get 0) (v128.const i32x4 0xffffffff 0 1 0x80000000))
         (i32x4.add (v128.load32_splat (i32.const 4))) (f32x4.replace_lane 2 (f32.const nan)) (v128.bitselect (v128.load64_zero offset=8 (i32.const 0)) (v128.const i64x2 -1 1)))
       (global $sg# v128 (v128.const i8x16 1 2 3 4 5 6 7 8 9 10 11 12 13 14 15 255))
       (global $sh# v128 (v128.const i64x2 0x8000000000000001 2)) (global $si# (mut v128) (v128.const i32x4 0 0x80000000 0x7fffffff 0))
       (global $sj# v128 (v128.const i64x2 -2 0x7fffffffffffffff))"),
    f("tail-call", "(type $tc#t (func (param i32) (result i32)))", "",
      "(table $tct# 1 funcref) (func $tc#a (type $tc#t) (return_call $tc#b (local.get 0))) (func $tc#b (type $tc#t) (return_call_indirect $tct# (type $tc#t) (local.get 0) (i32.const 0)))"),
    f("function-references", "(type $fr#t (func (param i32) (result i32)))", "",
      "(func $fr#a (type $fr#t) local.get 0) (elem declare func $fr#a)
       (func $fr#b (param (ref null $fr#t)) (result i32) (call_ref $fr#t (i32.const 1) (ref.as_non_null (local.get 0))))
       (func $fr#c (result i32) (local (ref null $fr#t)) (local.set 0 (ref.func $fr#a)) (block $n (drop (br_on_null $n (local.get 0)))) (return_call_ref $fr#t (i32.const 2) (ref.func $fr#a)))
       (global $frg# (ref $fr#t) (ref.func $fr#a))"),
    f("gc", "(rec (type $gs# (sub (struct (field $x i32) (field $y (mut i64)) (field (mut (ref null $ga#))) (field i8)))) (type $ga# (array (mut i16))))
            (type $gsub# (sub final $gs# (struct (field $x i32) (field $y (mut i64)) (field (mut (ref null $ga#))) (field i8) (field f32))))
            (type $gs#dup (struct (field i32)))  (type $gs#dup2 (struct (field i32)))", "",
      "(func $gc#a (param (ref null $gs#)) (result i32) (local anyref) (local (ref null $ga#)) (local i31ref) (local eqref) (local structref) (local arrayref) (local nullref)
         (struct.set $gs# $y (local.get 0) (i64.const 5)) (local.set 2 (array.new_default $ga# (i32.const 3))) (array.set $ga# (local.get 2) (i32.const 0) (i32.const 65535))
         (local.set 3 (ref.i31 (i32.const -1))) (drop (i31.get_s (local.get 3))) (drop (array.len (local.get 2))) (drop (array.get_u $ga# (local.get 2) (i32.const 0)))
         (drop (ref.test (ref $gsub#) (local.get 0))) (drop (ref.cast (ref null $gs#) (local.get 0))) (drop (ref.eq (local.get 0) (local.get 3)))
         (drop (block $l (result (ref null $gsub#)) (br_on_cast $l (ref null $gs#) (ref null $gsub#) (local.get 0)) (drop) (ref.null $gsub#)))
         (local.set 1 (any.convert_extern (extern.convert_any (local.get 0)))) (struct.get $gs# $x (local.get 0)))
       (global $gcg# (ref $gs#) (struct.new $gs# (i32.const 1) (i64.const 2) (ref.null $ga#) (i32.const 3)))
       (global $gca# (ref $ga#) (array.new_fixed $ga# 2 (i32.const 1) (i32.const 2))) (global $gci# (ref i31) (ref.i31 (i32.const 7)))"),
    f("exceptions", "(type $ex#t (func (param i32)))", "(import \"env\" \"tag#\" (tag $itag# (type $ex#t)))",
      "(tag $tag# (param i32 i64)) (export \"tag#\" (tag $tag#))
       (func $ex#a (param i32) (result i32) (local exnref)
         (block $all
           (block $h (result i32 exnref)
             (block $h2 (result i32)
               (try_table (result i32) (catch $itag# $h2) (catch_ref $itag# $h) (catch_all $all) (throw $itag# (local.get 0)))
               (return))
             (return))
           (local.set 1) (drop) (throw_ref (local.get 1)))
         (i32.const 0))"),
    f("legacy-exceptions", "", "",
      "(tag $lt# (param i32))
       (func $lx#a (result i32) try (result i32) i32.const 1 throw $lt# catch $lt# catch_all rethrow 0 end)
       (func $lx#b try try i32.const 2 throw $lt# delegate 0 catch_all end)"),
    f("threads", "", "(import \"env\" \"sm#\" (memory $sm# 1 2 shared))",
      "(func $th#a (param i32) (result i64)
         (i32.atomic.store (local.get 0) (i32.const 1)) (drop (i32.atomic.rmw.add (local.get 0) (i32.const 1))) (drop (i32.atomic.rmw8.cmpxchg_u (local.get 0) (i32.const 1) (i32.const 2)))
         (drop (memory.atomic.notify (local.get 0) (i32.const 1))) (drop (memory.atomic.wait32 (local.get 0) (i32.const 0) (i64.const -1))) (atomic.fence)
         (i64.atomic.rmw32.xchg_u offset=4 (local.get 0) (i64.const 7)))"),
    Frag { feature: "multi-memory", types: "", imports: "", multi_memory: true,
      body: "(memory $mm# 1) (func $mm#a (result i32) (i32.store $mm# (i32.const 0) (i32.const 5)) (memory.copy $mm# 0 (i32.const 0) (i32.const 0) (i32.const 1)) (drop (memory.grow $mm# (i32.const 1))) (i32.load $mm# offset=4 (memory.size $mm#)))
             (data (memory $mm#) (i32.const 8) \"second\")" },
    Frag { feature: "memory64", types: "", imports: "", multi_memory: true,
      body: "(memory $m64# i64 1 3) (func $m64#a (result i64) (i64.store $m64# offset=4294967296 (i64.const 0) (i64.const 1)) (drop (memory.grow $m64# (i64.const 0))) (memory.fill $m64# (i64.const 0) (i32.const 1) (i64.const 2)) (memory.size $m64#))
             (data (memory $m64#) (i64.const 16) \"sixty-four\")" },
    f("active-data-ops", "(type $ada# (array (mut i8)))", "",
      "(data $ad# (i32.const 32) \"active\")
       (func $ad#f (result (ref $ada#)) (memory.init $ad# (i32.const 0) (i32.const 0) (i32.const 0)) (data.drop $ad#) (array.new_data $ada# $ad# (i32.const 0) (i32.const 0)))"),
    f("typed-element-segments", "(type $te#t (func))", "",
      "(table $te#n 2 (ref null $te#t)) (func $te#f (type $te#t)) (func $te#g (type $te#t))
       (elem $te#a (table $te#n) (i32.const 0) (ref null $te#t) (ref.func $te#f) (ref.func $te#g))
       (elem $te#p (ref $te#t) (ref.func $te#g))
       (func $te#i (table.init $te#n $te#p (i32.const 0) (i32.const 0) (i32.const 1)))"),
    f("element-expressions", "(type $xe#t (func))", "",
      "(table $xt# 6 funcref) (table $xx# 2 externref) (func $xf#a (type $xe#t)) (func $xf#b (type $xe#t))
       (elem $x#a (table $xt#) (i32.const 0) funcref (ref.func $xf#a) (ref.null func))
       (elem $x#b funcref (ref.func $xf#b) (ref.func $xf#a) (ref.null func))
       (elem $x#c (table $xx#) (i32.const 0) externref (ref.null extern))
       (elem $x#d (table $xt#) (offset (i32.const 2)) func $xf#a $xf#b)
       (elem $x#e declare funcref (ref.func $xf#b))
       (elem $x#f (ref null $xe#t) (ref.func $xf#a) (ref.null $xe#t) (ref.func $xf#b))
       (elem $x#g externref)
       (table $xi# 2 (ref null $xe#t) (ref.func $xf#b))
       (func $x#use (table.init $xt# $x#b (i32.const 0) (i32.const 0) (i32.const 3)) (elem.drop $x#f))"),
    f("start", "", "", "(func $st#) (start $st#)"),
    f("names", "(type $nm#t (func (param $named_param i32) (result i32)))", "",
      "(func $nm#f (type $nm#t) (local $named_local i64) (block $named_label (loop $inner_label (br $named_label))) (local.get 0))
       (table $nm#tab 1 funcref) (global $nm#g i32 (i32.const 0)) (elem $nm#e func) (data $nm#d \"\") (tag $nm#tag)"),
    f("custom", "", "", "(@custom \"zoo#\" \"\\00payload\\ff\") (@custom \"zoo#\" (after code) \"second with the same name\") (@custom \"after-types#\" (after type) \"x\")"),
];

pub fn gen_module(r: &mut Rng) -> (String, bool, Vec<&'static str>) {
    let n = r.range(1, 6);
    let mut types = String::new();
    let mut imports = String::new();
    let mut body = String::new();
    let mut feats = vec![];
    let mut mm = false;
    let mut start_used = false;
    for k in 0..n {
        let fr = &FRAGS[r.below(FRAGS.len())];
        if fr.feature == "start" {
            if start_used {
                continue;
            }
            start_used = true;
        }
        let id = format!("{k}");
        feats.push(fr.feature);
        mm |= fr.multi_memory;
        types.push_str(&fr.types.replace('#', &id));
        types.push('\n');
        imports.push_str(&fr.imports.replace('#', &id));
        imports.push('\n');
        body.push_str(&fr.body.replace('#', &id));
        body.push('\n');
    }
    // the default memory comes first among the defined memories (index 0 unless a memory is imported)
    let has_imported_mem = imports.contains("(memory");
    if has_imported_mem {
        mm = true;
    }
    let m = format!("(module $zoo\n{types}{imports}(memory $m0 1)\n{body})\n");
    (m, mm, feats)
}

/// the same module with every local declaration `(n, T)`, n >= 2, written as two neighbouring declarations `(a, T) (n - a, T)`:
/// a valid binary form that text-to-binary tools never emit (they merge runs)
fn split_local_runs(wasm: &[u8], r: &mut Rng) -> Option<Vec<u8>> {
    use wasm_encoder::reencode::Reencode;
    use wasmparser::{Parser, Payload};
    let mut rr = wasm_encoder::reencode::RoundtripReencoder;
    let mut code = wasm_encoder::CodeSection::new();
    let mut any = false;
    // number of parameters of each local function (to address the last declared local)
    let mut type_params: Vec<Option<u32>> = vec![];
    let mut func_types: Vec<u32> = vec![];
    for p in Parser::new(0).parse_all(wasm) {
        match p.ok()? {
            Payload::TypeSection(r) => {
                for g in r {
                    for st in g.ok()?.types() {
                        type_params.push(match &st.composite_type.inner {
                            wasmparser::CompositeInnerType::Func(f) => Some(f.params().len() as u32),
                            _ => None,
                        });
                    }
                }
            }
            Payload::FunctionSection(r) => {
                for t in r {
                    func_types.push(t.ok()?);
                }
            }
            _ => {}
        }
    }
    let mut k = 0usize;
    for p in Parser::new(0).parse_all(wasm) {
        if let Payload::CodeSectionEntry(b) = p.ok()? {
            let nparams = func_types.get(k).and_then(|t| type_params.get(*t as usize).copied().flatten());
            k += 1;
            let mut locals: Vec<(u32, wasm_encoder::ValType)> = vec![];
            let lr = b.get_locals_reader().ok()?;
            for l in lr {
                let (n, t) = l.ok()?;
                let t = rr.val_type(t).ok()?;
                if n >= 2 {
                    let a = 1 + r.below((n - 1) as usize) as u32;
                    locals.push((a, t));
                    locals.push((n - a, t));
                    any = true;
                } else {
                    locals.push((n, t));
                }
            }
            // and one function in two gets an unused extra run behind its last declaration, of the same type (count >= 2)
            let mut use_last: Option<u32> = None;
            if r.chance(1, 2) {
                let t = locals.last().map_or(wasm_encoder::ValType::I32, |l| l.1);
                if locals.is_empty() {
                    locals.push((1, t));
                }
                locals.push((2 + r.below(3) as u32, t));
                any = true;
                // the last of the added locals is read at the start of the body (when its type has a default value)
                let defaultable = !matches!(t, wasm_encoder::ValType::Ref(rt) if !rt.nullable);
                if let (true, Some(np)) = (defaultable, nparams) {
                    use_last = Some(np + locals.iter().map(|l| l.0).sum::<u32>() - 1);
                }
            }
            let mut f = wasm_encoder::Function::new(locals);
            if let Some(ix) = use_last {
                f.instruction(&wasm_encoder::Instruction::LocalGet(ix));
                f.instruction(&wasm_encoder::Instruction::Drop);
            }
            let ops = b.get_operators_reader().ok()?;
            let mut br = ops.get_binary_reader();
            let rest = br.read_bytes(br.bytes_remaining()).ok()?;
            f.raw(rest.iter().copied());
            code.function(&f);
        }
    }
    if !any {
        return None;
    }
    let mut m = wasm_encoder::Module::new();
    for p in Parser::new(0).parse_all(wasm) {
        let p = p.ok()?;
        if let Payload::CodeSectionEntry(_) = p {
            continue;
        }
        if let Some((id, range)) = p.as_section() {
            if id == 10 {
                m.section(&code);
            } else {
                m.section(&wasm_encoder::RawSection { id, data: &wasm[range] });
            }
        }
    }
    Some(m.finish())
}

/// the same module with a name section that also names the parameters of every imported function (local names of an import: valid, kept
/// by the crate, and never written by text-to-binary tools)
fn name_import_params(wasm: &[u8]) -> Option<Vec<u8>> {
    use wasm_encoder::{IndirectNameMap, NameMap, NameSection};
    use wasmparser::{Name, Parser, Payload, TypeRef};
    let mut type_params: Vec<Option<u32>> = vec![];
    let mut imported: Vec<u32> = vec![]; // type index of each imported function
    for p in Parser::new(0).parse_all(wasm) {
        match p.ok()? {
            Payload::TypeSection(r) => {
                for g in r {
                    for st in g.ok()?.types() {
                        type_params.push(match &st.composite_type.inner {
                            wasmparser::CompositeInnerType::Func(f) => Some(f.params().len() as u32),
                            _ => None,
                        });
                    }
                }
            }
            Payload::ImportSection(r) => {
                for i in r {
                    if let TypeRef::Func(t) = i.ok()?.ty {
                        imported.push(t);
                    }
                }
            }
            _ => {}
        }
    }
    let mut added = IndirectNameMap::new();
    let mut any = false;
    for (i, t) in imported.iter().enumerate() {
        let n = type_params.get(*t as usize).copied().flatten()?;
        if n == 0 {
            continue;
        }
        let mut m = NameMap::new();
        for k in 0..n {
            m.append(k, &format!("imp{i}_arg{k}"));
        }
        added.append(i as u32, &m);
        any = true;
    }
    if !any {
        return None;
    }
    let nimp = imported.len() as u32;
    let mut ns = NameSection::new();
    let mut wrote_locals = false;
    let copy = |m: wasmparser::NameMap| -> Option<NameMap> {
        let mut o = NameMap::new();
        for x in m {
            let x = x.ok()?;
            o.append(x.index, x.name);
        }
        Some(o)
    };
    let icopy = |m: wasmparser::IndirectNameMap, mut o: IndirectNameMap, skip_below: u32| -> Option<IndirectNameMap> {
        for f in m {
            let f = f.ok()?;
            if f.index < skip_below {
                continue;
            }
            let mut inner = NameMap::new();
            for x in f.names {
                let x = x.ok()?;
                inner.append(x.index, x.name);
            }
            o.append(f.index, &inner);
        }
        Some(o)
    };
    let mut had = false;
    for p in Parser::new(0).parse_all(wasm) {
        if let Payload::CustomSection(c) = p.ok()? {
            if let wasmparser::KnownCustom::Name(nr) = c.as_known() {
                had = true;
                let mut subs: Vec<Name> = vec![];
                for n in nr {
                    subs.push(n.ok()?);
                }
                let mut pending = Some(added.clone());
                for n in subs {
                    // the local-name subsection has id 2: it goes in front of the first subsection with a larger id
                    let after_locals = !matches!(n, Name::Module { .. } | Name::Function(_) | Name::Local(_));
                    if after_locals && !wrote_locals {
                        ns.locals(&pending.take()?);
                        wrote_locals = true;
                    }
                    match n {
                        Name::Module { name, .. } => {
                            ns.module(name);
                        }
                        Name::Function(m) => {
                            ns.functions(&copy(m)?);
                        }
                        Name::Local(m) => {
                            ns.locals(&icopy(m, pending.take()?, nimp)?);
                            wrote_locals = true;
                        }
                        Name::Label(m) => {
                            ns.labels(&icopy(m, IndirectNameMap::new(), 0)?);
                        }
                        Name::Type(m) => {
                            ns.types(&copy(m)?);
                        }
                        Name::Table(m) => {
                            ns.tables(&copy(m)?);
                        }
                        Name::Memory(m) => {
                            ns.memories(&copy(m)?);
                        }
                        Name::Global(m) => {
                            ns.globals(&copy(m)?);
                        }
                        Name::Element(m) => {
                            ns.elements(&copy(m)?);
                        }
                        Name::Data(m) => {
                            ns.data(&copy(m)?);
                        }
                        Name::Field(m) => {
                            ns.fields(&icopy(m, IndirectNameMap::new(), 0)?);
                        }
                        Name::Tag(m) => {
                            ns.tags(&copy(m)?);
                        }
                        Name::Unknown { .. } => return None,
                    }
                }
                if !wrote_locals {
                    ns.locals(&pending.take()?);
                    wrote_locals = true;
                }
            }
        }
    }
    if !had {
        ns.locals(&added);
    }
    let mut m = wasm_encoder::Module::new();
    let mut placed = false;
    for p in Parser::new(0).parse_all(wasm) {
        let p = p.ok()?;
        if let Payload::CustomSection(c) = &p {
            if c.name() == "name" {
                m.section(&ns);
                placed = true;
                continue;
            }
        }
        if let Payload::CodeSectionEntry(_) = p {
            continue;
        }
        if let Some((id, range)) = p.as_section() {
            m.section(&wasm_encoder::RawSection { id, data: &wasm[range] });
        }
    }
    if !placed {
        m.section(&ns);
    }
    Some(m.finish())
}

/// the thirteen numbers of `Orca.Sections.Shape`, counted on a binary with wasmparser
fn shape_of(wasm: &[u8]) -> Option<String> {
    use wasmparser::{Parser, Payload, TypeRef};
    let (mut groups, mut imports, mut funcs, mut tables, mut mems, mut tags, mut globals, mut exports) = (0u32, 0u32, 0u32, 0u32, 0u32, 0u32, 0u32, 0u32);
    let (mut start, mut elems, mut datacount, mut datas, mut customs) = (0u32, 0u32, 0u32, 0u32, 0u32);
    for p in Parser::new(0).parse_all(wasm) {
        match p.ok()? {
            Payload::TypeSection(r) => groups += r.count(),
            Payload::ImportSection(r) => {
                for i in r {
                    imports += 1;
                    match i.ok()?.ty {
                        TypeRef::Func(_) => funcs += 1,
                        TypeRef::Memory(_) => mems += 1,
                        TypeRef::Global(_) => globals += 1,
                        _ => {}
                    }
                }
            }
            Payload::FunctionSection(r) => funcs += r.count(),
            Payload::TableSection(r) => tables += r.count(),
            Payload::MemorySection(r) => mems += r.count(),
            Payload::TagSection(r) => tags += r.count(),
            Payload::GlobalSection(r) => globals += r.count(),
            Payload::ExportSection(r) => exports += r.count(),
            Payload::StartSection { .. } => start = 1,
            Payload::ElementSection(r) => elems += r.count(),
            Payload::DataCountSection { .. } => datacount = 1,
            Payload::DataSection(r) => datas += r.count(),
            Payload::CustomSection(c) => {
                if c.name() != "name" {
                    customs += 1
                }
            }
            _ => {}
        }
    }
    Some(format!("{groups}.{imports}.{funcs}.{tables}.{mems}.{tags}.{globals}.{exports}.{start}.{elems}.{datacount}.{datas}.{customs}"))
}

/// the section ids of a binary, in order (0 = custom)
fn section_ids(wasm: &[u8]) -> Vec<String> {
    let mut v = vec![];
    for p in wasmparser::Parser::new(0).parse_all(wasm) {
        if let Ok(p) = p {
            if let Some((id, _)) = p.as_section() {
                v.push(id.to_string());
            }
        }
    }
    v
}

fn fixtures() -> Vec<std::path::PathBuf> {
    let mut v = vec![];
    let mut stack = vec![std::path::PathBuf::from("/repo/tests/test_inputs")];
    while let Some(d) = stack.pop() {
        if let Ok(rd) = std::fs::read_dir(&d) {
            for e in rd.flatten() {
                let p = e.path();
                if p.is_dir() {
                    stack.push(p);
                } else if matches!(p.extension().and_then(|x| x.to_str()), Some("wat") | Some("wasm")) {
                    v.push(p);
                }
            }
        }
    }
    v.sort();
    v
}

/// development aid: validate every fragment on its own (ORCA_FRAGS=1)
fn check_fragments() {
    for fr in FRAGS {
        let m = format!("(module\n{}\n{}\n(memory $m0 1)\n{})\n", fr.types.replace('#', "0"), fr.imports.replace('#', "0"), fr.body.replace('#', "0"));
        match wat::parse_str(&m) {
            Err(e) => println!("FRAG {} TEXT: {e}", fr.feature),
            Ok(b) => match wasmparser::Validator::new_with_features(wasmparser::WasmFeatures::all()).validate_all(&b) {
                Err(e) => println!("FRAG {} INVALID: {e}", fr.feature),
                Ok(_) => println!("FRAG {} ok", fr.feature),
            },
        }
    }
}

/// small hand-written modules that run right behind the fixtures: shapes the fragment library does not reach (index spaces of
/// different sizes next to each other: a global index in a table initialiser that is larger than the number of functions, …)
const EXTRA: &[&str] = &[
    "(module (import \"e\" \"g0\" (global funcref)) (import \"e\" \"g1\" (global funcref)) (table 1 funcref (global.get 1)))",
    "(module (import \"e\" \"g0\" (global funcref)) (import \"e\" \"g1\" (global funcref)) (import \"e\" \"g2\" (global funcref)) (func) (table 2 funcref (global.get 2)) (table 1 funcref (global.get 0)))",
    "(module (import \"e\" \"g0\" (global i32)) (import \"e\" \"g1\" (global i32)) (import \"e\" \"g2\" (global i32)) (memory 1) (table 4 funcref) (func) (elem (offset (global.get 2)) func 0) (data (offset (global.get 1)) \"x\") (global i32 (global.get 2)))",
    // explicit recursion groups of one member and of none are not the same as plain types
    "(module (rec (type $t (func))) (type $u (func (param i32))) (rec) (rec (type $s (struct (field i32)))) (func (type $t)) (func (type $u) (param i32)))",
    "(module (type $a (func)) (rec (type $b (struct (field (ref null $b))))) (rec (type $c (func)) (type $d (array i8))) (rec (type $e (func (result i32)))) (func (type $e) (result i32) i32.const 0))",
    // every kind of name the text format gives: more named memories than globals, named table / tag / data / element / type / label
    "(module (type $t (func)) (table $tab 1 funcref) (memory $m0 1) (memory $m1 2) (global $g i32 (i32.const 0)) (tag $e) (data $d \"x\") (elem $el func) (func $f (type $t) (local $l i32) block $lbl end (drop (i32.load $m1 (i32.const 0)))))",
    "(module (memory $only 1) (func $f (drop (i32.load (i32.const 0)))))",
];

pub fn run(ctx: &mut Ctx) {
    let fam = "roundtrip";
    if std::env::var("ORCA_FRAGS").is_ok() {
        check_fragments();
        return;
    }
    let fx = fixtures();
    for case in 0..ctx.n {
        if !ctx.wants(case) {
            continue;
        }
        let mut r = Rng::new(ctx.seed, fam, case);
        let (bytes, mm, label): (Vec<u8>, bool, String) = if (case as usize) >= fx.len() && (case as usize) < fx.len() + EXTRA.len() {
            let k = case as usize - fx.len();
            match wat::parse_str(EXTRA[k]) {
                Ok(b) => (b, true, format!("extra:{k}")),
                Err(e) => panic!("roundtrip: extra module {k} does not parse: {e}"),
            }
        } else if (case as usize) < fx.len() {
            let p = &fx[case as usize];
            let b = if p.extension().and_then(|x| x.to_str()) == Some("wat") { wat::parse_file(p).ok() } else { std::fs::read(p).ok() };
            match b {
                Some(b) => (b, true, format!("fixture:{}", p.strip_prefix("/repo/tests/test_inputs").unwrap().display())),
                None => {
                    ctx.count("fixture-unparsable-text");
                    continue;
                }
            }
        } else {
            let (text, mm, feats) = gen_module(&mut r);
            for ft in &feats {
                ctx.count(&format!("feature={ft}"));
            }
            match wat::parse_str(&text) {
                Ok(b) => {
                    // one generated module in three gets its local declarations split into neighbouring runs of one type
                    let split = if r.chance(1, 3) { split_local_runs(&b, &mut r) } else { None };
                    let (b, mut label) = match split {
                        Some(b2) => {
                            ctx.count("local-declarations=split-runs");
                            (b2, format!("zoo:{}+split-local-runs", feats.join("+")))
                        }
                        None => (b, format!("zoo:{}", feats.join("+"))),
                    };
                    // one in three gets a name section that also names the parameters of its imported functions
                    let named = if r.chance(1, 3) { name_import_params(&b) } else { None };
                    match named {
                        Some(b3) => {
                            ctx.count("name-section=import-parameter-names");
                            label.push_str("+import-param-names");
                            (b3, mm, label)
                        }
                        None => (b, mm, label),
                    }
                }
                Err(e) => panic!("roundtrip: fragment text does not parse: {e}\n{text}"),
            }
        };
        // components are C27's
        if wasmparser::Parser::is_component(&bytes) {
            ctx.count("skipped-component");
            continue;
        }
        if let Err(e) = wasmparser::Validator::new_with_features(wasmparser::WasmFeatures::all()).validate_all(&bytes) {
            if label.starts_with("zoo") {
                panic!("roundtrip: generated module is invalid: {e}\n{label}");
            }
            ctx.count("skipped-invalid-input");
            continue;
        }
        let conv_in = converted(&bytes).unwrap();
        // extended constant expressions are outside the property
        if conv_in.consts.iter().any(|c| matches!(c.as_str(), "I32Add" | "I32Sub" | "I32Mul" | "I64Add" | "I64Sub" | "I64Mul")) {
            ctx.count("skipped-extended-const");
            continue;
        }
        ctx.count(if label.starts_with("zoo") { "input=generated" } else if label.starts_with("extra") { "input=hand-written" } else { "input=fixture" });
        let show = |v: &Vec<String>| if v.is_empty() { "-".to_string() } else { v.join(",") };
        let shape = shape_of(&bytes).unwrap_or_else(|| "?".into());
        ctx.case_line(&format!("roundtrip {case} src={} vts={} consts={} groups={} shape={shape}", label.replace(' ', "_"), show(&conv_in.vts), show(&conv_in.consts), show(&conv_in.groups)));
        let res = guarded(|| Module::parse(&bytes, mm).map(|mut m| m.encode()).map_err(|e| format!("{e:?}")));
        let out = match res {
            Err(p) => {
                ctx.impl_line(&format!("roundtrip {case} PANIC"));
                ctx.fail(fam, case, "C01,C03", "parse-or-encode-panics-on-valid-module", &format!("{label}: {p}"));
                continue;
            }
            Ok(Err(e)) => {
                ctx.impl_line(&format!("roundtrip {case} ERR"));
                ctx.fail(fam, case, "C01", "parse-rejects-valid-module", &format!("{label}: {e}"));
                continue;
            }
            Ok(Ok(o)) => o,
        };
        ctx.hash_line(fam, case, &out);
        let mut fails: Vec<(&str, String, String)> = vec![];
        match converted(&out) {
            Ok(c) => {
                ctx.impl_line(&format!("roundtrip {case} vts={}", show(&c.vts)));
                ctx.impl_line(&format!("roundtrip {case} consts={}", show(&c.consts)));
                ctx.impl_line(&format!("roundtrip {case} groups={}", show(&c.groups)));
                ctx.impl_line(&format!("roundtrip {case} secs={}", show(&section_ids(&out))));
            }
            Err(e) => {
                ctx.impl_line(&format!("roundtrip {case} UNDECODABLE"));
                fails.push(("C01,C02", "output-undecodable".into(), e));
            }
        }
        if let Err(e) = wasmparser::Validator::new_with_features(wasmparser::WasmFeatures::all()).validate_all(&out) {
            fails.push(("C01", "output-invalid".into(), format!("{label}: {e}")));
        }
        match (print(&bytes), print(&out)) {
            (Ok(a), Ok(b)) => {
                if a != b {
                    let d = a.lines().zip(b.lines()).find(|(x, y)| x != y).map(|(x, y)| format!("`{}` vs `{}`", x.trim(), y.trim())).unwrap_or_else(|| format!("{} vs {} lines", a.lines().count(), b.lines().count()));
                    fails.push(("C02", "content-differs".into(), format!("{label}: {d}")));
                }
            }
            (Ok(_), Err(e)) => fails.push(("C02", "output-unprintable".into(), e)),
            _ => {}
        }
        if names(&bytes) != names(&out) {
            let (a, b) = (names(&bytes), names(&out));
            let d = a.iter().find(|x| !b.contains(x)).map(|x| format!("lost `{x}`")).or_else(|| b.iter().find(|x| !a.contains(x)).map(|x| format!("gained `{x}`"))).unwrap_or_default();
            fails.push(("C02", "names-differ".into(), format!("{label}: {d}")));
        }
        if custom_sections(&bytes) != custom_sections(&out) {
            fails.push(("C02,C28", "custom-sections-differ".into(), label.clone()));
        }
        if fails.is_empty() {
            ctx.ok(fam, case);
        } else {
            let mut seen = std::collections::HashSet::new();
            for (p, s, d) in fails {
                if seen.insert(s.clone()) {
                    ctx.fail(fam, case, p, &s, &d);
                }
            }
        }
    }
}
