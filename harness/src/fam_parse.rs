//! family `parse` (C03): `Module::parse` (both settings of the multi-memory flag) and `Component::parse` on mutants of
//! valid modules and components (fixtures of the repository and generated feature-zoo modules): truncation, byte flips,
//! splices, duplicated / reordered / dropped sections, rewritten counts and indices, hand-built hostile sections (name
//! indices out of range, a name section in front of the code section, empty `producers`, constant expressions with
//! non-constant operators, a function section pointing at missing or non-function types, a broken tag section), and plain
//! random bytes. A panic is an observation (`PANIC <site>`), never a crash of the harness. The facts wirm's own guards
//! depend on are extracted with wasmparser alone and given to the model (M11), which predicts `OK` / `ERR`.
use crate::ctx::{guarded, Ctx};
use crate::rng::Rng;
use wirm::{Component, Module};

/// (id, start of the section header, end of the section) for a core module or the top level of a component
fn sections(b: &[u8]) -> Vec<(u8, usize, usize)> {
    let mut v = vec![];
    let mut i = 8;
    while i < b.len() {
        let id = b[i];
        let mut j = i + 1;
        let mut size: usize = 0;
        let mut shift = 0;
        loop {
            if j >= b.len() || shift > 28 {
                return v;
            }
            let byte = b[j];
            size |= ((byte & 0x7f) as usize) << shift;
            shift += 7;
            j += 1;
            if byte & 0x80 == 0 {
                break;
            }
        }
        let end = j + size;
        if end > b.len() {
            return v;
        }
        v.push((id, i, end));
        i = end;
    }
    v
}

fn leb(mut n: u32) -> Vec<u8> {
    let mut v = vec![];
    loop {
        let b = (n & 0x7f) as u8;
        n >>= 7;
        if n == 0 {
            v.push(b);
            return v;
        }
        v.push(b | 0x80);
    }
}

fn section(id: u8, body: &[u8]) -> Vec<u8> {
    let mut v = vec![id];
    v.extend(leb(body.len() as u32));
    v.extend_from_slice(body);
    v
}

fn custom(name: &str, data: &[u8]) -> Vec<u8> {
    let mut body = leb(name.len() as u32);
    body.extend_from_slice(name.as_bytes());
    body.extend_from_slice(data);
    section(0, &body)
}

/// a name section whose function-name map names index `idx`
fn name_section_func(idx: u32) -> Vec<u8> {
    let mut map = leb(1);
    map.extend(leb(idx));
    map.extend(leb(1));
    map.push(b'x');
    let mut sub = vec![1u8];
    sub.extend(leb(map.len() as u32));
    sub.extend(map);
    custom("name", &sub)
}

fn insert_section(b: &[u8], secs: &[(u8, usize, usize)], before: usize, sec: &[u8]) -> Vec<u8> {
    let at = if before < secs.len() { secs[before].1 } else { b.len() };
    let mut v = b[..at].to_vec();
    v.extend_from_slice(sec);
    v.extend_from_slice(&b[at..]);
    v
}

pub fn mutate(r: &mut Rng, seed: &[u8]) -> (Vec<u8>, &'static str) {
    let secs = sections(seed);
    let mut b = seed.to_vec();
    let k = r.weighted(&[8, 12, 6, 6, 5, 5, 5, 4, 4, 4, 4, 4, 3, 3, 3, 2, 5, 0, 2, 3, 1]);
    match k {
        0 => {
            if b.len() > 9 {
                b.truncate(r.range(8, b.len() - 1));
            }
            (b, "truncate")
        }
        1 => {
            for _ in 0..r.range(1, 4) {
                if b.len() > 8 {
                    let i = r.range(8, b.len() - 1);
                    b[i] = match r.below(6) {
                        0 => 0,
                        1 => 0xff,
                        2 => 0x7f,
                        3 => 0x80,
                        4 => b[i] ^ (1 << r.below(8)),
                        _ => r.next() as u8,
                    };
                }
            }
            (b, "flip")
        }
        2 => {
            if b.len() > 16 {
                let n = r.range(1, 12.min(b.len() - 9));
                let a = r.range(8, b.len() - n);
                let c = r.range(8, b.len() - n);
                let chunk = b[a..a + n].to_vec();
                b[c..c + n].copy_from_slice(&chunk);
            }
            (b, "splice")
        }
        3 => {
            if !secs.is_empty() {
                let (_, s, e) = secs[r.below(secs.len())];
                let sec = seed[s..e].to_vec();
                b = insert_section(seed, &secs, r.below(secs.len() + 1), &sec);
            }
            (b, "duplicate-section")
        }
        4 => {
            if secs.len() >= 2 {
                let i = r.below(secs.len());
                let (_, s, e) = secs[i];
                let sec = seed[s..e].to_vec();
                let mut rest = seed[..s].to_vec();
                rest.extend_from_slice(&seed[e..]);
                let rsecs = sections(&rest);
                b = insert_section(&rest, &rsecs, r.below(rsecs.len() + 1), &sec);
            }
            (b, "move-section")
        }
        5 => {
            if !secs.is_empty() {
                let (_, s, e) = secs[r.below(secs.len())];
                b = seed[..s].to_vec();
                b.extend_from_slice(&seed[e..]);
            }
            (b, "drop-section")
        }
        6 => {
            // rewrite the first LEB after a section header (the item count) of some section
            if !secs.is_empty() {
                let (_, s, _) = secs[r.below(secs.len())];
                let mut j = s + 1;
                while j < b.len() && b[j] & 0x80 != 0 {
                    j += 1;
                }
                if j + 1 < b.len() {
                    b[j + 1] = *r.pick(&[0u8, 1, 2, 0x7f, 0xff, 200]);
                }
            }
            (b, "rewrite-count")
        }
        7 => {
            // a function-name entry with an index that is out of range, at the end
            let idx = *r.pick(&[0u32, 1, 5, 1000, u32::MAX]);
            b.extend(name_section_func(idx));
            (b, "name-index")
        }
        8 => {
            // the name section in front of the code section
            let code = secs.iter().position(|s| s.0 == 10).unwrap_or(0);
            b = insert_section(seed, &secs, code, &name_section_func(r.below(3) as u32));
            (b, "name-before-code")
        }
        9 => {
            let data: &[u8] = match r.below(4) {
                0 => &[],
                1 => &[0],
                2 => &[1, 2, b'x', b'y'],
                _ => &[1, 8, b'l', b'a', b'n', b'g', b'u', b'a', b'g', b'e', 5],
            };
            b.extend(custom("producers", data));
            (b, "producers")
        }
        10 => {
            // a global whose initialiser uses non-constant / extended-constant operators
            let init: &[u8] = match r.below(4) {
                0 => &[0x41, 1, 0x41, 2, 0x6a, 0x0b],       // i32.const 1 i32.const 2 i32.add end
                1 => &[0x01, 0x41, 0, 0x0b],                 // nop i32.const 0 end
                2 => &[0x41, 0, 0x0b, 0x0b],                 // two ends
                _ => &[0x41, 0],                             // no end
            };
            let mut body = leb(1);
            body.extend_from_slice(&[0x7f, 0x00]);
            body.extend_from_slice(init);
            let at = secs.iter().position(|s| s.0 > 6 && s.0 != 12 && s.0 != 13).unwrap_or(secs.len());
            b = insert_section(seed, &secs, at, &section(6, &body));
            (b, "const-expr")
        }
        11 => {
            // a function section pointing at a missing type / a non-function type, with a matching code section
            let ty = *r.pick(&[0u32, 1, 7, 1000]);
            let types: Vec<u8> = match r.below(3) {
                0 => section(1, &[1, 0x5f, 0]),          // one struct type
                1 => section(1, &[1, 0x60, 0, 0]),       // one function type
                _ => vec![],
            };
            let mut m = b"\0asm\x01\0\0\0".to_vec();
            m.extend(types);
            let mut fs = leb(1);
            fs.extend(leb(ty));
            m.extend(section(3, &fs));
            m.extend(section(10, &[1, 2, 0, 0x0b]));
            (m, "function-type-index")
        }
        12 => {
            // a tag section with garbage
            let body: &[u8] = match r.below(3) {
                0 => &[1],
                1 => &[2, 0, 0],
                _ => &[1, 7, 0],
            };
            let at = secs.iter().position(|s| s.0 > 5 && s.0 != 13).unwrap_or(secs.len());
            b = insert_section(seed, &secs, at, &section(13, body));
            (b, "tag-section")
        }
        13 => {
            // name maps of the other kinds, malformed
            let mut sub = vec![*r.pick(&[2u8, 3, 4, 5, 6, 7, 8, 9, 10, 11])];
            let payload: &[u8] = match r.below(3) {
                0 => &[1, 0],
                1 => &[2, 0, 1, b'a'],
                _ => &[1, 0, 1, 0, 5, b'a'],
            };
            sub.extend(leb(payload.len() as u32));
            sub.extend_from_slice(payload);
            b.extend(custom("name", &sub));
            (b, "name-maps")
        }
        14 => {
            let mut m = b"\0asm".to_vec();
            m.extend_from_slice(match r.below(3) {
                0 => &[1, 0, 0, 0],
                1 => &[0x0d, 0, 1, 0],
                _ => &[2, 0, 0, 0],
            });
            for _ in 0..r.below(40) {
                m.push(r.next() as u8);
            }
            (m, "random-after-header")
        }
        16 => inflate_count(r, b),
        19 => empty_body(r, b),
        20 => {
            // a body whose groups of local declarations add up to the top of the u32 range and beyond: each count is fine on its
            // own, their sum is what a reader has to refuse (wasmparser does: "too many locals")
            let groups: &[(u32, u8)] = match r.below(6) {
                0 => &[(u32::MAX, 0x7f), (1, 0x7e)],
                1 => &[(0x8000_0000, 0x7f), (0x8000_0000, 0x7f)],
                2 => &[(u32::MAX, 0x7f)],
                3 => &[(u32::MAX - 1, 0x7d), (1, 0x7c), (1, 0x7f)],
                4 => &[(50_000, 0x7f), (1, 0x7e)],
                _ => &[(1, 0x7f), (u32::MAX, 0x7e), (u32::MAX, 0x7d)],
            };
            let mut body = leb(groups.len() as u32);
            for (c, t) in groups {
                body.extend(leb(*c));
                body.push(*t);
            }
            body.push(0x0b);
            let mut code = vec![1u8];
            code.extend(leb(body.len() as u32));
            code.extend(body);
            let mut m: Vec<u8> = vec![0, 0x61, 0x73, 0x6d, 1, 0, 0, 0, 1, 4, 1, 0x60, 0, 0, 3, 2, 1, 0];
            m.extend(section(10, &code));
            if r.chance(1, 3) {
                // the same module nested in a component
                let mut c: Vec<u8> = vec![0, 0x61, 0x73, 0x6d, 0x0d, 0, 1, 0, 1];
                c.extend(leb(m.len() as u32));
                c.extend(m);
                m = c;
            }
            (m, "huge-local-groups")
        }
        18 => {
            // the seed (or an empty component) wrapped into components nested inside each other: parsing recurses per level
            let header: &[u8] = &[0, 0x61, 0x73, 0x6d, 0x0d, 0, 1, 0];
            let mut inner = if wasmparser::Parser::is_component(seed) { seed.to_vec() } else { header.to_vec() };
            let depth = *r.pick(&[1usize, 3, 30, 63, 64, 65, 66, 100, 140, 200, 400, 1000, 3000]);
            for _ in 0..depth {
                let mut c = header.to_vec();
                c.push(4);
                c.extend(leb(inner.len() as u32));
                c.extend_from_slice(&inner);
                inner = c;
            }
            (inner, "deep-nesting")
        }
        _ => ((0..r.below(64)).map(|_| r.next() as u8).collect(), "random"),
    }
}

/// one function body of a module is cut down to its local declarations: a body without a single operator, not even the final `end`
/// (the code section is rebuilt, so every size field is right)
fn empty_body(r: &mut Rng, b: Vec<u8>) -> (Vec<u8>, &'static str) {
    // locate code sections (id 10) at the top level of a module
    if wasmparser::Parser::is_component(&b) || b.len() < 8 {
        // a minimal module with one function whose body is only `00` (no locals, no operators)
        let m: Vec<u8> = vec![0, 0x61, 0x73, 0x6d, 1, 0, 0, 0, 1, 4, 1, 0x60, 0, 0, 3, 2, 1, 0, 10, 3, 1, 1, 0];
        return (m, "empty-body");
    }
    let secs = sections(&b);
    let Some(code) = secs.iter().find(|s| s.0 == 10) else {
        let m: Vec<u8> = vec![0, 0x61, 0x73, 0x6d, 1, 0, 0, 0, 1, 4, 1, 0x60, 0, 0, 3, 2, 1, 0, 10, 5, 1, 3, 1, 2, 0x7f];
        return (m, "empty-body");
    };
    // rebuild the code section: the chosen body keeps its locals vector only
    let (_, sstart, send) = *code;
    let mut hdr = sstart + 1;
    while hdr < send && b[hdr] & 0x80 != 0 {
        hdr += 1;
    }
    hdr += 1;
    let body = &b[hdr..send];
    let mut rd = wasmparser::BinaryReader::new(body, 0);
    let Ok(count) = rd.read_var_u32() else { return (b, "empty-body") };
    let mut entries: Vec<Vec<u8>> = vec![];
    for _ in 0..count {
        let Ok(size) = rd.read_var_u32() else { return (b, "empty-body") };
        let Ok(bytes) = rd.read_bytes(size as usize) else { return (b, "empty-body") };
        entries.push(bytes.to_vec());
    }
    if entries.is_empty() {
        return (b, "empty-body");
    }
    let k = r.below(entries.len());
    // length of the locals vector of entry k
    let e = entries[k].clone();
    let mut er = wasmparser::BinaryReader::new(&e, 0);
    let mut ok = true;
    if let Ok(n) = er.read_var_u32() {
        for _ in 0..n {
            if er.read_var_u32().is_err() || er.read::<wasmparser::ValType>().is_err() {
                ok = false;
                break;
            }
        }
    } else {
        ok = false;
    }
    if !ok {
        return (b, "empty-body");
    }
    entries[k].truncate(er.original_position());
    let mut new_body = leb(count);
    for en in &entries {
        new_body.extend(leb(en.len() as u32));
        new_body.extend_from_slice(en);
    }
    let mut out = b[..sstart].to_vec();
    out.extend(section(10, &new_body));
    out.extend_from_slice(&b[send..]);
    (out, "empty-body")
}

/// greatest number of components nested inside each other (0: no nested component)
fn nesting_depth(bytes: &[u8]) -> usize {
    let (mut depth, mut max) = (0usize, 0usize);
    let mut stack: Vec<bool> = vec![]; // true: a component was opened
    for p in wasmparser::Parser::new(0).parse_all(bytes) {
        match p {
            Ok(wasmparser::Payload::ComponentSection { .. }) => {
                stack.push(true);
                depth += 1;
                max = max.max(depth);
            }
            Ok(wasmparser::Payload::ModuleSection { .. }) => stack.push(false),
            Ok(wasmparser::Payload::End(_)) => {
                if let Some(true) = stack.pop() {
                    depth -= 1;
                }
            }
            Ok(_) => {}
            Err(_) => break,
        }
    }
    max
}

/// the item count at the start of a vector-shaped section (of the module, or of a core module nested anywhere in a
/// component) is replaced by a huge one; the section keeps its length (bytes are dropped from its end), so every
/// enclosing size field stays right. A parser that trusts the declared count before it has seen the items allocates for it.
fn inflate_count(r: &mut Rng, mut b: Vec<u8>) -> (Vec<u8>, &'static str) {
    // start offsets of core modules: the input itself or every embedded `\0asm\x01\0\0\0`
    let mut mods: Vec<usize> = vec![];
    let magic = [0u8, 0x61, 0x73, 0x6d, 1, 0, 0, 0];
    let mut i = 0;
    while i + 8 <= b.len() {
        if b[i..i + 8] == magic {
            mods.push(i);
        }
        i += 1;
    }
    let mut cands: Vec<(usize, usize)> = vec![]; // (start of the section body, end of the section)
    for m in mods {
        for (id, at, end) in sections(&b[m..]) {
            if matches!(id, 1 | 2 | 3 | 4 | 5 | 6 | 7 | 9 | 10 | 11 | 13) {
                // skip id and size
                let mut j = m + at + 1;
                while j < b.len() && b[j] & 0x80 != 0 {
                    j += 1;
                }
                cands.push((j + 1, m + end));
            }
        }
    }
    if cands.is_empty() {
        return (b, "inflate-count");
    }
    let (body, end) = *r.pick(&cands);
    // the old count
    let mut j = body;
    while j < end && b[j] & 0x80 != 0 {
        j += 1;
    }
    let old_len = j + 1 - body;
    let huge: u32 = match r.below(4) {
        0 => u32::MAX,
        1 => u32::MAX - r.below(1 << 20) as u32,
        2 => 0x8000_0000 + r.below(1 << 30) as u32,
        _ => 0x2000_0000 + r.below(1 << 28) as u32,
    };
    let new = leb(huge);
    if body + old_len > end || end - body < new.len() + 1 {
        return (b, "inflate-count");
    }
    let rest: Vec<u8> = b[body + old_len..end].to_vec();
    let keep = (end - body) - new.len();
    let mut nb = new;
    nb.extend_from_slice(&rest[..keep.min(rest.len())]);
    while nb.len() < end - body {
        nb.push(0);
    }
    b[body..end].copy_from_slice(&nb);
    (b, "inflate-count")
}

/// one input, the three parsers; used in a child process for inputs that may make an allocation fail (an abort cannot be caught)
pub fn parse_one(path: &str) {
    let bytes = std::fs::read(path).expect("input file");
    println!("{}", outcomes(&bytes).0.join(" "));
}

fn outcomes(bytes: &[u8]) -> (Vec<String>, Vec<(usize, String)>) {
    let mut outcome = vec![];
    let mut panics = vec![];
    for (name, which) in [("module", 0), ("module-mm", 1), ("component", 2)] {
        let res = guarded(|| match which {
            0 => Module::parse(bytes, false).map(|_| ()).map_err(|e| format!("{e}")),
            1 => Module::parse(bytes, true).map(|_| ()).map_err(|e| format!("{e}")),
            _ => Component::parse(bytes, false).map(|_| ()).map_err(|e| format!("{e}")),
        });
        match res {
            Err(p) => {
                outcome.push(format!("{name}=PANIC"));
                panics.push((which, p));
            }
            Ok(Err(_)) => outcome.push(format!("{name}=ERR")),
            Ok(Ok(())) => outcome.push(format!("{name}=OK")),
        }
    }
    (outcome, panics)
}

fn site(p: &str) -> String {
    // the panic message without numbers, so that one site is one signature
    let mut s: String = p.chars().map(|c| if c.is_ascii_digit() { '#' } else { c }).collect();
    s.truncate(70);
    s.replace(' ', "_").replace("##", "#").replace("##", "#")
}

fn seeds() -> Vec<Vec<u8>> {
    let mut v = vec![];
    let mut stack = vec![std::path::PathBuf::from("/repo/tests/test_inputs")];
    let mut files = vec![];
    while let Some(d) = stack.pop() {
        if let Ok(rd) = std::fs::read_dir(&d) {
            for e in rd.flatten() {
                let p = e.path();
                if p.is_dir() {
                    stack.push(p);
                } else if matches!(p.extension().and_then(|x| x.to_str()), Some("wat") | Some("wasm")) {
                    files.push(p);
                }
            }
        }
    }
    files.sort();
    for p in files {
        let b = if p.extension().and_then(|x| x.to_str()) == Some("wat") { wat::parse_file(&p).ok() } else { std::fs::read(&p).ok() };
        if let Some(b) = b {
            if b.len() < 200_000 {
                v.push(b);
            }
        }
    }
    v
}

pub fn run(ctx: &mut Ctx) {
    let fam = "parse";
    let base = seeds();
    for case in 0..ctx.n {
        if !ctx.wants(case) {
            continue;
        }
        let mut r = Rng::new(ctx.seed, fam, case);
        // seed: a fixture, or a generated feature-zoo module, or a generated module wrapped into a component
        let seed: Vec<u8> = match r.below(4) {
            3 => {
                // a generated tree of nested components (depth up to 4)
                let (text, _, _) = crate::fam_comp::gen_component(&mut r);
                wat::parse_str(&text).unwrap()
            }
            0 if !base.is_empty() => base[r.below(base.len())].clone(),
            1 => {
                let (text, _, _) = crate::fam_roundtrip::gen_module(&mut r);
                let comp = format!("(component (core {}) (core {}))", &text[1..], "module)");
                wat::parse_str(&comp).or_else(|_| wat::parse_str(&text)).unwrap()
            }
            _ => {
                let (text, _, _) = crate::fam_roundtrip::gen_module(&mut r);
                wat::parse_str(&text).unwrap()
            }
        };
        let (bytes, kind) = if r.chance(1, 12) { (seed.clone(), "unmutated") } else { mutate(&mut r, &seed) };
        ctx.count(&format!("mutation={kind}"));
        ctx.count(if wasmparser::Parser::is_component(&seed) { "seed=component" } else { "seed=module" });
        let facts = crate::parse_facts::facts(&bytes);
        // for the cases built as nested components: how many levels (counted on the bytes, with wasmparser)
        let nest: Option<usize> = if kind == "deep-nesting" { Some(nesting_depth(&bytes)) } else { None };
        ctx.case_line(&format!(
            "parse {case} kind={kind} len={} {}{}",
            bytes.len(),
            facts.line(),
            nest.map_or(String::new(), |n| format!(" nest={n}"))
        ));
        let mut fails: Vec<(String, String)> = vec![];
        let outcome: Vec<String> = if kind == "inflate-count" || kind == "deep-nesting" {
            // in a child process: a failed allocation aborts, which no handler can turn into an observation
            let path = format!("{}/one.bin", ctx.outdir);
            std::fs::write(&path, &bytes).unwrap();
            let out = std::process::Command::new(std::env::current_exe().unwrap()).args(["parse-one", &path]).output().expect("child process");
            let text = String::from_utf8_lossy(&out.stdout).to_string();
            let line = text.lines().rev().find(|l| l.starts_with("module=")).unwrap_or("").to_string();
            if !out.status.success() || line.is_empty() {
                let err = String::from_utf8_lossy(&out.stderr);
                let what = err.lines().find(|l| l.contains("memory allocation") || l.contains("overflow") || l.contains("abort")).unwrap_or("the process died").to_string();
                fails.push(("abort-while-parsing".to_string(), format!("{kind}: {what} ({})", out.status)));
                ctx.count("child-process-aborted");
                vec!["module=ABORT".to_string(), "module-mm=ABORT".to_string(), "component=ABORT".to_string()]
            } else {
                ctx.count("run-in-child-process");
                let o: Vec<String> = line.split(' ').map(|x| x.to_string()).collect();
                if o.iter().any(|x| x.ends_with("=PANIC")) {
                    // repeat in this process for the message
                    for (which, p) in outcomes(&bytes).1 {
                        fails.push((format!("panic-{}-{}", if which == 2 { "component" } else { "module" }, site(&p)), format!("{kind}: {p}")));
                    }
                }
                o
            }
        } else {
            let (o, panics) = outcomes(&bytes);
            for (which, p) in panics {
                fails.push((format!("panic-{}-{}", if which == 2 { "component" } else { "module" }, site(&p)), format!("{kind}: {p}")));
            }
            o
        };
        if outcome.iter().any(|o| o.ends_with("=OK")) {
            ctx.count("accepted-by-some-parser");
        }
        ctx.impl_line(&format!("parse {case} {}", outcome[0]));
        if nest.is_some() {
            let c = outcome.iter().find(|o| o.starts_with("component=")).cloned().unwrap_or_default();
            ctx.impl_line(&format!("parse {case} nesting={}", match c.as_str() {
                "component=OK" => "ok",
                "component=ERR" => "err",
                _ => "abort",
            }));
        }
        if fails.is_empty() {
            ctx.ok(fam, case);
        } else {
            let mut seen = std::collections::HashSet::new();
            for (s, d) in fails {
                if seen.insert(s.clone()) {
                    ctx.fail(fam, case, "C03", &s, &d);
                }
            }
        }
    }
}
