//! family `locals` (C14, part of C12): additions of locals through every local-adding API
use crate::ctx::{guarded, show_nats, Ctx};
use crate::rng::Rng;
use crate::tys::{code_of_datatype, code_of_valtype, twin, TYS};
use std::collections::HashMap;
use wirm::ir::function::FunctionBuilder;
use wirm::ir::id::{FunctionID, ModuleID};
use wirm::iterator::component_iterator::ComponentIterator;
use wirm::iterator::iterator_trait::Iterator as _;
use wirm::iterator::module_iterator::ModuleIterator;
use wirm::module_builder::AddLocal;
use wirm::opcode::Opcode;
use wirm::{Component, Module};

const PATHS: &[&str] = &["modifier", "modifier_bulk", "moditer", "compiter", "localfn", "builder", "builder_comp", "replaced"];

struct FuncShape {
    params: Vec<usize>,            // indices into TYS
    decls: Vec<(u32, usize)>,      // run-length declarations
    nops: usize,
    /// the body starts with `block br 0 end` (a branch that can carry a semantic-after probe)
    branchy: bool,
}

fn gen_func(r: &mut Rng) -> FuncShape {
    let np = r.weighted(&[3, 3, 2, 1, 1]);
    let params = (0..np).map(|_| r.below(TYS.len())).collect();
    let nd = r.weighted(&[3, 3, 2, 2, 1]);
    let mut decls: Vec<(u32, usize)> = vec![];
    for _ in 0..nd {
        let c = r.weighted(&[1, 6, 3, 2]) as u32; // a zero count is legal in the binary format
        // repeat the previous type sometimes: adjacent groups of one type must not be merged by wirm's model
        let t = if !decls.is_empty() && r.chance(1, 4) { decls.last().unwrap().1 } else { r.below(TYS.len()) };
        decls.push((c, t));
    }
    FuncShape { params, decls, nops: r.below(3), branchy: false }
}

fn func_wat(f: &FuncShape, idx: usize) -> String {
    let mut s = format!("  (func $f{idx}");
    for p in &f.params {
        s.push_str(&format!(" (param {})", TYS[*p].wat));
    }
    // the text format cannot express run-length groups directly: one `(local t t t)` clause per group is
    // encoded by `wat` as consecutive locals which its encoder re-groups; groups are therefore re-read after parsing
    for (c, t) in &f.decls {
        if *c > 0 {
            s.push_str(" (local");
            for _ in 0..*c {
                s.push_str(&format!(" {}", TYS[*t].wat));
            }
            s.push(')');
        }
    }
    if f.branchy {
        s.push_str(" block br 0 end");
    }
    for _ in 0..f.nops {
        s.push_str(" nop");
    }
    s.push_str(")\n");
    s
}

/// the module of `funcs` written with wasm-encoder: every group of local declarations exactly as generated
fn raw_module(funcs: &[FuncShape]) -> Vec<u8> {
    use wasm_encoder::{CodeSection, Function, FunctionSection, Instruction, Module, TypeSection, ValType};
    let vt = |t: usize| ValType::from(&TYS[t].dt);
    let (mut types, mut fs, mut code) = (TypeSection::new(), FunctionSection::new(), CodeSection::new());
    for (i, f) in funcs.iter().enumerate() {
        types.ty().function(f.params.iter().map(|p| vt(*p)), []);
        fs.function(i as u32);
        let mut b = Function::new(f.decls.iter().map(|(c, t)| (*c, vt(*t))));
        if f.branchy {
            b.instruction(&Instruction::Block(wasm_encoder::BlockType::Empty));
            b.instruction(&Instruction::Br(0));
            b.instruction(&Instruction::End);
        }
        for _ in 0..f.nops {
            b.instruction(&Instruction::Nop);
        }
        b.instruction(&Instruction::End);
        code.function(&b);
    }
    let mut m = Module::new();
    m.section(&types);
    m.section(&fs);
    m.section(&code);
    m.finish()
}

/// decoded view of a function: (param codes, expanded local codes)
fn decode_funcs(wasm: &[u8]) -> Result<Vec<(Vec<u32>, Vec<u32>)>, String> {
    use wasmparser::{Parser, Payload};
    let mut types: Vec<Vec<u32>> = vec![];
    let mut fn_types: Vec<u32> = vec![];
    let mut out = vec![];
    let mut depth = 0;
    for p in Parser::new(0).parse_all(wasm) {
        match p.map_err(|e| e.to_string())? {
            Payload::ModuleSection { .. } | Payload::ComponentSection { .. } => depth += 1,
            Payload::TypeSection(r) => {
                for rg in r {
                    for st in rg.map_err(|e| e.to_string())?.types() {
                        match &st.composite_type.inner {
                            wasmparser::CompositeInnerType::Func(f) => {
                                types.push(f.params().iter().map(|v| code_of_valtype(*v)).collect())
                            }
                            _ => types.push(vec![]),
                        }
                    }
                }
            }
            Payload::FunctionSection(r) => {
                for t in r {
                    fn_types.push(t.map_err(|e| e.to_string())?);
                }
            }
            Payload::CodeSectionEntry(b) => {
                let mut locals = vec![];
                for l in b.get_locals_reader().map_err(|e| e.to_string())? {
                    let (c, t) = l.map_err(|e| e.to_string())?;
                    for _ in 0..c {
                        locals.push(code_of_valtype(t));
                    }
                }
                let k = out.len();
                out.push((types[fn_types[k] as usize].clone(), locals));
            }
            _ => {}
        }
    }
    let _ = depth;
    Ok(out)
}

pub fn run(ctx: &mut Ctx) {
    for case in 0..ctx.n {
        if !ctx.wants(case) {
            continue;
        }
        let mut r = Rng::new(ctx.seed, "locals", case);
        let nf = r.range(1, 4);
        let mut funcs: Vec<FuncShape> = (0..nf).map(|_| gen_func(&mut r)).collect();
        let target = r.below(nf);
        let path = PATHS[r.below(PATHS.len())];
        // one case in four (module paths on an existing function): the module is first instrumented with a semantic-after probe on
        // a branch and encoded — the lowering declares its own flag local — and only then are the locals added
        let pre_lower = matches!(path, "modifier" | "modifier_bulk" | "moditer" | "localfn") && r.chance(1, 4);
        if pre_lower {
            funcs[target].branchy = true;
        }
        let nadd = r.weighted(&[1, 3, 3, 2, 2, 1, 1, 1]);
        let mut adds: Vec<usize> = vec![];
        for _ in 0..nadd {
            // bias towards repeating the previous type / the type of the last declared group (run-length merge)
            let t = if !adds.is_empty() && r.chance(2, 5) {
                *adds.last().unwrap()
            } else if adds.is_empty() && !funcs[target].decls.is_empty() && r.chance(2, 5) {
                funcs[target].decls.last().unwrap().1
            } else {
                r.below(TYS.len())
            };
            // near-miss of a run-length merge: the same type up to nullability
            let t = if r.chance(1, 4) { twin(t).unwrap_or(t) } else { t };
            adds.push(t);
        }
        let builder = path.starts_with("builder");
        // a function that takes the place of an import (`replace_import_in_module`): its signature is the import's, the
        // numbers of parameters and of results differ most of the time, and it may already declare locals of its own
        let replaced = path == "replaced";
        // the function the additions go to: an existing one, or a freshly built one
        let bparams: Vec<usize> = if builder || replaced { (0..r.below(4)).map(|_| r.below(TYS.len())).collect() } else { vec![] };
        let bresults: Vec<usize> = if replaced { (0..r.below(4)).map(|_| r.below(4)).collect() } else { vec![] };
        let bpre: Vec<usize> = if replaced { (0..r.below(3)).map(|_| r.below(TYS.len())).collect() } else { vec![] };
        let mut wat = String::from("(module\n");
        if replaced {
            wat.push_str("  (import \"e\" \"imp\" (func");
            for p in &bparams {
                wat.push_str(&format!(" (param {})", TYS[*p].wat));
            }
            for q in &bresults {
                wat.push_str(&format!(" (result {})", TYS[*q].wat));
            }
            wat.push_str("))\n");
            ctx.count(&format!("replaced:params-vs-results={}", if bparams.len() == bresults.len() { "equal" } else if bparams.len() < bresults.len() { "fewer-params" } else { "more-params" }));
        }
        for (i, f) in funcs.iter().enumerate() {
            wat.push_str(&func_wat(f, i));
        }
        wat.push_str(")\n");
        let is_comp = path == "compiter" || path == "builder_comp";
        let text = if is_comp { format!("(component (core {})", &wat[1..]) } else { wat.clone() };
        let bytes = match wat::parse_str(&text) {
            Ok(b) => b,
            Err(e) => panic!("generator produced bad wat: {e}\n{text}"),
        };
        // the text format cannot say how locals are grouped (its encoder merges neighbours of one type and drops empty groups): one
        // module in three is written with wasm-encoder instead, group by group as generated - neighbouring groups of one type,
        // groups of zero locals
        let raw_groups = !is_comp && !replaced && case % 3 == 1;
        let bytes = if raw_groups {
            ctx.count("input=local-groups-as-generated");
            raw_module(&funcs)
        } else {
            bytes
        };
        // what the *input* declares (after `wat`'s own grouping), function by function
        let before = decode_funcs(&bytes).expect("input decodes");
        let (nparams, mut old_locals): (usize, Vec<u32>) = if builder {
            (bparams.len(), vec![])
        } else if replaced {
            (bparams.len(), bpre.iter().map(|t| TYS[*t].code).collect())
        } else {
            (before[target].0.len(), before[target].1.clone())
        };
        if pre_lower {
            ctx.count("locals-added-after-a-lowering-encode");
        }
        let first_cell: std::cell::RefCell<Option<Vec<u8>>> = std::cell::RefCell::new(None);
        ctx.count(&format!("path={path}"));
        ctx.count(&format!("adds={}", adds.len()));
        ctx.count(&format!("oldlocals={}", old_locals.len().min(6)));
        // the model sees the run-length declarations exactly as wirm parsed them
        let res = guarded(|| -> Result<(Vec<(u32, u32)>, Vec<u32>, Vec<u8>), String> {
            let add_dts: Vec<wirm::DataType> = adds.iter().map(|a| TYS[*a].dt).collect();
            let mut ids: Vec<u32> = vec![];
            if is_comp {
                let mut comp = Component::parse(&bytes, false).map_err(|e| format!("parse: {e:?}"))?;
                let decls = if builder { vec![] } else { stored_decls(&comp.modules[0], target) };
                if builder {
                    let ps: Vec<wirm::DataType> = bparams.iter().map(|p| TYS[*p].dt).collect();
                    let mut fb = FunctionBuilder::new(&ps, &[]);
                    fb.nop();
                    for d in &add_dts {
                        ids.push(*fb.add_local(*d));
                    }
                    fb.finish_component(&mut comp, ModuleID(0));
                } else {
                    let fid = FunctionID(target as u32);
                    let mut it = ComponentIterator::new(&mut comp, HashMap::new());
                    loop {
                        if let (wirm::Location::Component { func_idx, .. }, _) = it.curr_loc() {
                            if func_idx == fid {
                                break;
                            }
                        }
                        if it.next().is_none() {
                            return Err("iterator never reached the target function".into());
                        }
                    }
                    for d in &add_dts {
                        ids.push(*it.add_local(*d));
                    }
                }
                let out = comp.encode();
                Ok((decls, ids, out))
            } else {
                let mut m = Module::parse(&bytes, false).map_err(|e| format!("parse: {e:?}"))?;
                let fid = FunctionID(target as u32);
                if pre_lower {
                    {
                        use wirm::opcode::Instrumenter;
                        let mut fm = m.functions.get_fn_modifier(fid).ok_or("no modifier")?;
                        // instruction 1 is the `br 0` inside the leading block
                        fm.semantic_after_at(wirm::Location::Module { func_idx: fid, instr_idx: 1 });
                        fm.nop();
                    }
                    *first_cell.borrow_mut() = Some(m.encode());
                }
                let mut decls = if builder || replaced { vec![] } else { stored_decls(&m, target) };
                match path {
                    "replaced" => {
                        use wirm::Opcode;
                        let ps: Vec<wirm::DataType> = bparams.iter().map(|p| TYS[*p].dt).collect();
                        let rs: Vec<wirm::DataType> = bresults.iter().map(|p| TYS[*p].dt).collect();
                        let mut fb = FunctionBuilder::new(&ps, &rs);
                        for t in &bpre {
                            fb.add_local(TYS[*t].dt);
                        }
                        for q in &bresults {
                            match *q {
                                0 => fb.i32_const(1),
                                1 => fb.i64_const(1),
                                2 => fb.f32_const(1.0),
                                _ => fb.f64_const(1.0),
                            };
                        }
                        fb.replace_import_in_module(&mut m, wirm::ir::id::ImportsID(0));
                        // the replaced import keeps function id 0 until the module is encoded
                        decls = stored_decls(&m, 0);
                        if case % 2 == 0 {
                            let mut fm = m.functions.get_fn_modifier(FunctionID(0)).ok_or("no modifier")?;
                            for d in &add_dts {
                                ids.push(*fm.add_local(*d));
                            }
                        } else {
                            for d in &add_dts {
                                ids.push(*m.functions.unwrap_local(FunctionID(0)).add_local(*d));
                            }
                        }
                    }
                    "modifier" => {
                        let mut fm = m.functions.get_fn_modifier(fid).ok_or("no modifier")?;
                        for d in &add_dts {
                            ids.push(*fm.add_local(*d));
                        }
                    }
                    "modifier_bulk" => {
                        let mut fm = m.functions.get_fn_modifier(fid).ok_or("no modifier")?;
                        fm.add_locals(&add_dts);
                    }
                    "moditer" => {
                        let mut it = ModuleIterator::new(&mut m, &vec![]);
                        loop {
                            if let (wirm::Location::Module { func_idx, .. }, _) = it.curr_loc() {
                                if func_idx == fid {
                                    break;
                                }
                            }
                            if it.next().is_none() {
                                return Err("iterator never reached the target function".into());
                            }
                        }
                        for d in &add_dts {
                            ids.push(*it.add_local(*d));
                        }
                    }
                    "localfn" => {
                        for d in &add_dts {
                            ids.push(*m.functions.unwrap_local(fid).add_local(*d));
                        }
                    }
                    "builder" => {
                        let ps: Vec<wirm::DataType> = bparams.iter().map(|p| TYS[*p].dt).collect();
                        let mut fb = FunctionBuilder::new(&ps, &[]);
                        fb.nop();
                        for d in &add_dts {
                            ids.push(*fb.add_local(*d));
                        }
                        fb.finish_module(&mut m);
                    }
                    _ => unreachable!(),
                }
                let out = m.encode();
                Ok((decls, ids, out))
            }
        });
        let add_codes: Vec<u32> = adds.iter().map(|a| TYS[*a].code).collect();
        // the locals the function has before the additions are those of the first encoding (parsed ones plus the flag local)
        let mut before = before;
        if let Some(first) = first_cell.borrow().as_ref() {
            match decode_funcs(first) {
                Ok(f1) => {
                    old_locals = f1[target].1.clone();
                    before = f1;
                }
                Err(e) => panic!("locals: first encoding does not decode: {e}"),
            }
        }
        match res {
            Err(p) => {
                ctx.case_line(&format!("locals {case} nparams={nparams} decls=- adds={}", show_nats(&add_codes)));
                ctx.impl_line(&format!("locals {case} PANIC"));
                ctx.fail("locals", case, "C14", "panic", &format!("path={path} {p}"));
            }
            Ok(Err(e)) => {
                ctx.case_line(&format!("locals {case} nparams={nparams} decls=- adds={}", show_nats(&add_codes)));
                ctx.impl_line(&format!("locals {case} ERR"));
                ctx.fail("locals", case, "C14", "error", &format!("path={path} {e}"));
            }
            Ok(Ok((decls, ids, out))) => {
                let dstr: Vec<String> = decls.iter().map(|(c, t)| format!("{c}:{t}")).collect();
                ctx.case_line(&format!(
                    "locals {case} nparams={nparams} decls={} adds={}",
                    show_nats(&dstr),
                    show_nats(&add_codes)
                ));
                let after = match decode_funcs(&out) {
                    Ok(a) => a,
                    Err(e) => {
                        ctx.impl_line(&format!("locals {case} UNDECODABLE"));
                        ctx.fail("locals", case, "C14", "output-undecodable", &e);
                        continue;
                    }
                };
                // the function that replaced the import: the one whose removal leaves the original functions
                let tgt = if builder {
                    after.len() - 1
                } else if replaced {
                    match (0..after.len()).find(|k| {
                        let mut rest = after.clone();
                        rest.remove(*k);
                        rest == before
                    }) {
                        Some(k) => k,
                        None => {
                            ctx.impl_line(&format!("locals {case} ids={} expanded=?", show_nats(&ids)));
                            ctx.fail("locals", case, "C14", "other-function-changed", &format!("path={path} no function of the output can be the replaced import"));
                            continue;
                        }
                    }
                } else {
                    target
                };
                let (aparams, alocals) = &after[tgt];
                // the bulk path returns no ids: the model's ids are compared only when the API reports them
                let shown_ids = if path == "modifier_bulk" {
                    let base = nparams + old_locals.len();
                    (0..adds.len()).map(|k| (base + k) as u32).collect::<Vec<_>>()
                } else {
                    ids.clone()
                };
                ctx.impl_line(&format!("locals {case} ids={} expanded={}", show_nats(&shown_ids), show_nats(alocals)));
                // ---- oracle: the property itself, on the implementation's output
                let mut bad: Option<(String, String)> = None;
                let mut v = wasmparser::Validator::new_with_features(wasmparser::WasmFeatures::all());
                if let Err(e) = v.validate_all(&out) {
                    bad = Some(("output-invalid".into(), e.to_string()));
                }
                if path != "modifier_bulk" {
                    for (k, id) in ids.iter().enumerate() {
                        if *id as usize != nparams + old_locals.len() + k {
                            bad = Some(("wrong-returned-index".into(), format!("add #{k} returned {id}, expected {}", nparams + old_locals.len() + k)));
                        }
                    }
                }
                let mut expect = old_locals.clone();
                expect.extend(add_codes.iter());
                if *alocals != expect {
                    bad = Some(("declared-locals-differ".into(), format!("got {alocals:?} expected {expect:?}")));
                }
                if aparams.len() != nparams {
                    bad = Some(("params-changed".into(), format!("{} vs {nparams}", aparams.len())));
                }
                if (builder || replaced) && *aparams != bparams.iter().map(|p| TYS[*p].code).collect::<Vec<u32>>() {
                    bad = Some(("params-changed".into(), String::new()));
                }
                if !builder && !replaced && *aparams != before[target].0 {
                    bad = Some(("params-changed".into(), String::new()));
                }
                for (k, f) in before.iter().enumerate() {
                    if replaced {
                        break; // established above: the output without the target is the input
                    }
                    if (builder || k != target) && after.get(k) != Some(f) {
                        bad = Some(("other-function-changed".into(), format!("function {k}")));
                    }
                }
                match bad {
                    None => ctx.ok("locals", case),
                    Some((sig, d)) => ctx.fail("locals", case, "C14", &sig, &format!("path={path} {d}")),
                }
            }
        }
    }
}

fn stored_decls(m: &Module, target: usize) -> Vec<(u32, u32)> {
    let f = m.functions.get(FunctionID(target as u32)).unwrap_local();
    f.body
        .locals
        .iter()
        .map(|(c, t)| (*c, code_of_datatype(t)))
        .collect()
}
