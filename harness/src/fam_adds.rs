//! family `adds` (C12, C30, C29): functions built with `FunctionBuilder`, globals / data segments / memories / exports
//! added through the module API, initialisers replaced, functions named — interleaved with edits that renumber the
//! index spaces (added imports of every kind, a deleted function). Every entity carries a marker; ids returned by the
//! API are *used* (exports, `global.get` witnesses) so that the output shows what they designate. The decoded output is
//! compared with the request, content by content; the Lean model (M2 + names) predicts the index spaces, the returned
//! ids, what each use designates and where every name of the name section lands.
use crate::ctx::{guarded, Ctx};
use crate::optok::tok_of;
use crate::rng::Rng;
use crate::tys::TYS;
use std::collections::BTreeMap;
use wasmparser::Operator;
use wirm::ir::function::FunctionBuilder;
use wirm::ir::id::{FunctionID, GlobalID, MemoryID};
use wirm::ir::types::{InitExpr, InitInstr, Value};
use wirm::module_builder::AddLocal;
use wirm::opcode::Inject;
use wirm::{DataSegment, DataSegmentKind, DataType, Module};

const FMARK: i32 = 500_000;
const GMARK: i32 = 700_000;

const NUM: &[(&str, DataType)] = &[("i32", DataType::I32), ("i64", DataType::I64), ("f32", DataType::F32), ("f64", DataType::F64)];

#[derive(Clone, Debug, PartialEq)]
enum Init {
    I32(i32),
    I64(i64),
    F32(u32),
    F64(u64),
    V128(u128),
    GlobalGet(usize), // handle of an imported global
    RefFunc(usize),   // handle of a function
    RefNullFunc,
    RefNull(usize), // index into NREFS
}

/// nullable abstract reference types a global can have (wirm type, wasmparser type, heap type name as `{:?}` lower-cased)
const NREFS: &[(DataType, wasmparser::RefType, &str)] = &[
    (DataType::ExternRefNull, wasmparser::RefType::EXTERNREF, "extern"),
    (DataType::AnyNull, wasmparser::RefType::ANYREF, "any"),
    (DataType::EqNull, wasmparser::RefType::EQREF, "eq"),
    (DataType::ExnNull, wasmparser::RefType::EXNREF, "exn"),
    (DataType::NoExnNull, wasmparser::RefType::NULLEXNREF, "noexn"),
    (DataType::I31Null, wasmparser::RefType::I31REF, "i31"),
    (DataType::StructNull, wasmparser::RefType::STRUCTREF, "struct"),
    (DataType::ArrayNull, wasmparser::RefType::ARRAYREF, "array"),
    (DataType::NoneNull, wasmparser::RefType::NULLREF, "none"),
    (DataType::NoFuncNull, wasmparser::RefType::NULLFUNCREF, "nofunc"),
    (DataType::NoExternNull, wasmparser::RefType::NULLEXTERNREF, "noextern"),
];

#[derive(Clone, Debug)]
enum GTy {
    Num(usize),
    V128,
    FuncRefNull,
    FuncRef,
    NullRef(usize),
}
impl GTy {
    fn dt(&self) -> DataType {
        match self {
            GTy::Num(i) => NUM[*i].1.clone(),
            GTy::V128 => DataType::V128,
            GTy::FuncRefNull => DataType::FuncRefNull,
            GTy::FuncRef => DataType::FuncRef,
            GTy::NullRef(k) => NREFS[*k].0.clone(),
        }
    }
    fn canon(&self) -> String {
        match self {
            GTy::Num(i) => NUM[*i].0.to_string(),
            GTy::V128 => "v128".into(),
            GTy::FuncRefNull => "funcref".into(),
            GTy::FuncRef => "(ref func)".into(),
            GTy::NullRef(k) => canon_valtype(wasmparser::ValType::Ref(NREFS[*k].1)),
        }
    }
}

#[derive(Clone, Copy, PartialEq, Debug)]
enum Sp {
    F,
    G,
    M,
}
fn spc(s: Sp) -> char {
    match s {
        Sp::F => 'F',
        Sp::G => 'G',
        Sp::M => 'M',
    }
}

#[derive(Clone, Debug)]
struct Handle {
    sp: Sp,
    id: u32,          // the id the caller holds
    uid: u32,         // the entity it designated when obtained
    imp: bool,
    deleted: bool,
}

struct Built {
    uid: u32,
    params: Vec<usize>,
    results: Vec<usize>,
    locals: Vec<usize>, // indices into TYS
    body: Vec<String>,  // tokens, without the final end
    name: Option<String>,
}

struct AddedGlobal {
    uid: u32,
    ty: GTy,
    mutable: bool,
    init: Init,
    witness: u32, // uid of the function whose body reads it
}

struct AddedMem {
    uid: u32,
    maximum: Option<u64>,
    shared: bool,
    imported: bool,
}

struct AddedData {
    active: Option<(usize, Init)>, // memory handle, offset
    bytes: Vec<u8>,
}

fn canon_valtype(v: wasmparser::ValType) -> String {
    match v {
        wasmparser::ValType::I32 => "i32".into(),
        wasmparser::ValType::I64 => "i64".into(),
        wasmparser::ValType::F32 => "f32".into(),
        wasmparser::ValType::F64 => "f64".into(),
        wasmparser::ValType::V128 => "v128".into(),
        wasmparser::ValType::Ref(r) => {
            if r == wasmparser::RefType::FUNCREF {
                "funcref".into()
            } else if r.is_func_ref() && !r.is_nullable() {
                "(ref func)".into()
            } else {
                format!("ref{}", crate::tys::code_of_valtype(v))
            }
        }
    }
}

fn init_canon(i: &Init, resolve: &dyn Fn(usize) -> String) -> String {
    match i {
        Init::I32(v) => format!("i32.const:{v}"),
        Init::I64(v) => format!("i64.const:{v}"),
        Init::F32(b) => format!("f32.const:{b}"),
        Init::F64(b) => format!("f64.const:{b}"),
        Init::V128(b) => format!("v128.const:{b}"),
        Init::GlobalGet(h) => format!("global.get:{}", resolve(*h)),
        Init::RefFunc(h) => format!("ref.func:{}", resolve(*h)),
        Init::RefNullFunc => "ref.null:func".into(),
        Init::RefNull(k) => format!("ref.null:{}", NREFS[*k].2),
    }
}

fn init_expr(i: &Init, hs: &[Handle]) -> InitExpr {
    InitExpr::new(vec![match i {
        Init::I32(v) => InitInstr::Value(Value::I32(*v)),
        Init::I64(v) => InitInstr::Value(Value::I64(*v)),
        Init::F32(b) => InitInstr::Value(Value::F32(f32::from_bits(*b))),
        Init::F64(b) => InitInstr::Value(Value::F64(f64::from_bits(*b))),
        Init::V128(b) => InitInstr::Value(Value::V128(*b)),
        Init::GlobalGet(h) => InitInstr::Global(GlobalID(hs[*h].id)),
        Init::RefFunc(h) => InitInstr::RefFunc(FunctionID(hs[*h].id)),
        Init::RefNullFunc => InitInstr::RefNull(wasmparser::RefType::FUNCREF),
        Init::RefNull(k) => InitInstr::RefNull(NREFS[*k].1),
    }])
}

fn gen_init(r: &mut Rng, ty: &GTy, hs: &[Handle], gimports: &[(usize, usize)]) -> Init {
    match ty {
        GTy::Num(k) => {
            // an imported immutable global of the same type can initialise it
            let same: Vec<usize> = gimports.iter().filter(|(_, t)| t == k).map(|(h, _)| *h).filter(|h| !hs[*h].deleted).collect();
            if !same.is_empty() && r.chance(1, 4) {
                return Init::GlobalGet(*r.pick(&same));
            }
            match k {
                0 => Init::I32(*r.pick(&[0, 1, -1, i32::MIN, i32::MAX, 123456])),
                1 => Init::I64(*r.pick(&[0, -1, i64::MIN, i64::MAX, 1 << 40])),
                2 => Init::F32(*r.pick(&[0x7FC0_0000, 0x7FA0_0001, 0xFFFF_FFFF, 0x3F80_0000, 0x8000_0000, 0x0000_0001])),
                _ => Init::F64(*r.pick(&[0x7FF8_0000_0000_0000, 0x7FF4_0000_0000_0001, 0xFFFF_FFFF_FFFF_FFFF, 0x3FF0_0000_0000_0000, 0x8000_0000_0000_0000])),
            }
        }
        GTy::V128 => Init::V128(*r.pick(&[0u128, u128::MAX, 1u128 << 127, 0x0123_4567_89AB_CDEF_0011_2233_4455_6677u128, (1u128 << 127) | 5])),
        GTy::FuncRefNull => {
            let fs: Vec<usize> = (0..hs.len()).filter(|h| hs[*h].sp == Sp::F && !hs[*h].deleted).collect();
            if r.chance(1, 2) || fs.is_empty() {
                Init::RefNullFunc
            } else {
                Init::RefFunc(*r.pick(&fs))
            }
        }
        GTy::FuncRef => {
            let fs: Vec<usize> = (0..hs.len()).filter(|h| hs[*h].sp == Sp::F && !hs[*h].deleted).collect();
            Init::RefFunc(*r.pick(&fs))
        }
        GTy::NullRef(k) => Init::RefNull(*k),
    }
}

// ---------------------------------------------------------------- decoded output
#[derive(Default)]
struct Out {
    types: Vec<(Vec<String>, Vec<String>)>,
    fimports: Vec<String>,          // uid text
    gimports: Vec<String>,
    mimports: Vec<(String, wasmparser::MemoryType)>,
    func_types: Vec<u32>,
    bodies: Vec<(Vec<String>, Vec<String>)>, // expanded locals, tokens
    globals: Vec<(String, bool, Vec<String>)>, // type, mutable, init tokens
    memories: Vec<wasmparser::MemoryType>,
    datas: Vec<(Option<(u32, Vec<String>)>, Vec<u8>)>,
    exports: Vec<(String, char, u32)>,
    fnames: BTreeMap<u32, String>,
    lnames: BTreeMap<(u32, u32), String>,
    gnames: BTreeMap<u32, String>,
}

fn const_toks(e: &wasmparser::ConstExpr) -> Vec<String> {
    let mut v = vec![];
    for op in e.get_operators_reader() {
        match op {
            Ok(Operator::End) => {}
            Ok(Operator::F32Const { value }) => v.push(format!("f32.const:{}", value.bits())),
            Ok(Operator::F64Const { value }) => v.push(format!("f64.const:{}", value.bits())),
            Ok(Operator::V128Const { value }) => v.push(format!("v128.const:{}", u128::from_le_bytes(*value.bytes()))),
            Ok(Operator::RefNull { hty }) => v.push(format!("ref.null:{}", match hty { wasmparser::HeapType::Abstract { ty, shared: false } => format!("{ty:?}").to_lowercase(), x => format!("{x:?}") })),
            Ok(Operator::RefFunc { function_index }) => v.push(format!("ref.func:{function_index}")),
            Ok(o) => v.push(tok_of(&o)),
            Err(e) => v.push(format!("?{e}")),
        }
    }
    v
}

fn decode(wasm: &[u8]) -> Result<Out, String> {
    use wasmparser::{Name, Parser, Payload};
    let e2s = |e: wasmparser::BinaryReaderError| e.to_string();
    let mut o = Out::default();
    for p in Parser::new(0).parse_all(wasm) {
        match p.map_err(e2s)? {
            Payload::TypeSection(r) => {
                for g in r {
                    for st in g.map_err(e2s)?.types() {
                        if let wasmparser::CompositeInnerType::Func(f) = &st.composite_type.inner {
                            o.types.push((f.params().iter().map(|v| canon_valtype(*v)).collect(), f.results().iter().map(|v| canon_valtype(*v)).collect()));
                        } else {
                            o.types.push((vec!["?".into()], vec![]));
                        }
                    }
                }
            }
            Payload::ImportSection(r) => {
                for imp in r {
                    let imp = imp.map_err(e2s)?;
                    let uid = imp.name[1..].to_string();
                    match imp.ty {
                        wasmparser::TypeRef::Func(_) => o.fimports.push(uid),
                        wasmparser::TypeRef::Global(_) => o.gimports.push(uid),
                        wasmparser::TypeRef::Memory(m) => o.mimports.push((uid, m)),
                        _ => {}
                    }
                }
            }
            Payload::FunctionSection(r) => {
                for t in r {
                    o.func_types.push(t.map_err(e2s)?);
                }
            }
            Payload::MemorySection(r) => {
                for m in r {
                    o.memories.push(m.map_err(e2s)?);
                }
            }
            Payload::GlobalSection(r) => {
                for g in r {
                    let g = g.map_err(e2s)?;
                    o.globals.push((canon_valtype(g.ty.content_type), g.ty.mutable, const_toks(&g.init_expr)));
                }
            }
            Payload::ExportSection(r) => {
                for e in r {
                    let e = e.map_err(e2s)?;
                    let k = match e.kind {
                        wasmparser::ExternalKind::Func => 'F',
                        wasmparser::ExternalKind::Global => 'G',
                        wasmparser::ExternalKind::Memory => 'M',
                        _ => '?',
                    };
                    o.exports.push((e.name.to_string(), k, e.index));
                }
            }
            Payload::CodeSectionEntry(b) => {
                let mut locals = vec![];
                for l in b.get_locals_reader().map_err(e2s)? {
                    let (c, t) = l.map_err(e2s)?;
                    for _ in 0..c {
                        locals.push(format!("t{}", crate::tys::code_of_valtype(t)));
                    }
                }
                let mut toks = vec![];
                for op in b.get_operators_reader().map_err(e2s)? {
                    let op = op.map_err(e2s)?;
                    toks.push(match op {
                        Operator::F64Const { value } => format!("f64.const:{}", value.bits()),
                        Operator::F32Const { value } => format!("f32.const:{}", value.bits()),
                        o => tok_of(&o),
                    });
                }
                o.bodies.push((locals, toks));
            }
            Payload::DataSection(r) => {
                for d in r {
                    let d = d.map_err(e2s)?;
                    let kind = match d.kind {
                        wasmparser::DataKind::Passive => None,
                        wasmparser::DataKind::Active { memory_index, offset_expr } => Some((memory_index, const_toks(&offset_expr))),
                    };
                    o.datas.push((kind, d.data.to_vec()));
                }
            }
            Payload::CustomSection(c) => {
                if let wasmparser::KnownCustom::Name(nr) = c.as_known() {
                    for n in nr {
                        match n.map_err(e2s)? {
                            Name::Function(m) => {
                                for x in m {
                                    let x = x.map_err(e2s)?;
                                    o.fnames.insert(x.index, x.name.to_string());
                                }
                            }
                            Name::Local(m) => {
                                for f in m {
                                    let f = f.map_err(e2s)?;
                                    for x in f.names {
                                        let x = x.map_err(e2s)?;
                                        o.lnames.insert((f.index, x.index), x.name.to_string());
                                    }
                                }
                            }
                            Name::Global(m) => {
                                for x in m {
                                    let x = x.map_err(e2s)?;
                                    o.gnames.insert(x.index, x.name.to_string());
                                }
                            }
                            _ => {}
                        }
                    }
                }
            }
            _ => {}
        }
    }
    Ok(o)
}

/// uid (text) of the function at each index of the output
fn fspace(o: &Out) -> Vec<String> {
    let mut v = o.fimports.clone();
    for (_, toks) in &o.bodies {
        let uid = toks.first().and_then(|t| t.strip_prefix("i32.const:")).and_then(|x| x.parse::<i32>().ok()).filter(|x| *x >= FMARK && *x < FMARK + 100_000);
        v.push(uid.map_or("?".to_string(), |x| (x - FMARK).to_string()));
    }
    v
}

pub fn run(ctx: &mut Ctx) {
    let fam = "adds";
    for case in 0..ctx.n {
        if !ctx.wants(case) {
            continue;
        }
        let mut r = Rng::new(ctx.seed, fam, case);
        // ------------------------------------------------------------ base module
        let mut next_uid = 1u32;
        let mut uid = || {
            let u = next_uid;
            next_uid += 1;
            u
        };
        let mut hs: Vec<Handle> = vec![];
        let mut wat = String::from("(module\n  (type (func))\n");
        // structurally equal types in the type section (the interning map then has fewer entries than the section has types)
        match r.below(4) {
            0 => wat.push_str("  (type (func))\n"),
            1 => wat.push_str("  (type (func (param i32)))\n  (type (func))\n  (type (func (param i64) (result i64)))\n  (type (func (param i32)))\n"),
            _ => {}
        }
        let mut imp_line: Vec<String> = vec![];
        let mut base_imp_pos: std::collections::HashMap<usize, u32> = std::collections::HashMap::new(); // handle -> ImportsID
        let mut f_items: Vec<String> = vec![];
        let mut g_items: Vec<String> = vec![];
        let mut m_items: Vec<String> = vec![];
        let mut gimports: Vec<(usize, usize)> = vec![]; // handle, NUM type
        let mut base_fnames: Vec<(u32, String)> = vec![];
        let mut base_lnames: Vec<(u32, u32, u32, String)> = vec![]; // func uid, input func index, local index, name
        let mut base_gnames: Vec<(u32, u32, String)> = vec![]; // global uid, input index, name
        // imports, interleaved kinds
        let nfi = r.below(3);
        let ngi = r.below(3);
        let nmi = r.below(2);
        let mut kinds: Vec<char> = vec![];
        kinds.extend(std::iter::repeat('F').take(nfi));
        kinds.extend(std::iter::repeat('G').take(ngi));
        kinds.extend(std::iter::repeat('M').take(nmi));
        for i in (1..kinds.len()).rev() {
            let j = r.below(i + 1);
            kinds.swap(i, j);
        }
        let (mut fi, mut gi, mut mi) = (0u32, 0u32, 0u32);
        for k in &kinds {
            let u = uid();
            match k {
                'F' => {
                    let named = r.chance(2, 3);
                    wat.push_str(&format!("  (import \"env\" \"i{u}\" (func {}))\n", if named { format!("$f{u}") } else { String::new() }));
                    if named {
                        base_fnames.push((u, format!("f{u}")));
                    }
                    hs.push(Handle { sp: Sp::F, id: fi, uid: u, imp: true, deleted: false });
                    base_imp_pos.insert(hs.len() - 1, imp_line.len() as u32);
                    f_items.push(format!("i{u}"));
                    imp_line.push(format!("F{u}"));
                    fi += 1;
                }
                'G' => {
                    let t = r.below(4);
                    let named = r.chance(2, 3);
                    wat.push_str(&format!("  (import \"env\" \"i{u}\" (global {} {}))\n", if named { format!("$g{u}") } else { String::new() }, NUM[t].0));
                    if named {
                        base_gnames.push((u, gi, format!("g{u}")));
                    }
                    hs.push(Handle { sp: Sp::G, id: gi, uid: u, imp: true, deleted: false });
                    gimports.push((hs.len() - 1, t));
                    g_items.push(format!("i{u}"));
                    imp_line.push(format!("G{u}"));
                    gi += 1;
                }
                _ => {
                    wat.push_str(&format!("  (import \"env\" \"i{u}\" (memory {}))\n", u + 1));
                    hs.push(Handle { sp: Sp::M, id: mi, uid: u, imp: true, deleted: false });
                    m_items.push(format!("i{u}"));
                    imp_line.push(format!("M{u}"));
                    mi += 1;
                }
            }
        }
        // local memories
        for _ in 0..r.range(if nmi == 0 { 1 } else { 0 }, 1) {
            let u = uid();
            wat.push_str(&format!("  (memory {})\n", u + 1));
            hs.push(Handle { sp: Sp::M, id: mi, uid: u, imp: false, deleted: false });
            m_items.push(format!("l{u}"));
            mi += 1;
        }
        // local globals (marker initialisers), named
        let nlg = r.range(1, 3);
        let mut base_globals: Vec<usize> = vec![];
        for _ in 0..nlg {
            let u = uid();
            let named = r.chance(3, 4);
            wat.push_str(&format!("  (global {} (mut i32) (i32.const {}))\n", if named { format!("$g{u}") } else { String::new() }, GMARK + u as i32));
            if named {
                base_gnames.push((u, gi, format!("g{u}")));
            }
            hs.push(Handle { sp: Sp::G, id: gi, uid: u, imp: false, deleted: false });
            base_globals.push(hs.len() - 1);
            g_items.push(format!("l{u}"));
            gi += 1;
        }
        // local functions: marker, named params / locals, one of them unreferenced (may be deleted)
        let nlf = r.range(2, 4);
        for k in 0..nlf {
            let u = uid();
            let named = r.chance(3, 4);
            let np = r.below(2);
            let nl = r.below(3);
            wat.push_str(&format!("  (func {}", if named { format!("$f{u}") } else { String::new() }));
            for p in 0..np {
                wat.push_str(&format!(" (param $p{u}_{p} i32)"));
                base_lnames.push((u, fi, p as u32, format!("p{u}_{p}")));
            }
            for l in 0..nl {
                wat.push_str(&format!(" (local $l{u}_{l} i64)"));
                base_lnames.push((u, fi, (np + l) as u32, format!("l{u}_{l}")));
            }
            wat.push_str(&format!(" i32.const {} drop", FMARK + u as i32));
            // base functions read every base global once (so that base globals can be located in the output)
            if k == 0 {
                for h in 0..hs.len() {
                    if hs[h].sp == Sp::G {
                        wat.push_str(&format!(" global.get {} drop", hs[h].id));
                    }
                }
            }
            wat.push_str(")\n");
            if named {
                base_fnames.push((u, format!("f{u}")));
            }
            hs.push(Handle { sp: Sp::F, id: fi, uid: u, imp: false, deleted: false });
            f_items.push(format!("l{u}"));
            fi += 1;
        }
        let glob_reader_uid = hs.iter().filter(|h| h.sp == Sp::F && !h.imp).next().unwrap().uid;
        let has_data_count = r.chance(1, 2);
        if has_data_count {
            // a passive segment makes the text encoder emit the data count section
            wat.push_str("  (data \"base\")\n");
        }
        wat.push_str(")\n");
        let bytes = wat::parse_str(&wat).unwrap_or_else(|e| panic!("adds: bad base module: {e}\n{wat}"));
        let base_ndata = if has_data_count { 1 } else { 0 };

        // ------------------------------------------------------------ history
        let nops = r.range(1, 7);
        let mut ops_model: Vec<String> = vec![];
        let mut builts: Vec<Built> = vec![];
        let mut aglobals: Vec<AddedGlobal> = vec![];
        let mut amems: Vec<AddedMem> = vec![];
        let mut adatas: Vec<AddedData> = vec![];
        let mut reinit: Vec<(usize, Init)> = vec![]; // base global handle, new initialiser
        let mut export_uses: Vec<(String, usize)> = vec![]; // export name, handle
        let mut reexported: Vec<String> = vec![];
        // handles whose import was replaced by a built function: `set_fn_name` on them trips the assertion noted as F28 (loud)
        let mut replaced: Vec<usize> = vec![];
        let mut renames: Vec<(usize, String)> = vec![];
        #[derive(Clone)]
        enum A {
            Build(usize),
            Global(usize),
            ModInit(usize),
            Data(usize),
            Mem(usize),
            ExportF(usize, String),
            ExportM(usize, String),
            ImpFunc(u32),
            ImpGlobal(u32, usize),
            DelFunc(usize),
            Rename(usize, String),
            /// `exports.delete(id of the export with this name)`
            DelExport(String),
            /// a built function replaces a parsed function import: (index into builts, handle, ImportsID)
            Replace(usize, usize, u32),
        }
        let mut plan: Vec<A> = vec![];
        let mut deleted_one = false;
        for _ in 0..nops {
            let plan_len_before = plan.len();
            let k = r.weighted(&[6, 5, 2, 3, 3, 2, 2, 2, 2, 1, 2, 2, 2]);
            match k {
                0 => {
                    let u = uid();
                    let params: Vec<usize> = (0..r.below(3)).map(|_| r.below(4)).collect();
                    let results: Vec<usize> = (0..r.below(3)).map(|_| r.below(4)).collect();
                    let mut locals: Vec<usize> = vec![];
                    let mut last = r.below(TYS.len());
                    for _ in 0..r.below(5) {
                        if !r.chance(1, 2) {
                            last = r.below(TYS.len());
                        }
                        locals.push(last);
                    }
                    let mut body: Vec<String> = vec![format!("i32.const:{}", FMARK + u as i32), "drop".into()];
                    for _ in 0..r.below(4) {
                        match r.below(4) {
                            0 => body.push("nop".into()),
                            1 => {
                                body.push(format!("i32.const:{}", r.below(1000)));
                                body.push("drop".into());
                            }
                            2 if !params.is_empty() => {
                                body.push(format!("local.get:{}", r.below(params.len())));
                                body.push("drop".into());
                            }
                            _ => {
                                body.push(format!("f64.const:{}", *r.pick(&[0x7FF4_0000_0000_0001u64, 0x3FF0_0000_0000_0000, 0])));
                                body.push("drop".into());
                            }
                        }
                    }
                    for t in &results {
                        body.push(match t {
                            0 => "i32.const:7".to_string(),
                            1 => "i64.const:7".to_string(),
                            2 => "f32.const:1065353216".to_string(),
                            _ => "f64.const:4607182418800017408".to_string(),
                        });
                    }
                    // one built function in four (without results) ends in the `end` of a construct of its own: the function's final
                    // `end` is still to be added behind it
                    if results.is_empty() && r.chance(1, 4) {
                        if r.chance(1, 2) {
                            body.extend(["block".to_string(), "nop".into(), "end".into()]);
                        } else {
                            body.extend(["i32.const:1".to_string(), "if".into(), "block".into(), "end".into(), "end".into()]);
                        }
                    }
                    let name = if r.chance(2, 3) { Some(format!("built{u}")) } else { None };
                    builts.push(Built { uid: u, params, results, locals, body, name });
                    plan.push(A::Build(builts.len() - 1));
                }
                1 => {
                    let u = uid();
                    let ty = match r.below(8) {
                        0 => GTy::V128,
                        1 => GTy::FuncRefNull,
                        2 => GTy::FuncRef,
                        3 => GTy::NullRef(r.below(NREFS.len())),
                        _ => GTy::Num(r.below(4)),
                    };
                    let init = gen_init(&mut r, &ty, &hs, &gimports);
                    let w = uid();
                    aglobals.push(AddedGlobal { uid: u, ty, mutable: r.chance(1, 2), init, witness: w });
                    plan.push(A::Global(aglobals.len() - 1));
                }
                2 => {
                    let h = *r.pick(&base_globals);
                    let init = gen_init(&mut r, &GTy::Num(0), &hs, &gimports);
                    plan.push(A::ModInit(reinit.len()));
                    reinit.push((h, init));
                }
                3 => {
                    let mems: Vec<usize> = (0..hs.len()).filter(|h| hs[*h].sp == Sp::M).collect();
                    let active = if r.chance(2, 3) {
                        let off = if r.chance(1, 4) && gimports.iter().any(|(_, t)| *t == 0) {
                            Init::GlobalGet(gimports.iter().find(|(_, t)| *t == 0).unwrap().0)
                        } else {
                            Init::I32(r.below(1000) as i32)
                        };
                        Some((*r.pick(&mems), off))
                    } else {
                        None
                    };
                    let bytes: Vec<u8> = (0..r.below(6)).map(|_| r.next() as u8).collect();
                    adatas.push(AddedData { active, bytes });
                    plan.push(A::Data(adatas.len() - 1));
                }
                4 => {
                    let u = uid();
                    let shared = r.chance(1, 5);
                    let maximum = if shared || r.chance(1, 2) { Some((u + 1 + r.below(5) as u32) as u64) } else { None };
                    amems.push(AddedMem { uid: u, maximum, shared, imported: r.chance(1, 3) });
                    plan.push(A::Mem(amems.len() - 1));
                }
                5 => {
                    let fs: Vec<usize> = (0..hs.len()).filter(|h| hs[*h].sp == Sp::F && !hs[*h].deleted).collect();
                    let h = *r.pick(&fs);
                    plan.push(A::ExportF(h, format!("xf{}", export_uses.len())));
                    export_uses.push((format!("xf{}", export_uses.len()), h));
                }
                6 => {
                    let ms: Vec<usize> = (0..hs.len()).filter(|h| hs[*h].sp == Sp::M).collect();
                    let h = *r.pick(&ms);
                    plan.push(A::ExportM(h, format!("xm{}", export_uses.len())));
                    export_uses.push((format!("xm{}", export_uses.len()), h));
                }
                7 => plan.push(A::ImpFunc(uid())),
                8 => plan.push(A::ImpGlobal(uid(), r.below(4))),
                9 => {
                    // the last base local function is referenced by nothing
                    // a base function nothing refers to: the last local one, or (half of the time) an imported one
                    let cand: Vec<usize> = (0..hs.len()).filter(|h| hs[*h].sp == Sp::F && hs[*h].uid != glob_reader_uid && !hs[*h].deleted && hs[*h].id != u32::MAX).collect();
                    // never delete something a planned export or initialiser refers to (that must fail loudly: C09)
                    let used = |h: usize| {
                        export_uses.iter().any(|(_, x)| *x == h)
                            || aglobals.iter().any(|g| g.init == Init::RefFunc(h))
                            || reinit.iter().any(|(_, i)| *i == Init::RefFunc(h))
                    };
                    let cand: Vec<usize> = cand.into_iter().filter(|h| !used(*h)).collect();
                    if !deleted_one && !cand.is_empty() {
                        deleted_one = true;
                        let imps: Vec<usize> = cand.iter().cloned().filter(|h| hs[*h].imp).collect();
                        let h = if !imps.is_empty() && r.chance(1, 2) { *r.pick(&imps) } else { *cand.last().unwrap() };
                        hs[h].deleted = true;
                        plan.push(A::DelFunc(h));
                        if hs[h].imp && r.chance(1, 2) {
                            let later: Vec<usize> = (0..hs.len()).filter(|x| hs[*x].sp == Sp::F && hs[*x].imp && !hs[*x].deleted && hs[*x].id != u32::MAX && hs[*x].id > hs[h].id).collect();
                            if !later.is_empty() {
                                let x = *r.pick(&later);
                                let nm = format!("renamed{}", renames.len());
                                renames.push((x, nm.clone()));
                                plan.push(A::Rename(x, nm));
                            }
                        }
                    }
                }
                10 => {
                    // an export added earlier is deleted and its name given to another item of the same kind
                    let cands: Vec<usize> = (0..export_uses.len()).filter(|i| !reexported.contains(&export_uses[*i].0)).collect();
                    if !cands.is_empty() {
                        let i = *r.pick(&cands);
                        let (name, old_h) = export_uses[i].clone();
                        let sp = hs[old_h].sp;
                        let pool: Vec<usize> = (0..hs.len()).filter(|h| hs[*h].sp == sp && !hs[*h].deleted).collect();
                        let h = *r.pick(&pool);
                        reexported.push(name.clone());
                        plan.push(A::DelExport(name.clone()));
                        plan.push(if sp == Sp::F { A::ExportF(h, name.clone()) } else { A::ExportM(h, name.clone()) });
                        export_uses[i] = (name, h);
                    }
                }
                11 => {
                    // `replace_import_in_module` on a parsed function import that no earlier step renamed: the id keeps designating
                    // "that function", which is now the built one, named after the import's field
                    let cands: Vec<usize> = (0..hs.len())
                        .filter(|h| hs[*h].sp == Sp::F && hs[*h].imp && !hs[*h].deleted && hs[*h].id != u32::MAX && base_imp_pos.contains_key(h)
                            && !renames.iter().any(|(x, _)| x == h))
                        .collect();
                    if !cands.is_empty() {
                        let h = *r.pick(&cands);
                        let u = uid();
                        let old = hs[h].uid;
                        let mut body: Vec<String> = vec![format!("i32.const:{}", FMARK + u as i32), "drop".into()];
                        if r.chance(1, 2) {
                            body.push("nop".into());
                        }
                        if r.chance(1, 3) {
                            body.extend(["loop".to_string(), "end".into()]);
                        }
                        // the replacement may declare locals of its own, runs of one type included
                        let mut locals: Vec<usize> = vec![];
                        let mut last = r.below(TYS.len());
                        for _ in 0..r.below(4) {
                            if !r.chance(2, 3) {
                                last = r.below(TYS.len());
                            }
                            locals.push(last);
                        }
                        builts.push(Built { uid: u, params: vec![], results: vec![], locals, body, name: Some(format!("i{old}")) });
                        plan.push(A::Replace(builts.len() - 1, h, base_imp_pos[&h]));
                        // the parsed name of the import goes with the import entry
                        base_fnames.retain(|(x, _)| *x != old);
                        hs[h].uid = u;
                        hs[h].imp = false;
                        replaced.push(h);
                    }
                }
                _ => {
                    let fs: Vec<usize> = (0..hs.len()).filter(|h| hs[*h].sp == Sp::F && !hs[*h].deleted && !replaced.contains(h)).collect();
                    // naming an import that sits behind a deleted import is where positions and ids part
                    let behind: Vec<usize> = fs
                        .iter()
                        .cloned()
                        .filter(|h| hs[*h].imp && hs[*h].id != u32::MAX && (0..hs.len()).any(|d| hs[d].sp == Sp::F && hs[d].deleted && hs[d].imp && hs[d].id < hs[*h].id))
                        .collect();
                    // naming an import added in this history, with further imports added behind it: until the next encode its id lies
                    // behind the local functions, and its rank among the function imports is not its id (finding F38)
                    let added_imps: Vec<usize> = fs.iter().cloned().filter(|h| hs[*h].imp && hs[*h].id == u32::MAX).collect();
                    let h = if added_imps.len() >= 2 && r.chance(1, 2) {
                        added_imps[r.below(added_imps.len() - 1)]
                    } else if !behind.is_empty() && r.chance(2, 3) {
                        *r.pick(&behind)
                    } else {
                        *r.pick(&fs)
                    };
                    let nm = format!("renamed{}", renames.len());
                    renames.push((h, nm.clone()));
                    plan.push(A::Rename(h, nm));
                }
            }
            // handles of things that will exist after this step (so that later steps can refer to them)
            match if plan.len() > plan_len_before { plan.last() } else { None } {
                Some(A::Build(b)) => hs.push(Handle { sp: Sp::F, id: u32::MAX, uid: builts[*b].uid, imp: false, deleted: false }),
                Some(A::Mem(m)) => hs.push(Handle { sp: Sp::M, id: u32::MAX, uid: amems[*m].uid, imp: amems[*m].imported, deleted: false }),
                Some(A::ImpFunc(u)) => hs.push(Handle { sp: Sp::F, id: u32::MAX, uid: *u, imp: true, deleted: false }),
                Some(A::ImpGlobal(u, t)) => {
                    hs.push(Handle { sp: Sp::G, id: u32::MAX, uid: *u, imp: true, deleted: false });
                    gimports.push((hs.len() - 1, *t));
                }
                _ => {}
            }
        }
        // ------------------------------------------------------------ run it on the crate
        let mut hs_run = hs.clone();
        let handle_of = |hs: &[Handle], u: u32| hs.iter().position(|h| h.uid == u).unwrap();
        let mut ret_ids: Vec<String> = vec![];
        let mut data_ids: Vec<u32> = vec![];
        let res = guarded(|| {
            let mut m = Module::parse(&bytes, false).expect("parse");
            for a in &plan {
                match a {
                    A::Build(b) => {
                        let b = &builts[*b];
                        let ps: Vec<DataType> = b.params.iter().map(|t| NUM[*t].1.clone()).collect();
                        let rs: Vec<DataType> = b.results.iter().map(|t| NUM[*t].1.clone()).collect();
                        let mut fb = FunctionBuilder::new(&ps, &rs);
                        if let Some(n) = &b.name {
                            fb.set_name(n.clone());
                        }
                        for (k, l) in b.locals.iter().enumerate() {
                            let id = fb.add_local(TYS[*l].dt.clone());
                            assert_eq!(*id as usize, b.params.len() + k, "harness: local index");
                        }
                        for t in &b.body {
                            fb.inject(op_of_tok(t));
                        }
                        let id = fb.finish_module(&mut m);
                        let h = handle_of(&hs_run, b.uid);
                        hs_run[h].id = *id;
                        ret_ids.push(format!("F{}", *id));
                    }
                    A::Global(g) => {
                        let g = &aglobals[*g];
                        let id = m.add_global(init_expr(&g.init, &hs_run), g.ty.dt(), g.mutable, false);
                        ret_ids.push(format!("G{}", *id));
                        // the witness function reads the new global through the returned id
                        let mut fb = FunctionBuilder::new(&[], &[]);
                        fb.inject(Operator::I32Const { value: FMARK + g.witness as i32 });
                        fb.inject(Operator::Drop);
                        fb.inject(Operator::GlobalGet { global_index: *id });
                        fb.inject(Operator::Drop);
                        let wid = fb.finish_module(&mut m);
                        ret_ids.push(format!("F{}", *wid));
                    }
                    A::ModInit(k) => {
                        let (h, init) = &reinit[*k];
                        m.mod_global_init_expr(GlobalID(hs_run[*h].id), init_expr(init, &hs_run));
                    }
                    A::Data(d) => {
                        let d = &adatas[*d];
                        let kind = match &d.active {
                            None => DataSegmentKind::Passive,
                            Some((mh, off)) => DataSegmentKind::Active { memory_index: hs_run[*mh].id, offset_expr: init_expr(off, &hs_run) },
                        };
                        let id = m.add_data(DataSegment { kind, data: d.bytes.clone(), tag: None });
                        data_ids.push(*id);
                    }
                    A::Mem(k) => {
                        let am = &amems[*k];
                        let ty = wasmparser::MemoryType { memory64: false, shared: am.shared, initial: (am.uid + 1) as u64, maximum: am.maximum, page_size_log2: None };
                        let id = if am.imported {
                            m.add_import_memory("env".to_string(), format!("i{}", am.uid), ty).0
                        } else {
                            m.add_local_memory(ty)
                        };
                        let h = handle_of(&hs_run, am.uid);
                        hs_run[h].id = *id;
                        ret_ids.push(format!("M{}", *id));
                    }
                    A::ExportF(h, name) => m.exports.add_export_func(name.clone(), hs_run[*h].id, None),
                    A::ExportM(h, name) => m.exports.add_export_mem(name.clone(), hs_run[*h].id, None),
                    A::ImpFunc(u) => {
                        let ty = m.types.add_func_type(&[], &[], None);
                        let (id, _) = m.add_import_func("env".to_string(), format!("i{u}"), ty);
                        let h = handle_of(&hs_run, *u);
                        hs_run[h].id = *id;
                        ret_ids.push(format!("F{}", *id));
                    }
                    A::ImpGlobal(u, t) => {
                        let (id, _) = m.add_imported_global("env".to_string(), format!("i{u}"), NUM[*t].1.clone(), false, false);
                        let h = handle_of(&hs_run, *u);
                        hs_run[h].id = *id;
                        ret_ids.push(format!("G{}", *id));
                    }
                    A::DelFunc(h) => m.delete_func(FunctionID(hs_run[*h].id)),
                    A::Rename(h, name) => {
                        // a *parsed* import can also be named through the import table's own entry point, which takes the function id
                        // (its rank among the function imports, deleted ones included, is its id until the next encode)
                        if hs[*h].imp && hs[*h].id != u32::MAX && name.len() % 2 == 0 {
                            m.imports.set_fn_name(name.clone(), FunctionID(hs_run[*h].id));
                        } else {
                            m.set_fn_name(FunctionID(hs_run[*h].id), name.clone());
                        }
                    }
                    A::Replace(b, _, imp_id) => {
                        let b = &builts[*b];
                        let mut fb = FunctionBuilder::new(&[], &[]);
                        for (k, l) in b.locals.iter().enumerate() {
                            let id = fb.add_local(TYS[*l].dt.clone());
                            assert_eq!(*id as usize, k, "harness: local index");
                        }
                        for t in &b.body {
                            fb.inject(op_of_tok(t));
                        }
                        fb.replace_import_in_module(&mut m, wirm::ir::id::ImportsID(*imp_id));
                    }
                    A::DelExport(name) => {
                        let id = m.exports.get_export_id_by_name(name.clone()).expect("export to delete exists");
                        m.exports.delete(id);
                    }
                }
            }
            let first = m.encode();
            // a second encoding without edits (its references are another matter: finding F4; its *names* are compared below)
            let second = guarded(|| m.encode()).ok();
            (first, second)
        });
        // ------------------------------------------------------------ case line for the model
        for a in &plan {
            ops_model.push(match a {
                A::Build(b) => format!("alf:{}:-:{}", builts[*b].uid, builts[*b].name.clone().unwrap_or("-".into())),
                A::Global(g) => format!("ag:{}:-;alf:{}:-:-", aglobals[*g].uid, aglobals[*g].witness),
                A::ModInit(_) => "nop".into(),
                A::Data(_) => "nop".into(),
                A::Mem(k) => format!("{}:{}", if amems[*k].imported { "aim" } else { "alm" }, amems[*k].uid),
                A::ExportF(h, n) => format!("nop:{n}=F{}", hs_run[*h].id),
                A::ExportM(h, n) => format!("nop:{n}=M{}", hs_run[*h].id),
                A::ImpFunc(u) => format!("aif:{u}"),
                A::ImpGlobal(u, _) => format!("aig:{u}"),
                A::DelFunc(h) => format!("df:{}", hs_run[*h].id),
                A::Rename(h, n) => format!("sfn:{}:{n}", hs_run[*h].id),
                A::DelExport(n) => format!("nop:del-{n}"),
                A::Replace(b, _, imp_id) => format!("rin:{imp_id}:{}:{}", builts[*b].uid, builts[*b].name.clone().unwrap_or("-".into())),
            });
        }
        ctx.count(&format!("nops={}", plan.len()));
        for a in &plan {
            ctx.count(match a {
                A::Build(_) => "op=build",
                A::Global(_) => "op=add_global",
                A::ModInit(_) => "op=mod_global_init",
                A::Data(_) => "op=add_data",
                A::Mem(_) => "op=add_memory",
                A::ExportF(..) | A::ExportM(..) => "op=add_export",
                A::ImpFunc(_) => "op=add_import_func",
                A::ImpGlobal(..) => "op=add_imported_global",
                A::DelFunc(_) => "op=delete_func",
                A::Rename(..) => "op=set_fn_name",
                A::DelExport(..) => "op=delete_export",
                A::Replace(..) => "op=replace_import",
            });
        }
        let show = |v: &Vec<String>| if v.is_empty() { "-".to_string() } else { v.join(",") };
        ctx.case_line(&format!(
            "adds {case} IMP={} F={} G={} M={} FN={} LN={} GN={} OPS={}",
            show(&imp_line),
            show(&f_items),
            show(&g_items),
            show(&m_items),
            show(&base_fnames.iter().map(|(u, n)| format!("{u}:{n}")).collect()),
            show(&base_lnames.iter().map(|(_, fi, li, n)| format!("{fi}.{li}:{n}")).collect()),
            show(&base_gnames.iter().map(|(_, gi, n)| format!("{gi}:{n}")).collect()),
            if ops_model.is_empty() { "-".to_string() } else { ops_model.join(";") }
        ));
        let out = match res {
            Err(p) => {
                ctx.impl_line(&format!("adds {case} PANIC"));
                // (before the repair of F38, `set_fn_name` tripped an assertion on some ids after `add_import_func`: finding F28, gone with it)
                ctx.fail(fam, case, "C12,C30,C29", "unexpected-panic", &p);
                continue;
            }
            Ok(b) => b,
        };
        let (out, second) = out;
        let o = match decode(&out) {
            Ok(o) => o,
            Err(e) => {
                ctx.impl_line(&format!("adds {case} UNDECODABLE"));
                ctx.fail(fam, case, "C12,C30,C29", "output-undecodable", &e);
                continue;
            }
        };
        let fs = fspace(&o);
        // globals of the output: imports by name, locals located through the functions that read them
        let mut gs: Vec<String> = o.gimports.clone();
        let nlocal_g = o.globals.len();
        gs.extend(std::iter::repeat("?".to_string()).take(nlocal_g));
        let body_of = |u: u32| -> Option<&(Vec<String>, Vec<String>)> {
            let p = fs.iter().position(|x| *x == u.to_string())?;
            o.bodies.get(p.checked_sub(o.fimports.len())?)
        };
        // base globals: the reader function lists them in handle order
        if let Some((_, toks)) = body_of(glob_reader_uid) {
            let reads: Vec<u32> = toks.iter().filter_map(|t| t.strip_prefix("global.get:").and_then(|x| x.parse().ok())).collect();
            let ghandles: Vec<&Handle> = hs.iter().filter(|h| h.sp == Sp::G && h.id != u32::MAX).collect();
            for (k, h) in ghandles.iter().enumerate() {
                if let Some(ix) = reads.get(k) {
                    if let Some(slot) = gs.get_mut(*ix as usize) {
                        if slot == "?" {
                            *slot = h.uid.to_string();
                        }
                    }
                }
            }
        }
        for g in &aglobals {
            if let Some((_, toks)) = body_of(g.witness) {
                if let Some(ix) = toks.iter().find_map(|t| t.strip_prefix("global.get:").and_then(|x| x.parse::<usize>().ok())) {
                    if let Some(slot) = gs.get_mut(ix) {
                        *slot = g.uid.to_string();
                    }
                }
            }
        }
        let mut ms: Vec<String> = o.mimports.iter().map(|(u, _)| u.clone()).collect();
        ms.extend(o.memories.iter().map(|m| (m.initial as i64 - 1).to_string()));
        ctx.impl_line(&format!("adds {case} ret={}", show(&ret_ids)));
        ctx.impl_line(&format!("adds {case} F={}", show(&fs)));
        ctx.impl_line(&format!("adds {case} G={}", show(&gs)));
        ctx.impl_line(&format!("adds {case} M={}", show(&ms)));
        ctx.impl_line(&format!("adds {case} fnames={}", show(&o.fnames.iter().map(|(i, n)| format!("{}:{n}", fs.get(*i as usize).cloned().unwrap_or("?".into()))).collect())));
        ctx.impl_line(&format!("adds {case} lnames={}", show(&o.lnames.iter().map(|((f, l), n)| format!("{}.{l}:{n}", fs.get(*f as usize).cloned().unwrap_or("?".into()))).collect())));
        ctx.impl_line(&format!("adds {case} gnames={}", show(&o.gnames.iter().map(|(i, n)| format!("{}:{n}", gs.get(*i as usize).cloned().unwrap_or("?".into()))).collect())));

        // ------------------------------------------------------------ oracle
        let mut fails: Vec<(&str, String, String)> = vec![];
        // C29 on a second encoding: the order of the functions may differ from the first (finding F4), so names are compared by the entity
        // they sit on - a function is identified by the marker constant its body starts with (imports by their import name)
        match second.as_ref().map(|b| decode(b)) {
            Some(Ok(o2)) => {
                ctx.count("second-encode-names-compared");
                let by_entity = |o: &Out| -> (Vec<(String, String)>, Vec<(String, u32, String)>) {
                    let fs = fspace(o);
                    let ent = |i: u32| fs.get(i as usize).cloned().unwrap_or("?".into());
                    let mut f: Vec<(String, String)> = o.fnames.iter().map(|(i, n)| (ent(*i), n.clone())).collect();
                    let mut l: Vec<(String, u32, String)> = o.lnames.iter().map(|((i, k), n)| (ent(*i), *k, n.clone())).collect();
                    f.sort();
                    l.sort();
                    (f, l)
                };
                let ((f1, l1), (f2, l2)) = (by_entity(&o), by_entity(&o2));
                if f1 != f2 {
                    fails.push(("C29,C05", "function-names-on-other-functions-in-second-encode".into(), format!("first {f1:?} second {f2:?}")));
                }
                if l1 != l2 {
                    fails.push(("C29,C05", "local-names-on-other-functions-in-second-encode".into(), format!("first {l1:?} second {l2:?}")));
                }
            }
            // a second encoding that panics or cannot be decoded after re-indexing is finding F4 (C05's check reports it)
            _ => ctx.count("second-encode-not-comparable"),
        }
        let resolve_handle = |h: usize| -> String { format!("{}{}", spc(hs[h].sp), hs[h].uid) };
        let at = |sp: Sp, ix: u32| -> String {
            let v = match sp {
                Sp::F => &fs,
                Sp::G => &gs,
                Sp::M => &ms,
            };
            format!("{}{}", spc(sp), v.get(ix as usize).cloned().unwrap_or("?".into()))
        };
        // C12
        for b in &builts {
            // a built function that replaced an import can be deleted again by a later step
            if hs.iter().any(|h| h.uid == b.uid && h.deleted) {
                if fs.iter().any(|x| *x == b.uid.to_string()) {
                    fails.push(("C09,C12", "deleted-built-function-present".into(), format!("uid {}", b.uid)));
                }
                continue;
            }
            let Some(pos) = fs.iter().position(|x| *x == b.uid.to_string()) else {
                fails.push(("C12", "built-function-missing".into(), format!("uid {}", b.uid)));
                continue;
            };
            let li = pos - o.fimports.len();
            let (locals, toks) = &o.bodies[li];
            let ty = o.func_types.get(li).and_then(|t| o.types.get(*t as usize));
            let want_p: Vec<String> = b.params.iter().map(|t| NUM[*t].0.to_string()).collect();
            let want_r: Vec<String> = b.results.iter().map(|t| NUM[*t].0.to_string()).collect();
            if ty != Some(&(want_p.clone(), want_r.clone())) {
                fails.push(("C12", "built-function-wrong-signature".into(), format!("want {want_p:?}->{want_r:?} got {ty:?}")));
            }
            let want_l: Vec<String> = b.locals.iter().map(|l| format!("t{}", TYS[*l].code)).collect();
            let is_replacement = plan.iter().any(|a| matches!(a, A::Replace(k, _, _) if builts[*k].uid == b.uid));
            if *locals != want_l {
                fails.push((if is_replacement { "C10,C12,C14" } else { "C12,C14" }, "built-function-wrong-locals".into(), format!("want {want_l:?} got {locals:?}")));
            }
            let mut want_b = b.body.clone();
            want_b.push("end".into());
            if *toks != want_b {
                fails.push((if is_replacement { "C10,C12" } else { "C12" }, "built-function-wrong-body".into(), format!("want {want_b:?} got {toks:?}")));
            }
            let got_name = o.fnames.get(&(pos as u32));
            let renamed = renames.iter().rev().find(|(h, _)| hs[*h].uid == b.uid).map(|x| &x.1);
            let want_name = renamed.or(b.name.as_ref());
            if got_name != want_name {
                fails.push(("C12,C29", "built-function-wrong-name".into(), format!("want {want_name:?} got {got_name:?}")));
            }
            // the name must not also sit on another function
            if let Some(n) = want_name {
                if o.fnames.iter().filter(|(_, x)| *x == n).count() > 1 {
                    fails.push(("C12,C29", "built-function-name-duplicated".into(), n.clone()));
                }
            }
        }
        // exports made through returned / held ids designate the right entity (C12: returned id; C30: exports)
        for (name, h) in &export_uses {
            match o.exports.iter().find(|e| e.0 == *name) {
                None => fails.push(("C30", "added-export-missing".into(), name.clone())),
                Some((_, k, ix)) => {
                    let sp = hs[*h].sp;
                    if *k != spc(sp) || at(sp, *ix) != resolve_handle(*h) {
                        let p = if builts.iter().any(|b| b.uid == hs[*h].uid) { "C12,C30" } else { "C30" };
                        fails.push((p, "added-export-wrong-target".into(), format!("{name}: want {} got {k}{}", resolve_handle(*h), at(sp, *ix))));
                    }
                }
            }
        }
        // C30: added globals
        let const_resolved = |toks: &Vec<String>| -> Vec<String> {
            toks.iter()
                .map(|t| {
                    if let Some(x) = t.strip_prefix("global.get:") {
                        format!("global.get:{}", at(Sp::G, x.parse().unwrap_or(u32::MAX)))
                    } else if let Some(x) = t.strip_prefix("ref.func:") {
                        format!("ref.func:{}", at(Sp::F, x.parse().unwrap_or(u32::MAX)))
                    } else {
                        t.clone()
                    }
                })
                .collect()
        };
        for g in &aglobals {
            let Some(pos) = gs.iter().position(|x| *x == g.uid.to_string()) else {
                fails.push(("C30", "added-global-not-designated-by-returned-id".into(), format!("uid {}", g.uid)));
                continue;
            };
            let Some((ty, mutable, init)) = pos.checked_sub(o.gimports.len()).and_then(|p| o.globals.get(p)) else {
                fails.push(("C30", "added-global-not-designated-by-returned-id".into(), format!("uid {} is an import", g.uid)));
                continue;
            };
            if *ty != g.ty.canon() || *mutable != g.mutable {
                fails.push(("C30", "added-global-wrong-type".into(), format!("want {} mut={} got {ty} mut={mutable}", g.ty.canon(), g.mutable)));
            }
            let want = vec![init_canon(&g.init, &resolve_handle)];
            if const_resolved(init) != want {
                fails.push(("C30", "added-global-wrong-initialiser".into(), format!("want {want:?} got {:?}", const_resolved(init))));
            }
        }
        // C30: replaced initialisers change only that initialiser
        for h in &base_globals {
            let u = hs[*h].uid;
            let Some(pos) = gs.iter().position(|x| *x == u.to_string()) else {
                fails.push(("C30", "base-global-lost".into(), format!("uid {u}")));
                continue;
            };
            let Some((ty, mutable, init)) = pos.checked_sub(o.gimports.len()).and_then(|p| o.globals.get(p)) else { continue };
            let last = reinit.iter().rev().find(|(hh, _)| hh == h);
            let want = match last {
                Some((_, i)) => vec![init_canon(i, &resolve_handle)],
                None => vec![format!("i32.const:{}", GMARK + u as i32)],
            };
            if const_resolved(init) != want {
                fails.push(("C30", if last.is_some() { "replaced-initialiser-wrong".into() } else { "untouched-initialiser-changed".into() }, format!("global {u}: want {want:?} got {:?}", const_resolved(init))));
            }
            if ty != "i32" || !*mutable {
                fails.push(("C30", "base-global-type-changed".into(), format!("{ty} {mutable}")));
            }
        }
        // C30: memories
        for am in &amems {
            let found = if am.imported {
                o.mimports.iter().find(|(u, _)| *u == am.uid.to_string()).map(|x| x.1)
            } else {
                o.memories.iter().find(|m| m.initial == (am.uid + 1) as u64).cloned()
            };
            match found {
                None => fails.push(("C30", "added-memory-missing".into(), format!("uid {}", am.uid))),
                Some(m) => {
                    if m.initial != (am.uid + 1) as u64 || m.maximum != am.maximum || m.shared != am.shared || m.memory64 {
                        fails.push(("C30", "added-memory-wrong-type".into(), format!("want max={:?} shared={} got {m:?}", am.maximum, am.shared)));
                    }
                }
            }
        }
        // C30: data segments: the base ones first, then the added ones in order, exact
        if o.datas.len() != base_ndata + adatas.len() {
            fails.push(("C30", "data-segment-count".into(), format!("want {} got {}", base_ndata + adatas.len(), o.datas.len())));
        } else {
            for (k, d) in adatas.iter().enumerate() {
                if data_ids.get(k).map(|x| *x as usize) != Some(base_ndata + k) {
                    fails.push(("C30", "added-data-wrong-returned-id".into(), format!("segment {k}: {:?}", data_ids.get(k))));
                }
                let (kind, bytes) = &o.datas[base_ndata + k];
                if *bytes != d.bytes {
                    fails.push(("C30", "added-data-wrong-bytes".into(), format!("segment {k}")));
                }
                match (&d.active, kind) {
                    (None, None) => {}
                    (Some((mh, off)), Some((mix, otoks))) => {
                        if at(Sp::M, *mix) != resolve_handle(*mh) {
                            fails.push(("C30", "added-data-wrong-memory".into(), format!("want {} got {}", resolve_handle(*mh), at(Sp::M, *mix))));
                        }
                        let want = vec![init_canon(off, &resolve_handle)];
                        if const_resolved(otoks) != want {
                            fails.push(("C30", "added-data-wrong-offset".into(), format!("want {want:?} got {:?}", const_resolved(otoks))));
                        }
                    }
                    _ => fails.push(("C30", "added-data-wrong-kind".into(), format!("segment {k}"))),
                }
            }
        }
        // C29: every name sits on the entity it was given to
        let mut want_fnames: BTreeMap<u32, String> = base_fnames.iter().cloned().collect();
        for b in &builts {
            if let Some(n) = &b.name {
                want_fnames.insert(b.uid, n.clone());
            }
        }
        for (h, n) in &renames {
            want_fnames.insert(hs[*h].uid, n.clone());
        }
        for h in hs.iter().filter(|h| h.deleted) {
            want_fnames.remove(&h.uid);
        }
        let got_fnames: BTreeMap<String, String> = o.fnames.iter().map(|(i, n)| (fs.get(*i as usize).cloned().unwrap_or("?".into()), n.clone())).collect();
        let want_f: BTreeMap<String, String> = want_fnames.iter().map(|(u, n)| (u.to_string(), n.clone())).collect();
        if got_fnames != want_f {
            fails.push(("C29", "function-name-on-wrong-function".into(), format!("want {want_f:?} got {got_fnames:?}")));
        }
        let deleted_uids: Vec<u32> = hs.iter().filter(|h| h.deleted).map(|h| h.uid).collect();
        let want_l: BTreeMap<(String, u32), String> = base_lnames.iter().filter(|x| !deleted_uids.contains(&x.0)).map(|(u, _, l, n)| ((u.to_string(), *l), n.clone())).collect();
        let got_l: BTreeMap<(String, u32), String> = o.lnames.iter().map(|((f, l), n)| ((fs.get(*f as usize).cloned().unwrap_or("?".into()), *l), n.clone())).collect();
        if want_l != got_l {
            fails.push(("C29", "local-name-on-wrong-entity".into(), format!("want {want_l:?} got {got_l:?}")));
        }
        let want_g: BTreeMap<String, String> = base_gnames.iter().map(|(u, _, n)| (u.to_string(), n.clone())).collect();
        let got_g: BTreeMap<String, String> = o.gnames.iter().map(|(i, n)| (gs.get(*i as usize).cloned().unwrap_or("?".into()), n.clone())).collect();
        if want_g != got_g {
            fails.push(("C29", "global-name-on-wrong-entity".into(), format!("want {want_g:?} got {got_g:?}")));
        }
        // the output validates (reference-typed globals need the features)
        if let Err(e) = wasmparser::Validator::new_with_features(wasmparser::WasmFeatures::all()).validate_all(&out) {
            fails.push(("C12,C30", "output-invalid".into(), e.to_string()));
        }
        if fails.is_empty() {
            ctx.ok(fam, case);
        } else {
            let mut seen = std::collections::HashSet::new();
            for (p, s, d) in fails {
                if seen.insert(s.clone()) {
                    ctx.fail(fam, case, p, &s, &d);
                }
            }
        }
    }
}

fn op_of_tok<'a>(t: &str) -> Operator<'a> {
    let mut it = t.splitn(2, ':');
    let head = it.next().unwrap();
    let arg = it.next();
    match head {
        "nop" => Operator::Nop,
        "drop" => Operator::Drop,
        "i32.const" => Operator::I32Const { value: arg.unwrap().parse().unwrap() },
        "i64.const" => Operator::I64Const { value: arg.unwrap().parse().unwrap() },
        "f32.const" => Operator::F32Const { value: wasmparser::Ieee32::from(f32::from_bits(arg.unwrap().parse().unwrap())) },
        "f64.const" => Operator::F64Const { value: wasmparser::Ieee64::from(f64::from_bits(arg.unwrap().parse().unwrap())) },
        "local.get" => Operator::LocalGet { local_index: arg.unwrap().parse().unwrap() },
        "block" => Operator::Block { blockty: wasmparser::BlockType::Empty },
        "loop" => Operator::Loop { blockty: wasmparser::BlockType::Empty },
        "if" => Operator::If { blockty: wasmparser::BlockType::Empty },
        "end" => Operator::End,
        x => panic!("harness: no operator for token {x}"),
    }
}
