//! value types used by generators, with a stable numeric code shared with the Lean driver
use wirm::DataType;

pub struct Ty {
    pub code: u32,
    pub wat: &'static str,
    pub dt: DataType,
}

pub const TYS: &[Ty] = &[
    Ty { code: 1, wat: "i32", dt: DataType::I32 },
    Ty { code: 2, wat: "i64", dt: DataType::I64 },
    Ty { code: 3, wat: "f32", dt: DataType::F32 },
    Ty { code: 4, wat: "f64", dt: DataType::F64 },
    Ty { code: 5, wat: "v128", dt: DataType::V128 },
    Ty { code: 6, wat: "funcref", dt: DataType::FuncRefNull },
    Ty { code: 7, wat: "externref", dt: DataType::ExternRefNull },
    Ty { code: 8, wat: "anyref", dt: DataType::AnyNull },
    Ty { code: 9, wat: "eqref", dt: DataType::EqNull },
    Ty { code: 10, wat: "i31ref", dt: DataType::I31Null },
    Ty { code: 11, wat: "structref", dt: DataType::StructNull },
    Ty { code: 12, wat: "arrayref", dt: DataType::ArrayNull },
    Ty { code: 13, wat: "nullref", dt: DataType::NoneNull },
    Ty { code: 14, wat: "nullfuncref", dt: DataType::NoFuncNull },
    Ty { code: 15, wat: "nullexternref", dt: DataType::NoExternNull },
    Ty { code: 16, wat: "exnref", dt: DataType::ExnNull },
    Ty { code: 17, wat: "nullexnref", dt: DataType::NoExnNull },
    // non-nullable twins (distinct types that differ from the above only in nullability)
    Ty { code: 106, wat: "(ref func)", dt: DataType::FuncRef },
    Ty { code: 107, wat: "(ref extern)", dt: DataType::ExternRef },
    Ty { code: 108, wat: "(ref any)", dt: DataType::Any },
    Ty { code: 109, wat: "(ref eq)", dt: DataType::Eq },
    Ty { code: 110, wat: "(ref i31)", dt: DataType::I31 },
    Ty { code: 111, wat: "(ref struct)", dt: DataType::Struct },
    Ty { code: 112, wat: "(ref array)", dt: DataType::Array },
    Ty { code: 113, wat: "(ref none)", dt: DataType::None },
    Ty { code: 114, wat: "(ref nofunc)", dt: DataType::NoFunc },
    Ty { code: 115, wat: "(ref noextern)", dt: DataType::NoExtern },
    Ty { code: 116, wat: "(ref exn)", dt: DataType::Exn },
    Ty { code: 117, wat: "(ref noexn)", dt: DataType::NoExn },
];

/// the type that differs from `i` only in nullability
pub fn twin(i: usize) -> Option<usize> {
    let c = TYS[i].code;
    let want = if c >= 106 { c - 100 } else if c >= 6 { c + 100 } else { return None };
    TYS.iter().position(|t| t.code == want)
}

pub fn code_of_valtype(v: wasmparser::ValType) -> u32 {
    use wasmparser::{AbstractHeapType as A, HeapType, ValType as V};
    match v {
        V::I32 => 1,
        V::I64 => 2,
        V::F32 => 3,
        V::F64 => 4,
        V::V128 => 5,
        V::Ref(r) => {
            let base = match r.heap_type() {
                HeapType::Abstract { ty, shared: false } => match ty {
                    A::Func => 6,
                    A::Extern => 7,
                    A::Any => 8,
                    A::Eq => 9,
                    A::I31 => 10,
                    A::Struct => 11,
                    A::Array => 12,
                    A::None => 13,
                    A::NoFunc => 14,
                    A::NoExtern => 15,
                    A::Exn => 16,
                    A::NoExn => 17,
                    _ => 900,
                },
                _ => 901,
            };
            if r.is_nullable() {
                base
            } else {
                base + 100
            }
        }
    }
}

/// code of a wirm `DataType` (read off the IR directly, not through any of wirm's conversions)
pub fn code_of_datatype(d: &DataType) -> u32 {
    TYS.iter().find(|t| t.dt == *d).map(|t| t.code).unwrap_or(999)
}
