//! family `custom` (C28): custom sections through parse/encode and through the edit API
use crate::ctx::{guarded, Ctx};
use crate::rng::Rng;
use wirm::ir::id::CustomSectionID;
use wirm::ir::types::CustomSection;
use wirm::Module;

pub fn hex(b: &[u8]) -> String {
    b.iter().map(|x| format!("{x:02x}")).collect()
}

fn leb(mut n: usize, out: &mut Vec<u8>) {
    loop {
        let b = (n & 0x7f) as u8;
        n >>= 7;
        if n == 0 {
            out.push(b);
            break;
        }
        out.push(b | 0x80);
    }
}

/// split a module binary into its raw sections `(id, contents)`
pub fn raw_sections(wasm: &[u8]) -> Vec<(u8, Vec<u8>)> {
    let mut v = vec![];
    let mut p = 8;
    while p < wasm.len() {
        let id = wasm[p];
        p += 1;
        let mut size = 0usize;
        let mut shift = 0;
        loop {
            let b = wasm[p];
            p += 1;
            size |= ((b & 0x7f) as usize) << shift;
            shift += 7;
            if b & 0x80 == 0 {
                break;
            }
        }
        v.push((id, wasm[p..p + size].to_vec()));
        p += size;
    }
    v
}

pub fn assemble(secs: &[(u8, Vec<u8>)]) -> Vec<u8> {
    let mut out = vec![0x00, 0x61, 0x73, 0x6d, 0x01, 0x00, 0x00, 0x00];
    for (id, c) in secs {
        out.push(*id);
        leb(c.len(), &mut out);
        out.extend_from_slice(c);
    }
    out
}

fn custom_raw(name: &[u8], data: &[u8]) -> (u8, Vec<u8>) {
    let mut c = vec![];
    leb(name.len(), &mut c);
    c.extend_from_slice(name);
    c.extend_from_slice(data);
    (0, c)
}

/// (name, data) of every custom section, in order
pub fn customs_of(wasm: &[u8]) -> Vec<(Vec<u8>, Vec<u8>)> {
    let mut v = vec![];
    for (id, c) in raw_sections(wasm) {
        if id == 0 {
            let mut p = 0;
            let mut n = 0usize;
            let mut shift = 0;
            loop {
                let b = c[p];
                p += 1;
                n |= ((b & 0x7f) as usize) << shift;
                shift += 7;
                if b & 0x80 == 0 {
                    break;
                }
            }
            v.push((c[p..p + n].to_vec(), c[p + n..].to_vec()));
        }
    }
    v
}

/// the module with every custom section removed (what "nothing else changes" is judged on)
pub fn strip_customs(wasm: &[u8]) -> Vec<u8> {
    let s: Vec<(u8, Vec<u8>)> = raw_sections(wasm).into_iter().filter(|(id, _)| *id != 0).collect();
    assemble(&s)
}

const BASES: &[&str] = &[
    "(module)",
    "(module (func))",
    "(module (type (func (param i32) (result i32))) (import \"e\" \"f\" (func (type 0))) (func $g (type 0) local.get 0) (export \"g\" (func $g)))",
    "(module (memory 1) (data (i32.const 0) \"abc\") (global $x (mut i32) (i32.const 5)) (func (result i32) global.get $x))",
    "(module (table 2 funcref) (func $a) (func $b) (elem (i32.const 0) $a $b) (start $a))",
    "(module (memory 1) (func (param $p i32) (local $l i64) i32.const 0 i32.load drop) (data \"xyz\"))",
];

const NAMES: &[&str] = &[
    "a", "meta", "producers", "", "target_features", "linking", "dylink.0", "x\u{e9}", "a",
    // names a tool-chain gives meaning to: to the crate they are custom sections like any other
    "reloc.CODE", "reloc.DATA", "metadata.code.branch_hint", "core", "coremodules", "sourceMappingURL", "external_debug_info", "linking",
];

/// a payload the way the tool-chain conventions lay it out (what `wasmparser::KnownCustom` recognises), for the names that have one
fn conventional_payload(name: &str) -> Option<Vec<u8>> {
    Some(match name {
        "producers" => producers_payload(),
        // version 2, then a symbol-table subsection with no symbols
        "linking" => vec![2, 8, 1, 0],
        // index of the section the relocations apply to, number of entries
        "reloc.CODE" => vec![3, 0],
        "reloc.DATA" => vec![5, 1, 5, 0, 0, 0],
        // one subsection: memory info (size, alignment, table size, table alignment)
        "dylink.0" => vec![1, 4, 0, 0, 0, 0],
        // one feature, prefix `+`
        "target_features" => vec![1, 0x2b, 4, b's', b'i', b'm', b'd'],
        // no functions with hints
        "metadata.code.branch_hint" => vec![0],
        _ => return None,
    })
}

fn producers_payload() -> Vec<u8> {
    // one field "language" with one (name, version) pair
    let mut d = vec![1u8];
    for s in ["language"] {
        d.push(s.len() as u8);
        d.extend_from_slice(s.as_bytes());
    }
    d.push(1);
    for s in ["Rust", "1.80"] {
        d.push(s.len() as u8);
        d.extend_from_slice(s.as_bytes());
    }
    d
}

fn gen_data(r: &mut Rng, name: &str) -> Vec<u8> {
    if name == "producers" {
        return producers_payload();
    }
    if r.chance(2, 3) {
        if let Some(d) = conventional_payload(name) {
            return d;
        }
    }
    let n = r.weighted(&[2, 3, 3, 2, 1]) * r.range(1, 3);
    (0..n).map(|_| r.next() as u8).collect()
}

pub fn run(ctx: &mut Ctx) {
    for case in 0..ctx.n {
        if !ctx.wants(case) {
            continue;
        }
        let mut r = Rng::new(ctx.seed, "custom", case);
        let base = BASES[r.below(BASES.len())];
        let core = wat::parse_str(base).unwrap();
        let mut secs = raw_sections(&core);
        // the `wat` crate emits a name section for `$identifiers`; keep it where it is
        let ncust = r.weighted(&[1, 3, 3, 2, 2]);
        let mut input_customs: Vec<(Vec<u8>, Vec<u8>)> = vec![];
        for _ in 0..ncust {
            let name = NAMES[r.below(NAMES.len())];
            let data = gen_data(&mut r, name);
            let pos = r.below(secs.len() + 1);
            secs.insert(pos, custom_raw(name.as_bytes(), &data));
        }
        let input = assemble(&secs);
        for (n, d) in customs_of(&input) {
            input_customs.push((n, d));
        }
        // edit history
        let nops = r.weighted(&[2, 2, 3, 3, 2, 2, 1]);
        #[derive(Clone)]
        enum Op {
            Add(String, Vec<u8>),
            Del(u32),
            Mod(u32, Vec<u8>),
            GetId(String),
        }
        let mut ops = vec![];
        let approx = input_customs.len() as u32 + 2;
        for _ in 0..nops {
            let op = match r.weighted(&[3, 3, 3, 2]) {
                0 => {
                    let name = NAMES[r.below(NAMES.len())];
                    Op::Add(name.to_string(), gen_data(&mut r, name))
                }
                1 => Op::Del(r.below(approx as usize + 1) as u32),
                2 => Op::Mod(r.below(approx as usize + 1) as u32, gen_data(&mut r, "m")),
                _ => Op::GetId(NAMES[r.below(NAMES.len())].to_string()),
            };
            ops.push(op);
        }
        let secs_s: Vec<String> = input_customs.iter().map(|(n, d)| format!("{}:{}", hex(n), hex(d))).collect();
        let ops_s: Vec<String> = ops
            .iter()
            .map(|o| match o {
                Op::Add(n, d) => format!("add:{}:{}", hex(n.as_bytes()), hex(d)),
                Op::Del(i) => format!("del:{i}"),
                Op::Mod(i, d) => format!("mod:{i}:{}", hex(d)),
                Op::GetId(n) => format!("getid:{}", hex(n.as_bytes())),
            })
            .collect();
        let join = |v: &[String], sep: &str| if v.is_empty() { "-".to_string() } else { v.join(sep) };
        ctx.case_line(&format!("custom {case} secs={} ops={}", join(&secs_s, ","), join(&ops_s, ";")));
        ctx.count(&format!("customs={}", input_customs.len()));
        ctx.count(&format!("ops={}", ops.len()));
        let valid_in = wasmparser::Validator::new_with_features(wasmparser::WasmFeatures::all()).validate_all(&input).is_ok();
        if !valid_in {
            panic!("generator produced an invalid module for case {case}");
        }
        let names_owned: Vec<String> = ops
            .iter()
            .filter_map(|o| if let Op::Add(n, _) = o { Some(n.clone()) } else { None })
            .collect();
        let res = guarded(|| {
            let mut m = Module::parse(&input, false).expect("parse");
            let mut outs: Vec<String> = vec![];
            let mut k = 0;
            for o in &ops {
                match o {
                    Op::Add(_, d) => {
                        let id = m.custom_sections.add(CustomSection::new(names_owned[k].as_str(), d.clone()));
                        k += 1;
                        outs.push(format!("i{}", *id));
                    }
                    Op::Del(i) => {
                        m.custom_sections.delete(CustomSectionID(*i));
                        outs.push("done".into());
                    }
                    Op::Mod(i, d) => match m.custom_sections.get_section_data_mut(CustomSectionID(*i)) {
                        Some(v) => {
                            v.clear();
                            v.extend_from_slice(d);
                            outs.push("done".into());
                        }
                        None => outs.push("none".into()),
                    },
                    Op::GetId(n) => match m.custom_sections.get_id(n.clone()) {
                        Some(id) => outs.push(format!("i{}", *id)),
                        None => outs.push("none".into()),
                    },
                }
            }
            (outs, m.encode())
        });
        match res {
            Err(p) => {
                ctx.impl_line(&format!("custom {case} PANIC"));
                ctx.fail("custom", case, "C28", "panic", &p);
            }
            Ok((outs, out)) => {
                let got: Vec<(Vec<u8>, Vec<u8>)> = customs_of(&out).into_iter().filter(|(n, _)| n != b"name").collect();
                let got_s: Vec<String> = got.iter().map(|(n, d)| format!("{}:{}", hex(n), hex(d))).collect();
                ctx.impl_line(&format!("custom {case} outs={}", join(&outs, ",")));
                ctx.impl_line(&format!("custom {case} final={}", join(&got_s, ",")));
                // ---- oracle: replay the edits on a plain vector of the input's custom sections
                let mut exp: Vec<(Vec<u8>, Vec<u8>)> = input_customs.iter().filter(|(n, _)| n != b"name").cloned().collect();
                let mut bad: Option<(&str, String)> = None;
                for (o, got_out) in ops.iter().zip(outs.iter()) {
                    match o {
                        Op::Add(n, d) => {
                            if *got_out != format!("i{}", exp.len()) {
                                bad = Some(("add-returned-wrong-id", format!("{got_out} vs i{}", exp.len())));
                            }
                            exp.push((n.as_bytes().to_vec(), d.clone()));
                        }
                        Op::Del(i) => {
                            if (*i as usize) < exp.len() {
                                exp.remove(*i as usize);
                            }
                        }
                        Op::Mod(i, d) => {
                            if (*i as usize) < exp.len() {
                                exp[*i as usize].1 = d.clone();
                            }
                        }
                        Op::GetId(n) => {
                            let e = exp.iter().position(|(x, _)| x == n.as_bytes());
                            let es = e.map_or("none".to_string(), |k| format!("i{k}"));
                            if *got_out != es {
                                bad = Some(("get-id-wrong", format!("{got_out} vs {es}")));
                            }
                        }
                    }
                }
                if got != exp {
                    bad = Some(("custom-sections-differ", format!("got {got_s:?}")));
                }
                // nothing else changes: text of the module without custom sections
                let a = wasmprinter::print_bytes(strip_customs(&input));
                let b = wasmprinter::print_bytes(strip_customs(&out));
                match (a, b) {
                    (Ok(a), Ok(b)) if a == b => {}
                    (a, b) => bad = Some(("rest-of-module-changed", format!("{:?} vs {:?}", a.map(|s| s.len()), b.map(|s| s.len())))),
                }
                // the name section (if any) comes first among the trailing custom sections, exactly once
                let nn = customs_of(&out).iter().filter(|(n, _)| n == b"name").count();
                if nn > 1 {
                    bad = Some(("name-section-duplicated", format!("{nn}")));
                }
                if wasmparser::Validator::new_with_features(wasmparser::WasmFeatures::all()).validate_all(&out).is_err() {
                    bad = Some(("output-invalid", String::new()));
                }
                match bad {
                    None => ctx.ok("custom", case),
                    Some((sig, d)) => ctx.fail("custom", case, "C28", sig, &d),
                }
            }
        }
    }
}
