//! SplitMix64: every random choice of a case derives from (seed, family, case number)
#[derive(Clone)]
pub struct Rng(pub u64);

impl Rng {
    pub fn new(seed: u64, family: &str, case: u64) -> Rng {
        let mut h: u64 = seed ^ 0x9E37_79B9_7F4A_7C15;
        for b in family.bytes() {
            h = (h ^ b as u64).wrapping_mul(0x100_0000_01B3);
        }
        let mut r = Rng(h ^ case.wrapping_mul(0xD134_2543_DE82_EF95));
        r.next();
        r.next();
        r
    }
    pub fn next(&mut self) -> u64 {
        self.0 = self.0.wrapping_add(0x9E37_79B9_7F4A_7C15);
        let mut z = self.0;
        z = (z ^ (z >> 30)).wrapping_mul(0xBF58_476D_1CE4_E5B9);
        z = (z ^ (z >> 27)).wrapping_mul(0x94D0_49BB_1331_11EB);
        z ^ (z >> 31)
    }
    /// uniform in 0..n (n > 0)
    pub fn below(&mut self, n: usize) -> usize {
        (self.next() % (n as u64)) as usize
    }
    pub fn range(&mut self, lo: usize, hi_incl: usize) -> usize {
        lo + self.below(hi_incl - lo + 1)
    }
    pub fn chance(&mut self, num: usize, den: usize) -> bool {
        self.below(den) < num
    }
    pub fn pick<'a, T>(&mut self, xs: &'a [T]) -> &'a T {
        &xs[self.below(xs.len())]
    }
    pub fn u32(&mut self) -> u32 {
        self.next() as u32
    }
    /// index chosen with the given integer weights
    pub fn weighted(&mut self, ws: &[usize]) -> usize {
        let tot: usize = ws.iter().sum();
        let mut x = self.below(tot.max(1));
        for (i, w) in ws.iter().enumerate() {
            if x < *w {
                return i;
            }
            x -= *w;
        }
        ws.len() - 1
    }
}
