#![allow(dead_code)]
mod ctx;
mod rng;
mod tys;
mod fam_locals;
mod fam_iter;
mod fam_custom;
mod fam_edit;
mod optok;
mod fam_lower;
mod gen_helpers;
mod fam_helpers;
mod fam_sem;
mod fam_types;
mod fam_adds;
mod fam_roundtrip;
mod fam_parse;
mod fam_comp;
mod fam_sidefx;
mod parse_facts;

use ctx::Ctx;

fn main() {
    let args: Vec<String> = std::env::args().collect();
    if args.len() == 3 && args[1] == "parse-one" {
        ctx::install_panic_hook();
        fam_parse::parse_one(&args[2]);
        return;
    }
    if args.len() < 3 || args[1] != "run" {
        eprintln!("usage: orca-harness run <family> --seed S --n N --out DIR [--only CASE] [--tier T]");
        std::process::exit(2);
    }
    let fam = args[2].clone();
    let mut seed = 1u64;
    let mut n = 100u64;
    let mut out = String::from("work/out");
    let mut only = None;
    let mut tier = String::from("quick");
    let mut i = 3;
    while i + 1 < args.len() {
        match args[i].as_str() {
            "--seed" => seed = args[i + 1].parse().unwrap(),
            "--n" => n = args[i + 1].parse().unwrap(),
            "--out" => out = args[i + 1].clone(),
            "--only" => only = Some(args[i + 1].parse().unwrap()),
            "--tier" => tier = args[i + 1].clone(),
            x => panic!("unknown argument {x}"),
        }
        i += 2;
    }
    // panics are observations, not noise
    ctx::install_panic_hook();
    let mut ctx = Ctx::new(&out, seed, n, only, &tier);
    match fam.as_str() {
        "locals" => fam_locals::run(&mut ctx),
        "iter" => fam_iter::run_iter(&mut ctx),
        "compiter" => fam_iter::run_compiter(&mut ctx),
        "custom" => fam_custom::run(&mut ctx),
        "edit" => fam_edit::run(&mut ctx),
        "lower" => fam_lower::run(&mut ctx),
        "helpers" => fam_helpers::run(&mut ctx),
        "sem" => fam_sem::run(&mut ctx),
        "types" => fam_types::run(&mut ctx),
        "adds" => fam_adds::run(&mut ctx),
        "roundtrip" => fam_roundtrip::run(&mut ctx),
        "parse" => fam_parse::run(&mut ctx),
        "comp" => fam_comp::run(&mut ctx),
        "sidefx" => fam_sidefx::run(&mut ctx),
        x => {
            eprintln!("unknown family {x}");
            std::process::exit(2);
        }
    }
    ctx.finish();
}
