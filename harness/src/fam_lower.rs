//! family `lower` (C15, C21, C22): injection plans on generated structured bodies, through every injection API path;
//! the encoded body is compared with the Lean model of flag bookkeeping + special-mode resolution + emission, and with
//! independent oracles of the three properties.
use crate::ctx::{guarded, Ctx};
use crate::optok::body_toks;
use crate::rng::Rng;
use std::collections::HashMap;
use wasmparser::Operator;
use wirm::ir::id::FunctionID;
use wirm::ir::types::{InstrumentationMode as IM, Location};
use wirm::iterator::component_iterator::ComponentIterator;
use wirm::iterator::iterator_trait::{IteratingInstrumenter, Iterator as _};
use wirm::iterator::module_iterator::ModuleIterator;
use wirm::opcode::{Inject, InjectAt, Instrumenter};
use wirm::{Component, Module};

// ---------------------------------------------------------------- body generation
pub struct BodyGen {
    pub wat: Vec<String>,
    pub results_i32: bool,
    /// bodies may contain `try_table` constructs
    pub try_table: bool,
}

pub fn gen_stmts(r: &mut Rng, g: &mut BodyGen, labels: usize, depth: usize, n: usize) {
    for _ in 0..n {
        let k = r.weighted(&[2, 3, 1, if depth < 3 { 3 } else { 0 }, if depth < 3 { 1 } else { 0 }, if depth < 3 { 3 } else { 0 }, 2, 2, 1, 1, 1, if depth < 3 && g.try_table { 1 } else { 0 }]);
        let fn_label = |d: usize| d + 1 == labels;
        match k {
            0 => g.wat.push("nop".into()),
            1 => {
                g.wat.push(format!("i32.const {}", r.below(100)));
                g.wat.push("drop".into());
            }
            2 => g.wat.push("call $h".into()),
            3 => {
                g.wat.push("block".into());
                let m = r.below(4);
                gen_stmts(r, g, labels + 1, depth + 1, m);
                g.wat.push("end".into());
            }
            4 => {
                g.wat.push("loop".into());
                let m = r.below(3);
                gen_stmts(r, g, labels + 1, depth + 1, m);
                g.wat.push("end".into());
            }
            5 => {
                g.wat.push(format!("i32.const {}", r.below(2)));
                g.wat.push("if".into());
                let m = r.below(3);
                gen_stmts(r, g, labels + 1, depth + 1, m);
                if r.chance(2, 3) {
                    g.wat.push("else".into());
                    let m = r.below(3);
                    gen_stmts(r, g, labels + 1, depth + 1, m);
                }
                g.wat.push("end".into());
            }
            6 => {
                let d = r.below(labels);
                if fn_label(d) && g.results_i32 {
                    g.wat.push("i32.const 9".into());
                }
                g.wat.push(format!("br {d}"));
            }
            7 => {
                let d = r.below(labels);
                let v = fn_label(d) && g.results_i32;
                if v {
                    g.wat.push("i32.const 9".into());
                }
                g.wat.push(format!("i32.const {}", r.below(2)));
                g.wat.push(format!("br_if {d}"));
                if v {
                    g.wat.push("drop".into());
                }
            }
            8 => {
                // targets of equal arity: inner labels only when the function returns a value
                let lim = if g.results_i32 { labels - 1 } else { labels };
                if lim > 0 {
                    let nt = r.below(4);
                    let mut t: Vec<String> = (0..nt).map(|_| r.below(lim).to_string()).collect();
                    t.push(r.below(lim).to_string());
                    g.wat.push(format!("i32.const {}", r.below(3)));
                    g.wat.push(format!("br_table {}", t.join(" ")));
                }
            }
            9 => {
                if g.results_i32 {
                    g.wat.push("i32.const 8".into());
                }
                g.wat.push("return".into());
            }
            11 => {
                // a construct that nests (its `end` closes it, it is a branch target) and takes no special mode: `try_table`
                // without handlers
                g.wat.push("try_table".into());
                let m = r.below(3);
                gen_stmts(r, g, labels + 1, depth + 1, m);
                g.wat.push("end".into());
            }
            _ => g.wat.push("unreachable".into()),
        }
    }
}

pub const MODES: &[(&str, IM)] = &[
    ("before", IM::Before),
    ("after", IM::After),
    ("alternate", IM::Alternate),
    ("semantic_after", IM::SemanticAfter),
    ("block_entry", IM::BlockEntry),
    ("block_exit", IM::BlockExit),
    ("block_alt", IM::BlockAlt),
];

fn is_block_style(t: &str) -> bool {
    let h = t.split(':').next().unwrap();
    matches!(h, "block" | "loop" | "if" | "else")
}
fn is_structural(t: &str) -> bool {
    let h = t.split(':').next().unwrap();
    matches!(h, "block" | "loop" | "if" | "else" | "end" | "try_table")
}
fn is_branch(t: &str) -> bool {
    let h = t.split(':').next().unwrap();
    matches!(h, "br" | "br_if" | "br_table")
}

#[derive(Clone, Debug)]
pub enum Step {
    /// select a mode at an instruction and inject `nprobes` probes (ids) there
    At { idx: usize, mode: usize, probes: Vec<i32> },
    EmptyAlt { idx: usize },
    EmptyBlockAlt { idx: usize },
    Func { exit: bool, probes: Vec<i32> },
    /// `inject_at(idx, mode, op)` for each probe operator
    InjectAt { idx: usize, mode: usize, probes: Vec<i32> },
    /// `clear_instr_at(loc, mode)`: withdraws what was injected there in that mode
    ClearAt { idx: usize, mode: usize },
    /// `add_instr_at(loc, op)` called directly, for a location whose mode was selected by an earlier step (`mode`) while another
    /// location is the current one
    AddAt { idx: usize, mode: usize, probes: Vec<i32> },
}

pub const PATHS: &[&str] = &["moditer", "compiter", "modifier"];

thread_local! {
    /// when set, `pull_side_effects()` is called before `encode()`: asking for the report must not change what is encoded
    pub static PULL_FIRST: std::cell::Cell<bool> = const { std::cell::Cell::new(false) };
}

/// one case in six asks for the side-effect report first (derived from the case number, not from the case's own stream)
pub fn set_pull_first(seed: u64, case: u64) -> bool {
    let v = Rng::new(seed, "pull-first", case).chance(1, 6);
    PULL_FIRST.with(|c| c.set(v));
    v
}

thread_local! {
    /// when set, every *other* local function of the module gets a function-exit probe (`nop`) before encoding: lowering them
    /// adds one block type per distinct result list to the shared type table, in the order the functions are visited
    pub static DECOY_EXITS: std::cell::Cell<bool> = const { std::cell::Cell::new(false) };
}

/// one case in four (derived from the case number, not from the case's own stream)
pub fn set_decoy_exits(seed: u64, case: u64) -> bool {
    let v = Rng::new(seed, "decoy-exits", case).chance(1, 4);
    DECOY_EXITS.with(|c| c.set(v));
    v
}

fn add_decoy_exits(m: &mut Module, target: FunctionID) {
    if !DECOY_EXITS.with(|c| c.get()) {
        return;
    }
    let n = m.functions.iter().count() as u32;
    for f in 0..n {
        if f == *target || !m.functions.is_local(FunctionID(f)) {
            continue;
        }
        let mut fm = m.functions.get_fn_modifier(FunctionID(f)).unwrap();
        fm.func_exit();
        fm.inject(Operator::Nop);
    }
}

thread_local! {
    /// when set, a probe is `i32.const k; call <f>` (the `sem` family's reporting probes) instead of `i32.const k; drop`
    pub static PROBE_CALL: std::cell::Cell<Option<u32>> = const { std::cell::Cell::new(None) };
}

fn probe_ops<'a>(k: i32) -> [Operator<'a>; 2] {
    match PROBE_CALL.with(|c| c.get()) {
        Some(f) => [Operator::I32Const { value: k }, Operator::Call { function_index: f }],
        None => [Operator::I32Const { value: k }, Operator::Drop],
    }
}

pub fn gen_plan(r: &mut Rng, toks: &[String], allow_special: bool, next_probe: &mut i32) -> Vec<Step> {
    let n = toks.len();
    let nsteps = r.weighted(&[1, 3, 3, 3, 2, 2]);
    let mut plan = vec![];
    let mut probes = |r: &mut Rng, np: &mut i32| -> Vec<i32> {
        (0..r.range(1, 2))
            .map(|_| {
                *np += 1;
                *np
            })
            .collect()
    };
    for _ in 0..nsteps {
        if !plan.is_empty() && r.chance(1, 12) {
            // withdraw an earlier injection (or clear a list nothing was injected into)
            let prev: Vec<(usize, usize)> = plan.iter().filter_map(|s| match s {
                Step::At { idx, mode, .. } | Step::InjectAt { idx, mode, .. } | Step::AddAt { idx, mode, .. } => Some((*idx, *mode)),
                _ => None,
            }).collect();
            let (idx, mode) = if !prev.is_empty() && r.chance(3, 4) { *r.pick(&prev) } else { (r.below(n), r.below(if allow_special { 7 } else { 3 })) };
            plan.push(Step::ClearAt { idx, mode });
            continue;
        }
        let kind = r.weighted(&[10, 1, if allow_special { 1 } else { 0 }, if allow_special { 2 } else { 0 }, 3]);
        match kind {
            0 | 4 => {
                let mode = if allow_special { r.weighted(&[3, 3, 2, 3, 3, 3, 2]) } else { r.weighted(&[3, 3, 2]) };
                // special modes mostly on applicable opcodes
                let cands: Vec<usize> = (0..n)
                    .filter(|i| match mode {
                        // replacing a structural keyword breaks the nesting for reasons unrelated to the lowering
                        // (the final `end` is fine: an alternate there is ignored)
                        2 => !is_structural(&toks[*i]) || *i + 1 == n,
                        3 => is_block_style(&toks[*i]) || is_branch(&toks[*i]),
                        4 | 5 | 6 => is_block_style(&toks[*i]),
                        _ => true,
                    })
                    .collect();
                let idx = if mode >= 3 && (cands.is_empty() || r.chance(1, 25)) { r.below(n) } else { *r.pick(&cands) };
                let p = probes(r, next_probe);
                // the mode each instruction was last given by an earlier step
                let earlier: Vec<(usize, usize)> = {
                    let mut seen: Vec<(usize, usize)> = vec![];
                    for s in plan.iter() {
                        if let Step::At { idx: i, mode: m, .. } | Step::InjectAt { idx: i, mode: m, .. } = s {
                            seen.retain(|(j, _)| j != i);
                            seen.push((*i, *m));
                        }
                    }
                    seen.into_iter().filter(|(i, _)| *i != idx).collect()
                };
                if kind == 0 {
                    plan.push(Step::At { idx, mode, probes: p });
                } else {
                    plan.push(Step::InjectAt { idx, mode, probes: p });
                }
                // `add_instr_at` on a location selected earlier, while this step's location is the current one
                if !earlier.is_empty() && n > 1 && r.chance(1, 5) {
                    let (i0, m0) = *r.pick(&earlier);
                    let p = probes(r, next_probe);
                    plan.push(Step::AddAt { idx: i0, mode: m0, probes: p });
                }
            }
            1 => {
                let cands: Vec<usize> = (0..n).filter(|i| !is_structural(&toks[*i]) || *i + 1 == n).collect();
                plan.push(Step::EmptyAlt { idx: *r.pick(&cands) });
            }
            2 => {
                let cands: Vec<usize> = (0..n).filter(|i| is_block_style(&toks[*i])).collect();
                if r.chance(1, 12) {
                    // on an opcode that is not block-like: must be rejected, not silently accepted
                    plan.push(Step::EmptyBlockAlt { idx: r.below(n) });
                } else if !cands.is_empty() {
                    plan.push(Step::EmptyBlockAlt { idx: *r.pick(&cands) });
                }
            }
            _ => {
                let p = probes(r, next_probe);
                plan.push(Step::Func { exit: r.chance(1, 2), probes: p });
            }
        }
    }
    // two special modes that meet at one `end`: a block-level probe on a construct and a semantic-after probe on a branch
    // that targets the same construct (their bodies share the resolver's per-block tables)
    if allow_special && r.chance(1, 5) {
        let pairs: Vec<(usize, usize)> = (0..n).filter(|b| is_branch(&toks[*b]) && !toks[*b].starts_with("br_table")).filter_map(|b| branch_target(toks, b).map(|t| (b, t))).collect();
        if !pairs.is_empty() {
            let (b, t) = *r.pick(&pairs);
            let block_mode = *r.pick(&[5usize, 5, 4, 3]);
            let p1 = probes(r, next_probe);
            let p2 = probes(r, next_probe);
            let s1 = Step::At { idx: t, mode: block_mode, probes: p1 };
            let s2 = Step::At { idx: b, mode: 3, probes: p2 };
            if r.chance(1, 2) {
                plan.push(s1);
                plan.push(s2);
            } else {
                plan.push(s2);
                plan.push(s1);
            }
        }
    }
    // a block alternate next to a block-level probe of the neighbouring construct: the alternate on an `else` (or on a construct)
    // and a block-exit / block-entry / semantic-after probe on the `if` that owns the `else` (or on the enclosing construct)
    if allow_special && r.chance(1, 6) && !plan.iter().any(|s| matches!(s, Step::At { mode: 6, .. } | Step::InjectAt { mode: 6, .. } | Step::EmptyBlockAlt { .. })) {
        let openers: Vec<usize> = (0..n).filter(|i| is_block_style(&toks[*i])).collect();
        if !openers.is_empty() {
            let x = *r.pick(&openers);
            // the construct that contains `x` most closely (for an `else`: its own `if`)
            let mut skip = 0usize;
            let mut owner = None;
            for i in (0..x).rev() {
                match toks[i].split(':').next().unwrap() {
                    "end" => skip += 1,
                    "block" | "loop" | "if" | "try_table" => {
                        if skip > 0 {
                            skip -= 1;
                        } else {
                            // a `try_table` takes no special mode
                            owner = if toks[i] == "try_table" { None } else { Some(i) };
                            break;
                        }
                    }
                    _ => {}
                }
            }
            if let Some(o) = owner {
                let pa = probes(r, next_probe);
                let pb = probes(r, next_probe);
                let alt = if r.chance(3, 4) { Step::At { idx: x, mode: 6, probes: pa } } else { Step::EmptyBlockAlt { idx: x } };
                let other = Step::At { idx: o, mode: *r.pick(&[5usize, 5, 4, 3]), probes: pb };
                if r.chance(1, 2) {
                    plan.push(alt);
                    plan.push(other);
                } else {
                    plan.push(other);
                    plan.push(alt);
                }
            }
        }
    }
    // a block alternate with code, then `empty_block_alt` on the same construct: the second call withdraws the code
    if allow_special && r.chance(1, 10) {
        let openers: Vec<usize> = (0..n).filter(|i| is_block_style(&toks[*i])).collect();
        if !openers.is_empty() {
            let x = *r.pick(&openers);
            let p = probes(r, next_probe);
            plan.push(Step::At { idx: x, mode: 6, probes: p });
            plan.push(Step::EmptyBlockAlt { idx: x });
        }
    }
    // plain `after` code on an opener and a block-entry probe with the *same body* on that opener: both stand behind the opener, and
    // neither may absorb the other
    if allow_special && r.chance(1, 8) {
        let openers: Vec<usize> = (0..n).filter(|i| is_block_style(&toks[*i])).collect();
        if !openers.is_empty() {
            let x = *r.pick(&openers);
            let p = probes(r, next_probe);
            plan.push(Step::At { idx: x, mode: 1, probes: p.clone() });
            plan.push(Step::At { idx: x, mode: 4, probes: p });
        }
    }
    // a `try_table` takes no special mode: the crate rejects the call (checked on its own in `try_table_special_modes`), and
    // the model represents the construct as a plain nesting one, so no plan asks for it
    plan.retain(|s| match s {
        Step::At { idx, mode, .. } | Step::InjectAt { idx, mode, .. } | Step::AddAt { idx, mode, .. } => !(*mode >= 3 && toks[*idx] == "try_table"),
        Step::EmptyBlockAlt { idx } => toks[*idx] != "try_table",
        _ => true,
    });
    plan
}

/// the opening instruction of the construct a `br:d` / `br_if:d` at `b` targets (`None`: the function label)
pub fn branch_target(toks: &[String], b: usize) -> Option<usize> {
    let mut count: usize = toks[b].split(':').nth(1)?.parse().ok()?;
    let mut skip = 0usize;
    for i in (0..b).rev() {
        let h = toks[i].split(':').next().unwrap();
        match h {
            "end" => skip += 1,
            "block" | "loop" | "if" | "try_table" => {
                if skip > 0 {
                    skip -= 1;
                } else if count == 0 {
                    return Some(i);
                } else {
                    count -= 1;
                }
            }
            _ => {}
        }
    }
    None
}

fn im(mode: usize) -> IM {
    MODES[mode].1
}

/// apply a plan through the module or component iterator; returns the model's operation list
fn apply_iter<'a, T>(it: &mut T, fid: FunctionID, plan: &[Step], via_comp: bool, ops: &std::cell::RefCell<Vec<String>>)
where
    T: IteratingInstrumenter<'a> + Inject<'a> + InjectAt<'a>,
{
    let goto = |it: &mut T, idx: usize| {
        it.reset();
        loop {
            let (loc, _) = it.curr_loc();
            let (f, i) = match loc {
                Location::Module { func_idx, instr_idx } => (func_idx, instr_idx),
                Location::Component { func_idx, instr_idx, .. } => (func_idx, instr_idx),
            };
            if f == fid && i == idx {
                break;
            }
            if it.next().is_none() {
                panic!("harness: location not reached");
            }
        }
    };
    let _ = via_comp;
    for st in plan {
        match st {
            Step::At { idx, mode, probes } => {
                goto(it, *idx);
                ops.borrow_mut().push(format!("m~{idx}~{}", MODES[*mode].0));
                // the named shorthands of the iterator trait are the same call
                if idx % 2 == 0 {
                    match MODES[*mode].0 {
                        "before" => it.before(),
                        "after" => it.after(),
                        "alternate" => it.alternate(),
                        "semantic_after" => it.semantic_after(),
                        "block_entry" => it.block_entry(),
                        "block_exit" => it.block_exit(),
                        _ => it.block_alt(),
                    };
                } else {
                    it.set_instrument_mode(im(*mode));
                }
                let bulk = (idx + probes.len()) % 3 == 0;
                let mut body = vec![];
                for p in probes {
                    for o in probe_ops(*p) {
                        ops.borrow_mut().push(format!("i~{idx}~{}", crate::optok::tok_of(&o)));
                        if bulk {
                            body.push(o);
                        } else {
                            it.inject(o);
                        }
                    }
                }
                if bulk {
                    it.inject_all(&body);
                }
            }
            Step::EmptyAlt { idx } => {
                goto(it, *idx);
                ops.borrow_mut().push(format!("ea~{idx}"));
                it.empty_alternate();
            }
            Step::EmptyBlockAlt { idx } => {
                goto(it, *idx);
                ops.borrow_mut().push(format!("eba~{idx}"));
                it.empty_block_alt();
            }
            Step::Func { exit, probes } => {
                goto(it, 0);
                if *exit {
                    it.func_exit();
                } else {
                    it.func_entry();
                }
                ops.borrow_mut().push(format!("fm~{}", if *exit { "exit" } else { "entry" }));
                for p in probes {
                    for o in probe_ops(*p) {
                        ops.borrow_mut().push(format!("i~0~{}", crate::optok::tok_of(&o)));
                        it.inject(o);
                    }
                }
            }
            Step::ClearAt { idx, mode } => {
                let loc = {
                    goto(it, *idx);
                    it.curr_loc().0
                };
                ops.borrow_mut().push(format!("cl~{idx}~{}", MODES[*mode].0));
                it.clear_instr_at(loc, im(*mode));
            }
            Step::AddAt { idx, probes, .. } => {
                let loc = {
                    goto(it, *idx);
                    it.curr_loc().0
                };
                // another location is the current one when the call is made
                goto(it, if *idx == 0 { 1 } else { 0 });
                for p in probes {
                    for o in probe_ops(*p) {
                        // the iterators' add_instr_at is the ordinary add_instr of the addressed function and instruction
                        ops.borrow_mut().push(format!("i~{idx}~{}", crate::optok::tok_of(&o)));
                        it.add_instr_at(loc, o);
                    }
                }
            }
            Step::InjectAt { idx, mode, probes } => {
                goto(it, 0);
                for p in probes {
                    for o in probe_ops(*p) {
                        // the iterators' inject_at = set mode at the location, then the ordinary add_instr
                        ops.borrow_mut().push(format!("m~{idx}~{}", MODES[*mode].0));
                        ops.borrow_mut().push(format!("i~{idx}~{}", crate::optok::tok_of(&o)));
                        it.inject_at(*idx, im(*mode), o);
                    }
                }
            }
        }
    }
}

fn apply_modifier<'a>(m: &mut Module<'a>, fid: FunctionID, plan: &[Step], last: usize, ops: &std::cell::RefCell<Vec<String>>) {
    // every `get_fn_modifier` resets the function-level mode and selects `before` at the last instruction
    let mut fm = m.functions.get_fn_modifier(fid).expect("local function");
    ops.borrow_mut().push("ff".to_string());
    ops.borrow_mut().push(format!("m~{last}~before"));
    for st in plan {
        match st {
            Step::At { idx, mode, probes } => {
                ops.borrow_mut().push(format!("m~{idx}~{}", MODES[*mode].0));
                let loc = Location::Module { func_idx: fid, instr_idx: *idx };
                if idx % 2 == 0 {
                    match MODES[*mode].0 {
                        "before" => fm.before_at(loc),
                        "after" => fm.after_at(loc),
                        "alternate" => fm.alternate_at(loc),
                        "semantic_after" => fm.semantic_after_at(loc),
                        "block_entry" => fm.block_entry_at(loc),
                        "block_exit" => fm.block_exit_at(loc),
                        _ => fm.block_alt_at(loc),
                    };
                } else {
                    fm.set_instrument_mode_at(im(*mode), loc);
                }
                // one step in three hands the whole body over at once (`inject_all`): the same injections, by the trait's bulk entry point
                let bulk = (idx + probes.len()) % 3 == 0;
                let mut body = vec![];
                for p in probes {
                    for o in probe_ops(*p) {
                        ops.borrow_mut().push(format!("i~{idx}~{}", crate::optok::tok_of(&o)));
                        if bulk {
                            body.push(o);
                        } else {
                            fm.inject(o);
                        }
                    }
                }
                if bulk {
                    fm.inject_all(&body);
                }
            }
            Step::EmptyAlt { idx } => {
                ops.borrow_mut().push(format!("ea~{idx}"));
                fm.empty_alternate_at(Location::Module { func_idx: fid, instr_idx: *idx });
            }
            Step::EmptyBlockAlt { idx } => {
                ops.borrow_mut().push(format!("eba~{idx}"));
                fm.empty_block_alt_at(Location::Module { func_idx: fid, instr_idx: *idx });
            }
            Step::Func { exit, probes } => {
                if *exit {
                    fm.func_exit();
                } else {
                    fm.func_entry();
                }
                ops.borrow_mut().push(format!("fm~{}", if *exit { "exit" } else { "entry" }));
                for p in probes {
                    for o in probe_ops(*p) {
                        // the location is irrelevant while a function-level mode is selected
                        ops.borrow_mut().push(format!("i~0~{}", crate::optok::tok_of(&o)));
                        fm.inject(o);
                    }
                }
                // leave the function-level mode again (FunctionModifier::finish_instr)
                fm.finish_instr();
                ops.borrow_mut().push("ff".to_string());
            }
            Step::ClearAt { idx, mode } => {
                ops.borrow_mut().push(format!("cl~{idx}~{}", MODES[*mode].0));
                fm.clear_instr_at(Location::Module { func_idx: fid, instr_idx: *idx }, im(*mode));
            }
            Step::AddAt { idx, probes, .. } => {
                for p in probes {
                    for o in probe_ops(*p) {
                        ops.borrow_mut().push(format!("aa~{idx}~{}", crate::optok::tok_of(&o)));
                        fm.add_instr_at(Location::Module { func_idx: fid, instr_idx: *idx }, o);
                    }
                }
            }
            Step::InjectAt { idx, mode, probes } => {
                for p in probes {
                    for o in probe_ops(*p) {
                        ops.borrow_mut().push(format!("ia~{idx}~{}~{}", MODES[*mode].0, crate::optok::tok_of(&o)));
                        fm.inject_at(*idx, im(*mode), o);
                    }
                }
            }
        }
    }
}

pub struct Lowered {
    pub plan_ops: Vec<String>,
    pub out: Result<(Vec<String>, usize, bool, Vec<u8>), String>, // tokens, added locals, has_special, bytes
    pub undecodable: Option<String>,
    /// did a second `encode()` (no edits in between) give the same bytes?
    pub second_same: Option<bool>,
    /// the target function's body as the second `encode()` wrote it
    pub second_toks: Option<Vec<String>>,
}

/// instrument function `target` of the module text through `path`, encode, decode the body
pub fn instrument(wat: &str, target: usize, nimp: usize, path: &str, plan: &[Step], ntoks: usize, nlocals_before: usize) -> Lowered {
    let fid = FunctionID((nimp + target) as u32);
    let mut plan_ops: Vec<String> = vec![];
    let is_comp = path == "compiter";
    let text = if is_comp { format!("(component (core {})", &wat[1..]) } else { wat.to_string() };
    let bytes = wat::parse_str(&text).unwrap_or_else(|e| panic!("bad wat: {e}\n{text}"));
    let ops_cell = std::cell::RefCell::new(vec![]);
    let out = guarded(|| {
        if is_comp {
            let mut comp = Component::parse(&bytes, false).expect("parse");
            {
                let mut it = ComponentIterator::new(&mut comp, HashMap::new());
                apply_iter(&mut it, fid, plan, true, &ops_cell);
            }
            let special = comp.modules[0].functions.get(fid).unwrap_local().instr_flag.has_special_instr();
            add_decoy_exits(&mut comp.modules[0], fid);
            if PULL_FIRST.with(|c| c.get()) {
                let _ = comp.modules[0].pull_side_effects();
            }
            let b = comp.modules[0].encode();
            let b2 = comp.modules[0].encode();
            (b, special, b2)
        } else {
            let mut m = Module::parse(&bytes, false).expect("parse");
            if path == "moditer" {
                let mut it = ModuleIterator::new(&mut m, &vec![]);
                apply_iter(&mut it, fid, plan, false, &ops_cell);
            } else {
                apply_modifier(&mut m, fid, plan, ntoks - 1, &ops_cell);
            }
            let special = m.functions.get(fid).unwrap_local().instr_flag.has_special_instr();
            add_decoy_exits(&mut m, fid);
            if PULL_FIRST.with(|c| c.get()) {
                let _ = m.pull_side_effects();
            }
            let b = m.encode();
            let b2 = m.encode();
            (b, special, b2)
        }
    });
    plan_ops.extend(ops_cell.borrow().iter().cloned());
    let mut undecodable = None;
    let mut second_same = None;
    let mut second_toks = None;
    let out = out.and_then(|(b, special, b2)| {
        second_same = Some(b == b2);
        second_toks = body_toks(&b2, target).ok().map(|x| x.0);
        Ok((b, special))
    });
    let out = out.and_then(|(b, special)| match body_toks(&b, target) {
        Ok((toks, locals)) => Ok((toks, locals.len().saturating_sub(nlocals_before), special, b)),
        Err(e) => {
            undecodable = Some(e.clone());
            Err(e)
        }
    });
    Lowered { plan_ops, out, undecodable, second_same, second_toks }
}

// ---------------------------------------------------------------- oracles
/// index of the `end` matching the block-like at `i` (for `else`: the `end` of its `if`)
pub fn match_end(toks: &[String], i: usize) -> Option<usize> {
    let mut depth = 0i32;
    for (k, t) in toks.iter().enumerate().skip(i + 1) {
        let h = t.split(':').next().unwrap();
        match h {
            "block" | "loop" | "if" | "try_table" => depth += 1,
            "end" => {
                if depth == 0 {
                    return Some(k);
                }
                depth -= 1;
            }
            _ => {}
        }
    }
    None
}

/// does some target of the branch at `i` denote the function body's label?
pub fn branch_reaches_function_label(toks: &[String], i: usize) -> bool {
    let mut depth = 0usize; // number of enclosing block-likes
    for t in &toks[..i] {
        match t.split(':').next().unwrap() {
            "block" | "loop" | "if" | "try_table" => depth += 1,
            "end" => depth = depth.saturating_sub(1),
            _ => {}
        }
    }
    let t = &toks[i];
    let targets: Vec<usize> = if let Some(x) = t.strip_prefix("br_table:") {
        x.replace('/', ".").split('.').filter(|s| !s.is_empty()).filter_map(|s| s.parse().ok()).collect()
    } else {
        t.split(':').nth(1).and_then(|s| s.parse().ok()).into_iter().collect()
    };
    targets.iter().any(|d| *d == depth)
}

/// index of the instruction that opens the construct `depth` levels out of instruction `i` (None = the function body)
pub fn opener(toks: &[String], i: usize, depth: usize) -> Option<usize> {
    let mut need = depth as i64;
    let mut k = i;
    while k > 0 {
        k -= 1;
        match toks[k].split(':').next().unwrap() {
            "end" => need += 1,
            "block" | "loop" | "if" | "try_table" => {
                if need == 0 {
                    return Some(k);
                }
                need -= 1;
            }
            _ => {}
        }
    }
    None
}

pub fn branch_targets(t: &str) -> Vec<usize> {
    if let Some(x) = t.strip_prefix("br_table:") {
        x.replace('/', ".").split('.').filter(|s| !s.is_empty()).filter_map(|s| s.parse().ok()).collect()
    } else {
        t.split(':').nth(1).and_then(|s| s.parse().ok()).into_iter().collect()
    }
}

/// the largest number of flagged semantic-after bodies that one `end` has to dispatch
pub fn max_flagged_per_block(toks: &[String], plan: &[Step]) -> usize {
    let mut counts: HashMap<Option<usize>, usize> = HashMap::new();
    let mut seen = std::collections::HashSet::new();
    for st in plan {
        if let Step::At { idx, mode: 3, .. } | Step::InjectAt { idx, mode: 3, .. } | Step::AddAt { idx, mode: 3, .. } = st {
            if is_branch(&toks[*idx]) && seen.insert(*idx) {
                for d in branch_targets(&toks[*idx]) {
                    *counts.entry(opener(toks, *idx, d)).or_insert(0) += 1;
                }
            }
        }
    }
    // the same branch instrumented twice still has one flag per instrumentation call sequence; counts are per target entry
    counts.values().cloned().max().unwrap_or(0)
}

fn probes_tokens(ps: &[i32]) -> Vec<String> {
    ps.iter().flat_map(|p| vec![format!("i32.const:{p}"), "drop".to_string()]).collect()
}

/// C15: the specification of before/after/alternate lowering, computed from the plan alone
fn spec_c15(toks: &[String], plan: &[Step]) -> Vec<String> {
    let n = toks.len();
    let mut before: Vec<Vec<String>> = vec![vec![]; n];
    let mut after: Vec<Vec<String>> = vec![vec![]; n];
    let mut alt: Vec<Option<Vec<String>>> = vec![None; n];
    for st in plan {
        match st {
            Step::At { idx, mode, probes } | Step::InjectAt { idx, mode, probes } | Step::AddAt { idx, mode, probes } => match mode {
                0 => before[*idx].extend(probes_tokens(probes)),
                1 => after[*idx].extend(probes_tokens(probes)),
                _ => alt[*idx].get_or_insert_with(Vec::new).extend(probes_tokens(probes)),
            },
            Step::EmptyAlt { idx } => alt[*idx] = Some(vec![]),
            Step::ClearAt { idx, mode } => match mode {
                0 => before[*idx].clear(),
                1 => after[*idx].clear(),
                2 => alt[*idx] = None,
                _ => {}
            },
            _ => {}
        }
    }
    let mut out = vec![];
    for i in 0..n {
        let last = i + 1 == n;
        out.extend(before[i].iter().cloned());
        match (&alt[i], last) {
            (Some(a), false) => out.extend(a.iter().cloned()),
            _ => out.push(toks[i].clone()),
        }
        if !last {
            out.extend(after[i].iter().cloned());
        }
    }
    out
}

/// C22 on the one nesting construct that takes no special mode today: a special-mode injection on a `try_table` is either rejected
/// at the call or, if a version of the crate accepts it, present in the encoded function
fn try_table_special_modes(ctx: &mut Ctx) {
    let bytes = wat::parse_str("(module (func block try_table nop end end))").expect("wat");
    for mode in 3..7usize {
        let res = guarded(|| {
            let mut m = Module::parse(&bytes, false).expect("parse");
            {
                let mut fm = m.functions.get_fn_modifier(FunctionID(0)).expect("modifier");
                fm.set_instrument_mode_at(im(mode), Location::Module { func_idx: FunctionID(0), instr_idx: 1 });
                fm.inject(Operator::I32Const { value: 424242 });
                fm.inject(Operator::Drop);
            }
            m.encode()
        });
        match res {
            Err(_) => ctx.count("try_table:special-mode-rejected-at-call"),
            Ok(out) => {
                let kept = body_toks(&out, 0).map(|(t, _)| t.iter().any(|x| x == "i32.const:424242")).unwrap_or(false);
                if kept {
                    ctx.count("try_table:special-mode-accepted-and-emitted");
                } else {
                    ctx.fail("lower", 0, "C22", &format!("{}-on-try_table-accepted-and-lost", MODES[mode].0), "a special-mode injection on `try_table` was accepted at the call and is not in the encoded function");
                }
            }
        }
    }
}

pub fn run(ctx: &mut Ctx) {
    let fam = "lower";
    for case in 0..ctx.n {
        if !ctx.wants(case) {
            continue;
        }
        let mut r = Rng::new(ctx.seed, fam, case);
        let results_i32 = r.chance(1, 4);
        // one body in five may contain `try_table` constructs (chosen by the case number: the other bodies stay what they were)
        let mut g = BodyGen { wat: vec![], results_i32, try_table: case % 5 == 3 };
        if g.try_table {
            ctx.count("body-may-contain-try_table");
        }
        if case == 0 {
            try_table_special_modes(ctx);
        }
        let n0 = r.range(1, 5);
        gen_stmts(&mut r, &mut g, 1, 0, n0);
        if results_i32 {
            g.wat.push("i32.const 0".into());
        }
        let nimp = r.below(2);
        let nparams = r.below(3);
        let nlocals_decl = r.below(3);
        let mut wat = String::from("(module\n");
        for k in 0..nimp {
            wat.push_str(&format!("  (import \"e\" \"i{k}\" (func))\n"));
        }
        wat.push_str("  (func $t");
        for _ in 0..nparams {
            wat.push_str(" (param i64)");
        }
        if results_i32 {
            wat.push_str(" (result i32)");
        }
        for _ in 0..nlocals_decl {
            wat.push_str(" (local f32)");
        }
        wat.push(' ');
        wat.push_str(&g.wat.join(" "));
        wat.push_str(")\n  (func $h)\n)\n");
        let bytes = wat::parse_str(&wat).unwrap_or_else(|e| panic!("bad wat {e}\n{wat}"));
        if let Err(e) = wasmparser::Validator::new_with_features(wasmparser::WasmFeatures::all()).validate_all(&bytes) {
            panic!("generator produced an invalid body: {e}\n{wat}");
        }
        let (toks, _) = body_toks(&bytes, 0).unwrap();
        // the family has three plan classes: only before/after/alternate (C15), special modes too (C21, C22)
        let class = r.weighted(&[2, 3]);
        let allow_special = class == 1;
        let mut np = 1000;
        let plan = gen_plan(&mut r, &toks, allow_special, &mut np);
        let path = PATHS[r.below(PATHS.len())];
        ctx.count(&format!("path={path}"));
        ctx.count(&format!("class={}", if allow_special { "special" } else { "plain" }));
        ctx.count(&format!("bodylen={}", (toks.len() / 5) * 5));
        if set_pull_first(ctx.seed, case) {
            ctx.count("side-effect-report-pulled-before-encode");
        }
        if set_decoy_exits(ctx.seed, case) {
            ctx.count("function-exit-probes-on-the-other-functions");
        }
        let lowered = instrument(&wat, 0, nimp, path, &plan, toks.len(), nlocals_decl);
        ctx.case_line(&format!(
            "lower {case} nlocals={} body={} plan={}",
            nparams + nlocals_decl,
            toks.join(","),
            if lowered.plan_ops.is_empty() { "-".to_string() } else { lowered.plan_ops.join(";") }
        ));
        for st in &plan {
            if let Step::At { mode, .. } | Step::InjectAt { mode, .. } | Step::AddAt { mode, .. } = st {
                ctx.count(&format!("mode={}", MODES[*mode].0));
            }
        }
        match &lowered.out {
            Err(e) if lowered.undecodable.is_some() => {
                ctx.impl_line(&format!("lower {case} UNDECODABLE"));
                ctx.fail(fam, case, "C15,C21,C22", "output-undecodable", e);
            }
            Err(p) => {
                ctx.impl_line(&format!("lower {case} PANIC"));
                // a rejection at the call is what C22 asks for when the opcode does not take the mode
                let legit = plan.iter().any(|st| match st {
                    Step::EmptyBlockAlt { idx } => !is_block_style(&toks[*idx]),
                    Step::At { idx, mode, .. } | Step::InjectAt { idx, mode, .. } | Step::AddAt { idx, mode, .. } => match mode {
                        3 => !(is_block_style(&toks[*idx]) || is_branch(&toks[*idx])),
                        4 | 5 | 6 => !is_block_style(&toks[*idx]),
                        _ => false,
                    },
                    _ => false,
                });
                if legit {
                    ctx.count("rejected-at-call");
                    ctx.ok(fam, case);
                } else {
                    ctx.fail(fam, case, "C15,C21,C22", "unexpected-panic", p);
                }
            }
            Ok((out, added, special, b)) => {
                ctx.hash_line(fam, case, b);
                ctx.impl_line(&format!("lower {case} special={}", *special as u8));
                ctx.impl_line(&format!("lower {case} out={}", out.join(",")));
                ctx.impl_line(&format!("lower {case} added={added}"));
                let mut fails: Vec<(&str, String, String)> = vec![];
                if lowered.second_same == Some(false) {
                    fails.push(("C05", "second-encode-differs".into(), "instrumentation only, no re-indexing".into()));
                }
                // a lowering of special modes must leave a valid module (nothing in these plans can break validity
                // except alternates that replace an instruction by probes that do not reproduce its stack effect)
                let risky = plan.iter().any(|s| matches!(s, Step::At { mode: 2, .. } | Step::InjectAt { mode: 2, .. } | Step::AddAt { mode: 2, .. } | Step::EmptyAlt { .. }
                    | Step::At { mode: 6, .. } | Step::InjectAt { mode: 6, .. } | Step::AddAt { mode: 6, .. } | Step::EmptyBlockAlt { .. }));
                if !risky {
                    if let Err(e) = wasmparser::Validator::new_with_features(wasmparser::WasmFeatures::all()).validate_all(b) {
                        if max_flagged_per_block(&toks, &plan) >= 3 {
                            // known finding F27: `if .. else .. else .. end`
                            fails.push(("C16,C20", "output-invalid-three-flagged-bodies-at-one-end".into(), e.to_string()));
                        } else {
                            fails.push(("C15,C16,C20", "output-invalid".into(), e.to_string()));
                        }
                    }
                }
                let has_func_level = plan.iter().any(|s| matches!(s, Step::Func { .. }));
                if !allow_special && !has_func_level {
                    let spec = spec_c15(&toks, &plan);
                    if *out != spec {
                        fails.push(("C15", "lowering-differs-from-spec".into(), format!("got {} want {}", out.join(","), spec.join(","))));
                    }
                    if *added != 0 {
                        fails.push(("C15", "locals-added-without-special-modes".into(), format!("{added}")));
                    }
                    if wasmparser::Validator::new_with_features(wasmparser::WasmFeatures::all()).validate_all(b).is_err()
                        && !plan.iter().any(|s| matches!(s, Step::At { mode: 2, .. } | Step::InjectAt { mode: 2, .. } | Step::AddAt { mode: 2, .. } | Step::EmptyAlt { .. }))
                    {
                        fails.push(("C15", "output-invalid".into(), String::new()));
                    }
                }
                if allow_special {
                    // C22: every accepted special-mode injection is reflected in the output, unless it sits in a region
                    // that a block-alternate of the same plan removes
                    let cleared_later = |pos: usize, idx: usize, mode: usize| plan[pos + 1..].iter().any(|x| matches!(x, Step::ClearAt { idx: j, mode: m2 } if *j == idx && *m2 == mode));
                    let removed: Vec<(usize, usize)> = plan
                        .iter()
                        .enumerate()
                        .filter(|(pos, s)| match s {
                            Step::At { idx, mode: 6, .. } | Step::InjectAt { idx, mode: 6, .. } | Step::AddAt { idx, mode: 6, .. } | Step::EmptyBlockAlt { idx } => !cleared_later(*pos, *idx, 6),
                            _ => true,
                        })
                        .map(|(_, s)| s)
                        .filter_map(|s| match s {
                            Step::At { idx, mode: 6, .. } | Step::InjectAt { idx, mode: 6, .. } | Step::AddAt { idx, mode: 6, .. } | Step::EmptyBlockAlt { idx } => {
                                match_end(&toks, *idx).map(|e| (*idx, e))
                            }
                            _ => None,
                        })
                        .collect();
                    let mut func_mode_seen = false;
                    for st in &plan {
                        if let Step::Func { .. } = st {
                            func_mode_seen = true;
                        }
                        if let Step::At { idx, mode, probes } | Step::InjectAt { idx, mode, probes } | Step::AddAt { idx, mode, probes } = st {
                            if *mode < 3 {
                                continue;
                            }
                            // an `empty_block_alt` issued later on the same construct replaces the block-alternate
                            let pos = plan.iter().position(|x| std::ptr::eq(x, st)).unwrap();
                            if *mode == 6 && plan[pos + 1..].iter().any(|x| matches!(x, Step::EmptyBlockAlt { idx: j } if j == idx)) {
                                continue;
                            }
                            if plan[pos + 1..].iter().any(|x| matches!(x, Step::ClearAt { idx: j, mode: m2 } if j == idx && m2 == mode)) {
                                continue;
                            }
                            let inside = removed.iter().any(|(a, e)| *idx >= *a && *idx <= *e);
                            if inside && *mode != 6 {
                                continue;
                            }
                            if inside && *mode == 6 && removed.iter().any(|(a, e)| *idx > *a && *idx <= *e) {
                                continue;
                            }
                            for p in probes {
                                let t = format!("i32.const:{p}");
                                // the same body may also have been injected as plain `after` code of this instruction (kept, not cleared):
                                // then that many copies stand in the output besides this one
                                let plain_copies = plan
                                    .iter()
                                    .enumerate()
                                    .filter(|(q, x)| matches!(x, Step::At { idx: j, mode: 1, probes: ps } if j == idx && ps.contains(p) && *idx + 1 != toks.len())
                                        && !plan[*q + 1..].iter().any(|y| matches!(y, Step::ClearAt { idx: j, mode: 1 } if j == idx)))
                                    .count();
                                if out.iter().filter(|x| **x == t).count() < 1 + plain_copies {
                                    let via = match st {
                                        Step::InjectAt { .. } => "inject_at",
                                        Step::AddAt { .. } => "add_instr_at",
                                        _ => "inject",
                                    };
                                    let target = if toks[*idx].starts_with("br") {
                                        if branch_reaches_function_label(&toks, *idx) { "branch-to-function-label" } else { "branch" }
                                    } else {
                                        "block"
                                    };
                                    let sticky = if func_mode_seen && path != "modifier" { "-after-func-mode" } else { "" };
                                    let sig = if target == "branch-to-function-label" {
                                        // one mechanism whatever the path (known finding F15)
                                        "semantic_after-branch-to-function-label-lost".to_string()
                                    } else {
                                        format!("{}-{}-{}-{}-lost{}", MODES[*mode].0, target, path, via, sticky)
                                    };
                                    fails.push((
                                        match *mode {
                                            3 => "C20,C22",
                                            4 => "C18,C22",
                                            5 => "C19,C22",
                                            _ => "C21,C22",
                                        },
                                        sig,
                                        format!("probe {p} injected at {idx} ({}) is not in the output", toks[*idx]),
                                    ));
                                }
                            }
                        }
                    }
                    // C17: entry code runs before anything else of the function, exit code on the ways out: the first entry probe stands in
                    // front of the first exit probe, whatever the first instruction is
                    {
                        let first_of = |want_exit: bool| -> Option<usize> {
                            plan.iter()
                                .filter_map(|st| match st {
                                    Step::Func { exit, probes } if *exit == want_exit => Some(probes),
                                    _ => None,
                                })
                                .flatten()
                                .filter_map(|p| out.iter().position(|x| *x == format!("i32.const:{p}")))
                                .min()
                        };
                        if let (Some(e), Some(x)) = (first_of(false), first_of(true)) {
                            if x < e {
                                fails.push(("C17", "func_exit-code-in-front-of-entry-code".into(), format!("first exit probe at {x}, first entry probe at {e}")));
                            }
                        }
                    }
                    // function entry / exit injections are special-mode injections too
                    for st in &plan {
                        if let Step::Func { exit, probes } = st {
                            for p in probes {
                                if !out.contains(&format!("i32.const:{p}")) {
                                    fails.push(("C17,C22", format!("func_{}-{}-lost", if *exit { "exit" } else { "entry" }, path), format!("probe {p} is not in the output")));
                                }
                                // C17 on the module a second `encode()` writes: the function-level code is there as often as in the first
                                if let Some(t2) = &lowered.second_toks {
                                    let t = format!("i32.const:{p}");
                                    let (n1, n2) = (out.iter().filter(|x| **x == t).count(), t2.iter().filter(|x| **x == t).count());
                                    if n1 != n2 {
                                        fails.push(("C17", format!("func_{}-code-{}-times-in-second-encode", if *exit { "exit" } else { "entry" }, if n2 > n1 { "more" } else { "fewer" }), format!("probe {p}: {n1} in the first output, {n2} in the second")));
                                    }
                                }
                            }
                        }
                    }
                    // C21: `empty_block_alt` asks for removal without replacement: block-alternate code recorded on the construct before
                    // that call must not be emitted
                    for (pos, st) in plan.iter().enumerate() {
                        if let Step::At { idx, mode: 6, probes } | Step::InjectAt { idx, mode: 6, probes } | Step::AddAt { idx, mode: 6, probes } = st {
                            if is_block_style(&toks[*idx]) && plan[pos + 1..].iter().any(|x| matches!(x, Step::EmptyBlockAlt { idx: j } if j == idx)) {
                                for p in probes {
                                    if out.contains(&format!("i32.const:{p}")) {
                                        fails.push(("C21".into(), "block_alt-code-emitted-after-empty_block_alt".into(), format!("probe {p} recorded at {idx} ({}) before empty_block_alt", toks[*idx])));
                                    }
                                }
                            }
                        }
                    }
                    // C18 / C19 / C20 on constructs: *where* a block-level probe stands, judged by the construct that encloses it in the
                    // output. Only for plans that leave the structural skeleton of the body as it is: no block alternates, no function-level
                    // code (the exit wrapper is a block), no semantic-after on branches (flag checks are `if`s), no alternates on structural tokens.
                    let skeleton_kept = !plan.iter().any(|s| match s {
                        Step::Func { .. } | Step::EmptyBlockAlt { .. } => true,
                        Step::EmptyAlt { idx } => is_structural(&toks[*idx]),
                        Step::At { idx, mode, .. } | Step::InjectAt { idx, mode, .. } | Step::AddAt { idx, mode, .. } => {
                            *mode == 6 || (*mode == 3 && is_branch(&toks[*idx])) || (*mode == 2 && is_structural(&toks[*idx]))
                        }
                        _ => false,
                    });
                    let skel = |v: &[String]| -> Vec<(usize, String)> {
                        v.iter().enumerate().filter(|(_, t)| is_structural(t)).map(|(i, t)| (i, t.split(':').next().unwrap().to_string())).collect()
                    };
                    let (sk_in, sk_out) = (skel(&toks), skel(&out));
                    if skeleton_kept && sk_in.iter().map(|x| &x.1).eq(sk_out.iter().map(|x| &x.1)) {
                        // (ordinal of the enclosing opener among the structural tokens, None = the function body; in the else-arm?)
                        let enclosing = |v: &[String], sk: &[(usize, String)], q: usize| -> (Option<usize>, bool) {
                            let (mut skip, mut in_else) = (0usize, false);
                            for (ord, (i, h)) in sk.iter().enumerate().rev() {
                                if *i >= q {
                                    continue;
                                }
                                let _ = v;
                                match h.as_str() {
                                    "end" => skip += 1,
                                    "else" => {
                                        if skip == 0 {
                                            in_else = true;
                                        }
                                    }
                                    _ => {
                                        if skip > 0 {
                                            skip -= 1;
                                        } else {
                                            return (Some(ord), in_else);
                                        }
                                    }
                                }
                            }
                            (None, false)
                        };
                        for (pos, st) in plan.iter().enumerate() {
                            if let Step::At { idx, mode, probes } | Step::InjectAt { idx, mode, probes } | Step::AddAt { idx, mode, probes } = st {
                                if !(3..=5).contains(mode) || !is_block_style(&toks[*idx]) {
                                    continue;
                                }
                                if plan[pos + 1..].iter().any(|x| matches!(x, Step::ClearAt { idx: j, mode: m2 } if j == idx && m2 == mode)) {
                                    continue;
                                }
                                let is_else = toks[*idx] == "else";
                                // the construct the probe belongs to: the instrumented opener, or the `if` of an instrumented `else`
                                let (own, _) = if is_else { enclosing(&toks, &sk_in, *idx) } else { (sk_in.iter().position(|x| x.0 == *idx), false) };
                                let own_pos = own.map(|o| sk_in[o].0);
                                let want: (Option<usize>, Option<bool>) = match *mode {
                                    // entry and exit code stand inside the body / arm they belong to
                                    4 | 5 => (own, if is_else { Some(true) } else if toks[*idx].starts_with("if") { Some(false) } else { None }),
                                    // semantic-after code stands behind the construct's `end`: in whatever encloses the construct
                                    _ => (own_pos.and_then(|o| enclosing(&toks, &sk_in, o).0), None),
                                };
                                let want_arm_of_parent = if *mode == 3 { own_pos.map(|o| enclosing(&toks, &sk_in, o).1) } else { None };
                                for p in probes {
                                    let t = format!("i32.const:{p}");
                                    // the same body injected elsewhere as well (plain `after` code of this opener, another step): positions are not unique
                                    if plan.iter().enumerate().any(|(q, x)| q != pos && matches!(x, Step::At { probes: ps, .. } | Step::InjectAt { probes: ps, .. } | Step::AddAt { probes: ps, .. } if ps.contains(p))) {
                                        continue;
                                    }
                                    for q in (0..out.len()).filter(|q| out[*q] == t) {
                                        let (got, got_else) = enclosing(&out, &sk_out, q);
                                        let arm_ok = match (want.1, want_arm_of_parent) {
                                            (Some(a), _) => a == got_else,
                                            (None, Some(a)) => got.is_none() || a == got_else,
                                            _ => true,
                                        };
                                        if got != want.0 || !arm_ok {
                                            fails.push((
                                                match *mode {
                                                    3 => "C20",
                                                    4 => "C18",
                                                    _ => "C19",
                                                },
                                                format!("{}-probe-in-wrong-construct", MODES[*mode].0),
                                                format!("probe {p} injected at {idx} ({}) stands in structural construct {:?} (else-arm: {got_else}) of the output, expected {:?}", toks[*idx], got, want.0),
                                            ));
                                        }
                                    }
                                }
                            }
                        }
                    }
                    for st in &plan {
                        if let Step::EmptyBlockAlt { idx } = st {
                            if !is_block_style(&toks[*idx]) {
                                fails.push(("C22", "empty_block_alt-on-non-block-opcode-accepted".into(), format!("at {idx} ({})", toks[*idx])));
                            }
                        }
                    }
                    // C21: a single block-alternate on a block/loop/if with nothing else in the plan touching the region
                    let alts: Vec<&Step> = plan
                        .iter()
                        .filter(|s| matches!(s, Step::At { mode: 6, .. } | Step::InjectAt { mode: 6, .. } | Step::AddAt { mode: 6, .. } | Step::EmptyBlockAlt { .. }))
                        .collect();
                    // C21 with other modes around: the same plan without the block alternate, encoded by the crate, is the reference;
                    // the replacement must stand exactly where the construct stands in it and nothing else may differ. Eligible: one
                    // block alternate; no other step on the construct, inside it or on its matching `end`; nothing in the plan that
                    // adds or removes structural tokens (flag checks of branch probes, the function-exit wrapper, alternates on
                    // structural tokens), so that the k-th structural token of the reference is the k-th of the original.
                    if alts.len() == 1 && plan.len() > 1 {
                        let (idx, repl) = match alts[0] {
                            Step::At { idx, probes, .. } | Step::InjectAt { idx, probes, .. } | Step::AddAt { idx, probes, .. } => (*idx, probes_tokens(probes)),
                            Step::EmptyBlockAlt { idx } => (*idx, vec![]),
                            _ => unreachable!(),
                        };
                        if let (true, Some(e)) = (is_block_style(&toks[idx]), match_end(&toks, idx)) {
                            let touches = |i: usize| i >= idx && i <= e;
                            let mut nalt = 0;
                            // (`add_instr_at` goes where the step in front of it left the modes: taking a step out changes its meaning)
                            let eligible = !plan.iter().any(|s| matches!(s, Step::AddAt { .. })) && plan.iter().all(|s| match s {
                                Step::At { idx: i, mode, .. } | Step::InjectAt { idx: i, mode, .. } | Step::AddAt { idx: i, mode, .. } => {
                                    if *mode == 6 {
                                        nalt += 1;
                                        true
                                    } else {
                                        !touches(*i) && !(*mode == 3 && is_branch(&toks[*i])) && !(*mode == 2 && is_structural(&toks[*i]))
                                    }
                                }
                                Step::EmptyBlockAlt { .. } => {
                                    nalt += 1;
                                    true
                                }
                                Step::EmptyAlt { idx: i } => !touches(*i) && !is_structural(&toks[*i]),
                                Step::ClearAt { idx: i, .. } => !touches(*i),
                                Step::Func { exit, .. } => !*exit,
                            }) && nalt == 1;
                            if eligible {
                                let plan_ref: Vec<Step> = plan
                                    .iter()
                                    .filter(|s| !matches!(s, Step::At { mode: 6, .. } | Step::InjectAt { mode: 6, .. } | Step::AddAt { mode: 6, .. } | Step::EmptyBlockAlt { .. }))
                                    .cloned()
                                    .collect();
                                let reference = instrument(&wat, 0, nimp, path, &plan_ref, toks.len(), nlocals_decl);
                                if let Ok((ref_out, _, _, _)) = &reference.out {
                                    let k = toks[..idx].iter().filter(|t| is_structural(t)).count();
                                    let pos: Vec<usize> = (0..ref_out.len()).filter(|i| is_structural(&ref_out[*i])).collect();
                                    if let Some(p_open) = pos.get(k).copied() {
                                        if let Some(p_end) = match_end(ref_out, p_open) {
                                            let is_else = toks[idx] == "else";
                                            let mut want: Vec<String> = ref_out[..p_open].to_vec();
                                            want.extend(repl);
                                            want.extend(ref_out[if is_else { p_end } else { p_end + 1 }..].iter().cloned());
                                            ctx.count("c21-oracle=reference-splice");
                                            if *out != want {
                                                fails.push(("C21", "block-alt-differs-from-spliced-reference".into(), format!("got {} want {}", out.join(","), want.join(","))));
                                            }
                                        }
                                    }
                                }
                            }
                        }
                    }
                    // C21 / C18-C20: what a block alternate removes is gone — special-mode probes on the removed construct itself or on
                    // a construct inside it must not reach the output (their `before` / `after` lists are a different matter: the code
                    // keeps those, and the property's quantifier leaves other modes outside the replaced region)
                    if alts.len() == 1 {
                        let idx = match alts[0] {
                            Step::At { idx, .. } | Step::InjectAt { idx, .. } | Step::AddAt { idx, .. } | Step::EmptyBlockAlt { idx } => *idx,
                            _ => unreachable!(),
                        };
                        let withdrawn = plan.iter().any(|s| matches!(s, Step::ClearAt { idx: i, mode: 6 } if *i == idx));
                        if let (false, true, Some(e)) = (withdrawn, is_block_style(&toks[idx]), match_end(&toks, idx)) {
                            // for an `else` the region is the arm (the `end` stays); otherwise the construct with its `end`
                            let hi = if toks[idx] == "else" { e } else { e + 1 };
                            for st in &plan {
                                if let Step::At { idx: i, mode, probes } | Step::InjectAt { idx: i, mode, probes } | Step::AddAt { idx: i, mode, probes } = st {
                                    // (an instruction-level alternate *is* the instruction once lowered: inside the region it goes with it)
                                    if ((3..=5).contains(mode) || (*mode == 2 && *i > idx)) && *i >= idx && *i < hi {
                                        for p in probes {
                                            // (a plain `after` list with the same body stays: the code keeps plain lists of removed instructions)
                                            let plain = plan.iter().any(|x| matches!(x, Step::At { mode: 0 | 1, probes: ps, .. } if ps.contains(p)));
                                            if !plain && out.contains(&format!("i32.const:{p}")) {
                                                fails.push((
                                                    match *mode {
                                                        2 => "C21",
                                                        3 => "C20,C21",
                                                        4 => "C18,C21",
                                                        _ => "C19,C21",
                                                    },
                                                    format!("{}-probe-of-removed-construct-emitted", MODES[*mode].0),
                                                    format!("probe {p} at {i} ({}) is in the output although the block alternate at {idx} removes it", toks[*i]),
                                                ));
                                            }
                                        }
                                    }
                                }
                            }
                        }
                    }
                    if alts.len() == 1 && plan.len() == 1 {
                        let (idx, repl) = match alts[0] {
                            Step::At { idx, probes, .. } | Step::InjectAt { idx, probes, .. } | Step::AddAt { idx, probes, .. } => (*idx, probes_tokens(probes)),
                            Step::EmptyBlockAlt { idx } => (*idx, vec![]),
                            _ => unreachable!(),
                        };
                        if let Some(e) = match_end(&toks, idx) {
                            let is_else = toks[idx] == "else";
                            let mut want: Vec<String> = toks[..idx].to_vec();
                            want.extend(repl);
                            // for `else` the keyword and the arm go, the `end` stays
                            want.extend(toks[if is_else { e } else { e + 1 }..].iter().cloned());
                            if *out != want {
                                fails.push(("C21", "block-alt-region-wrong".into(), format!("got {} want {}", out.join(","), want.join(","))));
                            }
                        }
                    }
                }
                if fails.is_empty() {
                    ctx.ok(fam, case);
                } else {
                    let mut seen = std::collections::HashSet::new();
                    for (p, s, d) in fails {
                        if seen.insert(s.clone()) {
                            ctx.fail(fam, case, p, &s, &d);
                        }
                    }
                }
            }
        }
    }
}
