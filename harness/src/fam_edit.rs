//! family `edit` (C05-C12, C09, C30 ids): edit histories on generated base modules whose entities carry unique
//! markers and whose reference sites carry unique tags, so that after encoding every reference can be resolved
//! to the entity it designates.
use crate::ctx::{guarded, Ctx};
use crate::rng::Rng;
use std::collections::{BTreeMap, HashMap};
use wasmparser::{MemArg, Operator};
use wirm::ir::function::FunctionBuilder;
use wirm::ir::id::{ExportsID, FunctionID, GlobalID, ImportsID, MemoryID, TypeID};
use wirm::ir::module::module_globals::{Global, GlobalKind, LocalGlobal};
use wirm::ir::types::{InitExpr, InitInstr, Location, Value};
use wirm::iterator::iterator_trait::IteratingInstrumenter;
use wirm::iterator::module_iterator::ModuleIterator;
use wirm::opcode::{Inject, Instrumenter};
use wirm::{DataSegment, DataSegmentKind, DataType, Module};

pub const SITE0: i32 = 1_000_000;
const FMARK: i32 = 500_000;
const GMARK: i32 = 700_000;

#[derive(Clone, Copy, PartialEq, Eq, Debug)]
pub enum Sp {
    F,
    G,
    M,
}
impl Sp {
    fn ch(self) -> char {
        match self {
            Sp::F => 'F',
            Sp::G => 'G',
            Sp::M => 'M',
        }
    }
}

/// how a global is recognised in the output
#[derive(Clone, Copy, PartialEq, Debug)]
enum GKind {
    /// `i32` with an `i32.const GMARK+uid` initialiser (local) / by import name (imported, immutable, value type index)
    Marker { mutable: bool },
    Imported { vt: usize },
    /// local immutable global of value type `vt` whose initialiser is `global.get` of an imported global: recognised by its type
    Get { vt: usize },
    /// local `funcref` global initialised with `ref.func`: recognised by its type
    RefFunc,
}

const VTS: &[(&str, DataType)] = &[("i32", DataType::I32), ("i64", DataType::I64), ("f32", DataType::F32), ("f64", DataType::F64)];

#[derive(Clone, Debug)]
struct Ent {
    uid: u32,
    sp: Sp,
    imp: bool,
    gk: Option<GKind>,
}

/// what the caller holds: an id in one index space, and the entity it currently designates
#[derive(Clone, Debug)]
struct Handle {
    sp: Sp,
    id: u32,
    cur: Option<u32>, // None: deleted
    /// handles whose stored id the API reported (additions) rather than read off the base module
    reported: bool,
}

#[derive(Clone, Copy, PartialEq, Debug)]
enum Class {
    Code { owner: u32, variant: usize },
    /// the source memory of a `memory.copy` (the site before it is the destination and carries the tag)
    CodeSrc { owner: u32 },
    GInit { owner: u32 },
    Export { pos: usize },
    Start,
    Elem,
    Raw,
    DataMem { seg: usize },
    DataOff { seg: usize },
}

#[derive(Clone, Debug)]
struct Site {
    id: u32,
    sp: Sp,
    h: usize, // index into handles
    class: Class,
}

struct World {
    ents: Vec<Ent>,
    handles: Vec<Handle>,
    sites: Vec<Site>,
    next_uid: u32,
    next_site: u32,
    export_deleted: Vec<bool>,
    used_get_vts: Vec<usize>,
    has_reffunc_global: bool,
    /// `memory.init` needs a data-count section, which only exists when the base module already used it
    allow_meminit: bool,
    /// sites injected as function-exit instrumentation (a special mode: lowered at encode time)
    special_sites: Vec<u32>,
    /// ids the API reported for an addition although an entity of that space already held them (before the first encode)
    reused_ids: Vec<(Sp, u32)>,
    /// an encode has happened (it may remove deleted entries and renumber: finding F4 is about what follows)
    encoded: bool,
    /// parsed function imports declared with the non-final type 2 (uid of the import, and the handle that designates it)
    subtyped: Vec<(u32, usize)>,
    /// the global (uid) whose type is a reference to that type
    typed_global: Option<u32>,
}

impl World {
    fn ent(&mut self, sp: Sp, imp: bool, gk: Option<GKind>) -> u32 {
        let uid = self.next_uid;
        self.next_uid += 1;
        self.ents.push(Ent { uid, sp, imp, gk });
        uid
    }
    fn handle(&mut self, sp: Sp, id: u32, uid: u32, reported: bool) -> usize {
        // an id the API reports for an addition is new: ids are positions in a vector that only grows before an encode, so an id that
        // some entity of the space already holds (live or deleted) would make the caller's two ids one
        if reported && !self.encoded && self.handles.iter().any(|h| h.sp == sp && h.id == id) {
            self.reused_ids.push((sp, id));
        }
        self.handles.push(Handle { sp, id, cur: Some(uid), reported });
        self.handles.len() - 1
    }
    fn site(&mut self, sp: Sp, h: usize, class: Class) -> Site {
        let s = Site { id: self.next_site, sp, h, class };
        self.next_site += 1;
        self.sites.push(s.clone());
        s
    }
    fn live_handles(&self, sp: Sp) -> Vec<usize> {
        (0..self.handles.len()).filter(|i| self.handles[*i].sp == sp && self.handles[*i].cur.is_some()).collect()
    }
    fn all_handles(&self, sp: Sp) -> Vec<usize> {
        (0..self.handles.len()).filter(|i| self.handles[*i].sp == sp).collect()
    }
    fn entity(&self, uid: u32) -> &Ent {
        &self.ents[uid as usize]
    }
    fn refstr(&self, s: &Site) -> String {
        format!("{}.{}{}", s.id, s.sp.ch(), self.handles[s.h].id)
    }
}

fn memarg(m: u32, align: u8) -> MemArg {
    MemArg { align, max_align: align, offset: 0, memory: m }
}

/// the operators of one code site (after its tag), as injected through the API
fn site_ops<'a>(sp: Sp, variant: usize, idx: u32, idx2: u32) -> Vec<Operator<'a>> {
    use Operator::*;
    let c0 = || I32Const { value: 0 };
    match sp {
        Sp::F => match variant {
            0 => vec![Call { function_index: idx }],
            1 => vec![RefFunc { function_index: idx }, Drop],
            _ => vec![ReturnCall { function_index: idx }],
        },
        Sp::G => {
            let o = wasmparser::Ordering::SeqCst;
            match variant {
                0 => vec![GlobalGet { global_index: idx }, Drop],
                1 => vec![c0(), GlobalSet { global_index: idx }],
                // the atomic global operators (shared-everything threads): same immediate, other opcodes
                2 => vec![GlobalAtomicGet { ordering: o, global_index: idx }, Drop],
                3 => vec![c0(), GlobalAtomicSet { ordering: o, global_index: idx }],
                4 => vec![c0(), c0(), GlobalAtomicRmwCmpxchg { ordering: o, global_index: idx }, Drop],
                5 => vec![c0(), GlobalAtomicRmwAdd { ordering: o, global_index: idx }, Drop],
                6 => vec![c0(), GlobalAtomicRmwXchg { ordering: wasmparser::Ordering::AcqRel, global_index: idx }, Drop],
                7 => vec![c0(), GlobalAtomicRmwSub { ordering: o, global_index: idx }, Drop],
                8 => vec![c0(), GlobalAtomicRmwAnd { ordering: o, global_index: idx }, Drop],
                9 => vec![c0(), GlobalAtomicRmwOr { ordering: o, global_index: idx }, Drop],
                _ => vec![c0(), GlobalAtomicRmwXor { ordering: o, global_index: idx }, Drop],
            }
        }
        Sp::M => match variant {
            0 => vec![c0(), I32Load { memarg: memarg(idx, 2) }, Drop],
            1 => vec![c0(), c0(), I32Store { memarg: memarg(idx, 2) }],
            2 => vec![MemorySize { mem: idx }, Drop],
            3 => vec![c0(), MemoryGrow { mem: idx }, Drop],
            4 => vec![c0(), c0(), c0(), MemoryFill { mem: idx }],
            5 => vec![c0(), c0(), c0(), MemoryCopy { dst_mem: idx, src_mem: idx2 }],
            6 => vec![c0(), c0(), c0(), MemoryInit { data_index: 0, mem: idx }],
            7 => vec![c0(), I32AtomicLoad { memarg: memarg(idx, 2) }, Drop],
            8 => vec![c0(), c0(), I32AtomicRmwAdd { memarg: memarg(idx, 2) }, Drop],
            9 => vec![c0(), I64AtomicLoad { memarg: memarg(idx, 3) }, Drop],
            10 => vec![c0(), V128Load { memarg: memarg(idx, 4) }, Drop],
            11 => vec![c0(), I64Const { value: 0 }, I64AtomicRmw32XchgU { memarg: memarg(idx, 2) }, Drop],
            12 => vec![c0(), I64Load32U { memarg: memarg(idx, 2) }, Drop],
            13 => vec![c0(), F64Const { value: wasmparser::Ieee64::from(0f64) }, F64Store { memarg: memarg(idx, 3) }],
            14 => vec![c0(), c0(), c0(), I32AtomicRmwCmpxchg { memarg: memarg(idx, 2) }, Drop],
            15 => vec![c0(), c0(), I64Const { value: 0 }, MemoryAtomicWait32 { memarg: memarg(idx, 2) }, Drop],
            // the eight SIMD lane accesses: a memory immediate and a lane immediate
            16 => vec![c0(), c0(), I8x16Splat, V128Load8Lane { memarg: memarg(idx, 0), lane: 0 }, Drop],
            17 => vec![c0(), c0(), I8x16Splat, V128Load16Lane { memarg: memarg(idx, 1), lane: 0 }, Drop],
            18 => vec![c0(), c0(), I8x16Splat, V128Load32Lane { memarg: memarg(idx, 2), lane: 0 }, Drop],
            19 => vec![c0(), c0(), I8x16Splat, V128Load64Lane { memarg: memarg(idx, 3), lane: 0 }, Drop],
            20 => vec![c0(), c0(), I8x16Splat, V128Store8Lane { memarg: memarg(idx, 0), lane: 0 }],
            21 => vec![c0(), c0(), I8x16Splat, V128Store16Lane { memarg: memarg(idx, 1), lane: 0 }],
            22 => vec![c0(), c0(), I8x16Splat, V128Store32Lane { memarg: memarg(idx, 2), lane: 0 }],
            _ => vec![c0(), c0(), I8x16Splat, V128Store64Lane { memarg: memarg(idx, 3), lane: 0 }],
        },
    }
}
const NVAR_M: usize = 24;

/// the same site as text, for the base module
fn site_wat(sp: Sp, variant: usize, idx: u32, idx2: u32) -> String {
    let ops = site_ops(sp, variant, idx, idx2);
    let mut s = String::new();
    for o in ops {
        use Operator::*;
        let t = match o {
            Call { function_index } => format!("call {function_index}"),
            RefFunc { function_index } => format!("ref.func {function_index}"),
            ReturnCall { function_index } => format!("return_call {function_index}"),
            Drop => "drop".into(),
            GlobalGet { global_index } => format!("global.get {global_index}"),
            GlobalSet { global_index } => format!("global.set {global_index}"),
            GlobalAtomicGet { global_index, .. } => format!("global.atomic.get seq_cst {global_index}"),
            GlobalAtomicSet { global_index, .. } => format!("global.atomic.set seq_cst {global_index}"),
            GlobalAtomicRmwCmpxchg { global_index, .. } => format!("global.atomic.rmw.cmpxchg seq_cst {global_index}"),
            GlobalAtomicRmwAdd { global_index, .. } => format!("global.atomic.rmw.add seq_cst {global_index}"),
            GlobalAtomicRmwXchg { global_index, .. } => format!("global.atomic.rmw.xchg acq_rel {global_index}"),
            GlobalAtomicRmwSub { global_index, .. } => format!("global.atomic.rmw.sub seq_cst {global_index}"),
            GlobalAtomicRmwAnd { global_index, .. } => format!("global.atomic.rmw.and seq_cst {global_index}"),
            GlobalAtomicRmwOr { global_index, .. } => format!("global.atomic.rmw.or seq_cst {global_index}"),
            GlobalAtomicRmwXor { global_index, .. } => format!("global.atomic.rmw.xor seq_cst {global_index}"),
            I32Const { value } => format!("i32.const {value}"),
            I64Const { value } => format!("i64.const {value}"),
            F64Const { .. } => "f64.const 0".into(),
            I32Load { memarg } => format!("i32.load {}", memarg.memory),
            I32Store { memarg } => format!("i32.store {}", memarg.memory),
            MemorySize { mem } => format!("memory.size {mem}"),
            MemoryGrow { mem } => format!("memory.grow {mem}"),
            MemoryFill { mem } => format!("memory.fill {mem}"),
            MemoryCopy { dst_mem, src_mem } => format!("memory.copy {dst_mem} {src_mem}"),
            MemoryInit { data_index, mem } => format!("memory.init {mem} {data_index}"),
            I32AtomicLoad { memarg } => format!("i32.atomic.load {}", memarg.memory),
            I32AtomicRmwAdd { memarg } => format!("i32.atomic.rmw.add {}", memarg.memory),
            I64AtomicLoad { memarg } => format!("i64.atomic.load {}", memarg.memory),
            V128Load { memarg } => format!("v128.load {}", memarg.memory),
            I64AtomicRmw32XchgU { memarg } => format!("i64.atomic.rmw32.xchg_u {}", memarg.memory),
            I64Load32U { memarg } => format!("i64.load32_u {}", memarg.memory),
            F64Store { memarg } => format!("f64.store {}", memarg.memory),
            I32AtomicRmwCmpxchg { memarg } => format!("i32.atomic.rmw.cmpxchg {}", memarg.memory),
            MemoryAtomicWait32 { memarg } => format!("memory.atomic.wait32 {}", memarg.memory),
            I8x16Splat => "i8x16.splat".into(),
            V128Load8Lane { memarg, lane } => format!("v128.load8_lane {} {lane}", memarg.memory),
            V128Load16Lane { memarg, lane } => format!("v128.load16_lane {} {lane}", memarg.memory),
            V128Load32Lane { memarg, lane } => format!("v128.load32_lane {} {lane}", memarg.memory),
            V128Load64Lane { memarg, lane } => format!("v128.load64_lane {} {lane}", memarg.memory),
            V128Store8Lane { memarg, lane } => format!("v128.store8_lane {} {lane}", memarg.memory),
            V128Store16Lane { memarg, lane } => format!("v128.store16_lane {} {lane}", memarg.memory),
            V128Store32Lane { memarg, lane } => format!("v128.store32_lane {} {lane}", memarg.memory),
            V128Store64Lane { memarg, lane } => format!("v128.store64_lane {} {lane}", memarg.memory),
            x => panic!("no text for {x:?}"),
        };
        s.push_str(&t);
        s.push(' ');
    }
    s
}

/// index immediates of one operator, per space
fn refs_of(op: &Operator) -> Vec<(Sp, u32)> {
    use Operator::*;
    match op {
        Call { function_index } | RefFunc { function_index } | ReturnCall { function_index } => vec![(Sp::F, *function_index)],
        GlobalGet { global_index }
        | GlobalSet { global_index }
        | GlobalAtomicGet { global_index, .. }
        | GlobalAtomicSet { global_index, .. }
        | GlobalAtomicRmwCmpxchg { global_index, .. }
        | GlobalAtomicRmwAdd { global_index, .. }
        | GlobalAtomicRmwXchg { global_index, .. }
        | GlobalAtomicRmwSub { global_index, .. }
        | GlobalAtomicRmwAnd { global_index, .. }
        | GlobalAtomicRmwOr { global_index, .. }
        | GlobalAtomicRmwXor { global_index, .. } => vec![(Sp::G, *global_index)],
        MemorySize { mem } | MemoryGrow { mem } | MemoryFill { mem } | MemoryInit { mem, .. } => vec![(Sp::M, *mem)],
        MemoryCopy { dst_mem, src_mem } => vec![(Sp::M, *dst_mem), (Sp::M, *src_mem)],
        I32Load { memarg }
        | I32Store { memarg }
        | I32AtomicLoad { memarg }
        | I32AtomicRmwAdd { memarg }
        | I64AtomicLoad { memarg }
        | V128Load { memarg }
        | I64AtomicRmw32XchgU { memarg }
        | I64Load32U { memarg }
        | F64Store { memarg }
        | I32AtomicRmwCmpxchg { memarg }
        | MemoryAtomicWait32 { memarg }
        | V128Load8Lane { memarg, .. }
        | V128Load16Lane { memarg, .. }
        | V128Load32Lane { memarg, .. }
        | V128Load64Lane { memarg, .. }
        | V128Store8Lane { memarg, .. }
        | V128Store16Lane { memarg, .. }
        | V128Store32Lane { memarg, .. }
        | V128Store64Lane { memarg, .. } => vec![(Sp::M, memarg.memory)],
        _ => vec![],
    }
}

// ---------------------------------------------------------------- decoded output
#[derive(Default, Debug)]
struct Decoded {
    /// type index of each function import (by uid text)
    imp_types: Vec<(String, u32)>,
    space: [Vec<String>; 3], // uid (as text) at each index of F, G, M; "?" when the marker is unreadable
    sites: BTreeMap<u32, String>,
    start: Option<u32>,
}

fn sp_ix(sp: Sp) -> usize {
    match sp {
        Sp::F => 0,
        Sp::G => 1,
        Sp::M => 2,
    }
}

fn const_expr_refs(e: &wasmparser::ConstExpr) -> Vec<(Sp, u32)> {
    let mut v = vec![];
    for op in e.get_operators_reader() {
        if let Ok(op) = op {
            v.extend(refs_of(&op));
        }
    }
    v
}

fn decode(wasm: &[u8], w: &World, positional: &Positional) -> Result<Decoded, String> {
    use wasmparser::{Parser, Payload};
    let mut d = Decoded::default();
    let mut fn_bodies = 0usize;
    let mut nimp_f = 0usize;
    let e2s = |e: wasmparser::BinaryReaderError| e.to_string();
    let mut elem_fn: Vec<u32> = vec![];
    let mut raw: Vec<(Sp, u32)> = vec![];
    let mut data_refs: Vec<(String, u32, Vec<(Sp, u32)>)> = vec![];
    let mut exports: Vec<(String, Sp, u32)> = vec![];
    for p in Parser::new(0).parse_all(wasm) {
        match p.map_err(e2s)? {
            Payload::ImportSection(r) => {
                for imp in r {
                    let imp = imp.map_err(e2s)?;
                    let uid = imp.name[1..].to_string();
                    match imp.ty {
                        wasmparser::TypeRef::Func(t) => {
                            d.imp_types.push((uid.clone(), t));
                            d.space[0].push(uid);
                            nimp_f += 1;
                        }
                        wasmparser::TypeRef::Global(_) => d.space[1].push(uid),
                        wasmparser::TypeRef::Memory(_) => d.space[2].push(uid),
                        _ => {}
                    }
                }
            }
            Payload::MemorySection(r) => {
                for m in r {
                    let m = m.map_err(e2s)?;
                    d.space[2].push(format!("{}", m.initial as i64 - 1));
                }
            }
            Payload::GlobalSection(r) => {
                for g in r {
                    let g = g.map_err(e2s)?;
                    let mut ops = g.init_expr.get_operators_reader();
                    let first = ops.read().map_err(e2s)?;
                    let uid = match first {
                        Operator::I32Const { value } if value >= GMARK && value < GMARK + 100_000 => format!("{}", (value - GMARK) % 10_000),
                        Operator::GlobalGet { .. } => {
                            // recognised by value type
                            let vt = match g.ty.content_type {
                                wasmparser::ValType::I32 => 0,
                                wasmparser::ValType::I64 => 1,
                                wasmparser::ValType::F32 => 2,
                                _ => 3,
                            };
                            w.ents
                                .iter()
                                .find(|e| e.gk == Some(GKind::Get { vt }))
                                .map_or("?".to_string(), |e| e.uid.to_string())
                        }
                        Operator::RefFunc { .. } => {
                            w.ents.iter().find(|e| e.gk == Some(GKind::RefFunc)).map_or("?".to_string(), |e| e.uid.to_string())
                        }
                        _ => "?".to_string(),
                    };
                    // the sites of the initialiser belong to this global
                    if let Ok(u) = uid.parse::<u32>() {
                        let owned: Vec<&Site> = w.sites.iter().filter(|s| s.class == Class::GInit { owner: u }).collect();
                        let refs = const_expr_refs(&g.init_expr);
                        // the *last* GInit site of the owner is the current one (mod_global_init replaces the expression)
                        if let (Some(s), Some(r)) = (owned.last(), refs.first()) {
                            d.sites.insert(s.id, format!("{}{}", r.0.ch(), r.1));
                        }
                    }
                    d.space[1].push(uid);
                }
            }
            Payload::ExportSection(r) => {
                for e in r {
                    let e = e.map_err(e2s)?;
                    let sp = match e.kind {
                        wasmparser::ExternalKind::Func => Sp::F,
                        wasmparser::ExternalKind::Global => Sp::G,
                        wasmparser::ExternalKind::Memory => Sp::M,
                        _ => continue,
                    };
                    exports.push((e.name.to_string(), sp, e.index));
                }
            }
            Payload::StartSection { func, .. } => d.start = Some(func),
            Payload::ElementSection(r) => {
                for el in r {
                    let el = el.map_err(e2s)?;
                    if let wasmparser::ElementKind::Active { offset_expr, .. } = &el.kind {
                        raw.extend(const_expr_refs(offset_expr));
                    }
                    match el.items {
                        wasmparser::ElementItems::Functions(fs) => {
                            for f in fs {
                                elem_fn.push(f.map_err(e2s)?);
                            }
                        }
                        wasmparser::ElementItems::Expressions(_, es) => {
                            for e in es {
                                raw.extend(const_expr_refs(&e.map_err(e2s)?));
                            }
                        }
                    }
                }
            }
            Payload::TableSection(r) => {
                for t in r {
                    if let wasmparser::TableInit::Expr(e) = t.map_err(e2s)?.init {
                        raw.extend(const_expr_refs(&e));
                    }
                }
            }
            Payload::DataSection(r) => {
                for dd in r {
                    let dd = dd.map_err(e2s)?;
                    if let wasmparser::DataKind::Active { memory_index, offset_expr } = dd.kind {
                        data_refs.push((String::from_utf8_lossy(dd.data).to_string(), memory_index, const_expr_refs(&offset_expr)));
                    }
                }
            }
            Payload::CodeSectionEntry(b) => {
                let _ = nimp_f;
                let mut first = true;
                let mut pending: Option<u32> = None;
                // tags whose operator has not been seen yet because code was lowered in between (function-exit code goes in
                // front of a `return_call`, behind its tag): innermost last
                let mut outer: Vec<u32> = vec![];
                for op in b.get_operators_reader().map_err(e2s)? {
                    let op = op.map_err(e2s)?;
                    if first {
                        // the wrapper block of function-exit instrumentation sits in front of the marker
                        if matches!(op, Operator::Block { .. }) {
                            continue;
                        }
                        first = false;
                        let uid = match op {
                            Operator::I32Const { value } if value >= FMARK && value < FMARK + 100_000 => format!("{}", value - FMARK),
                            _ => "?".to_string(),
                        };
                        d.space[0].push(uid);
                        continue;
                    }
                    if let Operator::I32Const { value } = op {
                        if value >= SITE0 {
                            if let Some(s) = pending.take() {
                                outer.push(s);
                            }
                            pending = Some((value - SITE0) as u32);
                            continue;
                        }
                    }
                    if pending.is_none() && !refs_of(&op).is_empty() && matches!(op, Operator::ReturnCall { .. }) {
                        pending = outer.pop();
                    }
                    if let Some(s) = pending {
                        let rs = refs_of(&op);
                        if !rs.is_empty() {
                            d.sites.insert(s, format!("{}{}", rs[0].0.ch(), rs[0].1));
                            if rs.len() == 2 {
                                // memory.copy: the next site number is the source memory
                                d.sites.insert(s + 1, format!("{}{}", rs[1].0.ch(), rs[1].1));
                            }
                            pending = None;
                        }
                    }
                }
                fn_bodies += 1;
            }
            _ => {}
        }
    }
    let _ = fn_bodies;
    // positional sites
    for (name, sp, idx) in exports {
        if let Some(site) = name.strip_prefix('e').and_then(|s| s.parse::<u32>().ok()) {
            d.sites.insert(site, format!("{}{}", sp.ch(), idx));
        }
    }
    for (k, f) in elem_fn.iter().enumerate() {
        if let Some(s) = positional.elem.get(k) {
            d.sites.insert(*s, format!("F{f}"));
        }
    }
    for (k, r) in raw.iter().enumerate() {
        if let Some(s) = positional.raw.get(k) {
            d.sites.insert(*s, format!("{}{}", r.0.ch(), r.1));
        }
    }
    for (content, mem, off) in data_refs {
        if let Some(seg) = content.strip_prefix('d').and_then(|s| s.parse::<usize>().ok()) {
            for s in &w.sites {
                if s.class == (Class::DataMem { seg }) {
                    d.sites.insert(s.id, format!("M{mem}"));
                }
                if s.class == (Class::DataOff { seg }) {
                    if let Some(r) = off.first() {
                        d.sites.insert(s.id, format!("{}{}", r.0.ch(), r.1));
                    }
                }
            }
        }
    }
    Ok(d)
}

#[derive(Default)]
struct Positional {
    elem: Vec<u32>,
    raw: Vec<u32>,
}

/// index text ("F3") -> uid text through the decoded spaces
fn resolve(d: &Decoded, t: &str) -> String {
    let sp = match t.chars().next() {
        Some('F') => 0,
        Some('G') => 1,
        _ => 2,
    };
    let look = |n: &str| -> String { n.parse::<usize>().ok().and_then(|i| d.space[sp].get(i).cloned()).unwrap_or("?".into()) };
    if let Some((a, b)) = t[1..].split_once('/') {
        format!("{}/{}", look(a), look(b))
    } else {
        look(&t[1..])
    }
}

// ---------------------------------------------------------------- generation
struct Base {
    wat: String,
    case_tokens: String,
    positional: Positional,
    /// (handle index of the function, number of instructions of its body) for injection
    nlocal_funcs: usize,
}

fn gen_base(r: &mut Rng, w: &mut World, shape: usize) -> Base {
    // import list: kinds interleaved
    let n_fi = [0, 2, 3, 1][shape % 4] + r.below(2);
    let n_gi = if shape % 4 == 0 { r.below(2) } else { r.range(1, 3) };
    let n_mi = r.below(2);
    let n_other = r.below(3);
    let mut kinds: Vec<char> = vec![];
    kinds.extend(std::iter::repeat('F').take(n_fi));
    kinds.extend(std::iter::repeat('G').take(n_gi));
    kinds.extend(std::iter::repeat('M').take(n_mi));
    kinds.extend(std::iter::repeat('T').take(n_other));
    // shuffle
    for i in (1..kinds.len()).rev() {
        let j = r.below(i + 1);
        kinds.swap(i, j);
    }
    let n_fl = if shape == 7 { 0 } else { r.range(1, 4) };
    let n_gl = r.range(0, 3);
    let n_ml = r.range(if n_mi == 0 { 1 } else { 0 }, 2);
    // two structurally equal function types: imports (parsed, added, converted) are declared with type 0, local functions with type 1
    // and a third one that is not final: a function put in the place of an import declared with it has to keep that very type
    let mut wat = String::from("(module\n  (type (func))\n  (type (func))\n  (type (sub (func)))\n");
    let mut imp_tokens = vec![];
    let mut f_tokens = vec![];
    let mut g_tokens = vec![];
    let mut m_tokens = vec![];
    let mut ids = [0u32; 3];
    let mut t_count = 0;
    // imports
    for k in &kinds {
        match k {
            'F' => {
                let uid = w.ent(Sp::F, true, None);
                let h = w.handle(Sp::F, ids[0], uid, false);
                ids[0] += 1;
                let ty = if r.chance(1, 4) {
                    w.subtyped.push((uid, h));
                    2
                } else {
                    0
                };
                wat.push_str(&format!("  (import \"env\" \"f{uid}\" (func (type {ty})))\n"));
                imp_tokens.push(format!("F{uid}"));
                f_tokens.push(format!("i{uid}"));
            }
            'G' => {
                let vt = r.below(VTS.len());
                let uid = w.ent(Sp::G, true, Some(GKind::Imported { vt }));
                w.handle(Sp::G, ids[1], uid, false);
                ids[1] += 1;
                wat.push_str(&format!("  (import \"env\" \"g{uid}\" (global {}))\n", VTS[vt].0));
                imp_tokens.push(format!("G{uid}"));
                g_tokens.push(format!("i{uid}"));
            }
            'M' => {
                let uid = w.ent(Sp::M, true, None);
                w.handle(Sp::M, ids[2], uid, false);
                ids[2] += 1;
                wat.push_str(&format!("  (import \"env\" \"m{uid}\" (memory 1))\n"));
                imp_tokens.push(format!("M{uid}"));
                m_tokens.push(format!("i{uid}"));
            }
            _ => {
                if t_count % 2 == 0 {
                    wat.push_str(&format!("  (import \"env\" \"t{t_count}\" (table 1 funcref))\n"));
                } else {
                    wat.push_str(&format!("  (import \"env\" \"x{t_count}\" (tag (type 0)))\n"));
                }
                imp_tokens.push(format!("T{t_count}"));
                t_count += 1;
            }
        }
    }
    // local entities (handles first, bodies later because sites refer to any handle)
    let mut local_f = vec![];
    for _ in 0..n_fl {
        let uid = w.ent(Sp::F, false, None);
        let h = w.handle(Sp::F, ids[0], uid, false);
        ids[0] += 1;
        local_f.push((uid, h));
        f_tokens.push(format!("l{uid}"));
    }
    let mut local_g = vec![];
    for _ in 0..n_gl {
        // a `global.get` global needs an imported global of its type and a free identifying type
        let imported: Vec<usize> = w.all_handles(Sp::G).into_iter().filter(|h| w.entity(w.handles[*h].cur.unwrap()).imp).collect();
        let choice = r.weighted(&[5, 2, 1]);
        let gk = if choice == 1 && !imported.is_empty() {
            let th = *r.pick(&imported);
            let vt = match w.entity(w.handles[th].cur.unwrap()).gk {
                Some(GKind::Imported { vt }) => vt,
                _ => 0,
            };
            if w.used_get_vts.contains(&vt) {
                GKind::Marker { mutable: r.chance(2, 3) }
            } else {
                w.used_get_vts.push(vt);
                GKind::Get { vt }
            }
        } else if choice == 2 && !w.has_reffunc_global && ids[0] > 0 {
            w.has_reffunc_global = true;
            GKind::RefFunc
        } else {
            GKind::Marker { mutable: r.chance(2, 3) }
        };
        let uid = w.ent(Sp::G, false, Some(gk));
        let h = w.handle(Sp::G, ids[1], uid, false);
        ids[1] += 1;
        local_g.push((uid, h, gk));
        g_tokens.push(format!("l{uid}"));
    }
    for _ in 0..n_ml {
        let uid = w.ent(Sp::M, false, None);
        w.handle(Sp::M, ids[2], uid, false);
        ids[2] += 1;
        m_tokens.push(format!("l{uid}"));
    }
    // table for raw sites
    let mut positional = Positional::default();
    let mut raw_tokens = vec![];
    let fh = w.all_handles(Sp::F);
    let has_table_init = !fh.is_empty() && r.chance(1, 3);
    if has_table_init {
        let h = *r.pick(&fh);
        let s = w.site(Sp::F, h, Class::Raw);
        wat.push_str(&format!("  (table 1 funcref (ref.func {}))\n", w.handles[h].id));
        positional.raw.push(s.id);
        raw_tokens.push(w.refstr(&s));
    } else {
        wat.push_str("  (table 4 funcref)\n");
    }
    // memories
    for t in &m_tokens {
        if let Some(u) = t.strip_prefix('l') {
            wat.push_str(&format!("  (memory {})\n", u.parse::<u32>().unwrap() + 1));
        }
    }
    // globals
    let mut ginit_tokens = vec![];
    for (uid, _h, gk) in &local_g {
        match gk {
            GKind::Marker { mutable } => {
                let ty = if *mutable { "(mut i32)" } else { "i32" };
                wat.push_str(&format!("  (global {ty} (i32.const {}))\n", GMARK + *uid as i32));
            }
            GKind::Get { vt } => {
                let cands: Vec<usize> = w
                    .all_handles(Sp::G)
                    .into_iter()
                    .filter(|h| w.entity(w.handles[*h].cur.unwrap()).gk == Some(GKind::Imported { vt: *vt }))
                    .collect();
                let th = *r.pick(&cands);
                let s = w.site(Sp::G, th, Class::GInit { owner: *uid });
                wat.push_str(&format!("  (global {} (global.get {}))\n", VTS[*vt].0, w.handles[th].id));
                ginit_tokens.push(format!("{uid}:{}", w.refstr(&s)));
            }
            GKind::RefFunc => {
                // preferably a function import of the non-final type, held in a global of exactly that reference type
                let typed: Vec<usize> = w.subtyped.iter().map(|(_, h)| *h).collect();
                let th = if !typed.is_empty() && r.chance(2, 3) { *r.pick(&typed) } else { *r.pick(&fh) };
                let s = w.site(Sp::F, th, Class::GInit { owner: *uid });
                let gty = if typed.contains(&th) {
                    w.typed_global = Some(*uid);
                    "(ref null 2)"
                } else {
                    "funcref"
                };
                wat.push_str(&format!("  (global {gty} (ref.func {}))\n", w.handles[th].id));
                ginit_tokens.push(format!("{uid}:{}", w.refstr(&s)));
            }
            _ => {}
        }
    }
    // exports
    let mut exp_tokens = vec![];
    let nexp = r.below(5);
    for _ in 0..nexp {
        let sp = [Sp::F, Sp::G, Sp::M][r.weighted(&[3, 2, 2])];
        let hs = w.all_handles(sp);
        if hs.is_empty() {
            continue;
        }
        let h = *r.pick(&hs);
        let pos = w.export_deleted.len();
        let s = w.site(sp, h, Class::Export { pos });
        w.export_deleted.push(false);
        let kind = match sp {
            Sp::F => "func",
            Sp::G => "global",
            Sp::M => "memory",
        };
        wat.push_str(&format!("  (export \"e{}\" ({kind} {}))\n", s.id, w.handles[h].id));
        exp_tokens.push(w.refstr(&s));
    }
    // start
    let mut start_token = "-".to_string();
    if !fh.is_empty() && r.chance(1, 3) {
        let h = *r.pick(&fh);
        let s = w.site(Sp::F, h, Class::Start);
        wat.push_str(&format!("  (start {})\n", w.handles[h].id));
        start_token = w.refstr(&s);
    }
    // elements: one passive function list, one expression list, one active with a global.get offset
    let mut elem_tokens = vec![];
    if !fh.is_empty() && r.chance(2, 3) {
        let n = r.range(1, 3);
        let mut items = String::new();
        for _ in 0..n {
            let h = *r.pick(&fh);
            let s = w.site(Sp::F, h, Class::Elem);
            items.push_str(&format!(" {}", w.handles[h].id));
            positional.elem.push(s.id);
            elem_tokens.push(w.refstr(&s));
        }
        wat.push_str(&format!("  (elem func{items})\n"));
    }
    if !fh.is_empty() && r.chance(1, 3) {
        let h = *r.pick(&fh);
        let s = w.site(Sp::F, h, Class::Raw);
        // half of these segments are declared with a concrete function reference type (type 1 = `(func)`, which the functions of
        // type 0 have as well; not the ones declared with the non-final type 2): a typed segment is a reference site like any other
        let typed = s.id % 2 == 0 && !w.subtyped.iter().any(|(_, y)| *y == h);
        wat.push_str(&format!("  (elem {} (ref.func {}))\n", if typed { "(ref null 1)" } else { "funcref" }, w.handles[h].id));
        positional.raw.push(s.id);
        raw_tokens.push(w.refstr(&s));
    }
    let i32_imports: Vec<usize> =
        w.all_handles(Sp::G).into_iter().filter(|h| w.entity(w.handles[*h].cur.unwrap()).gk == Some(GKind::Imported { vt: 0 })).collect();
    if !i32_imports.is_empty() && r.chance(1, 3) {
        let h = *r.pick(&i32_imports);
        let s = w.site(Sp::G, h, Class::Raw);
        wat.push_str(&format!("  (elem (table 0) (offset (global.get {})) funcref)\n", w.handles[h].id));
        positional.raw.push(s.id);
        raw_tokens.push(w.refstr(&s));
    }
    // code
    let mut code_tokens = vec![];
    for (uid, _h) in &local_f {
        let mut body = format!("  (func (type 1) i32.const {} drop ", FMARK + *uid as i32);
        let mut toks = vec![];
        let nsites = r.weighted(&[1, 3, 3, 2, 1]);
        for _ in 0..nsites {
            if let Some((ss, text)) = gen_code_site(r, w, *uid) {
                body.push_str(&format!("i32.const {} drop {} ", SITE0 + ss[0].id as i32, text));
                for s in &ss {
                    toks.push(w.refstr(s));
                }
            }
        }
        body.push_str(")\n");
        wat.push_str(&body);
        code_tokens.push(format!("{uid}:{}", if toks.is_empty() { "-".to_string() } else { toks.join("+") }));
    }
    // data: segment 0 passive (for memory.init), then active segments named by their number
    wat.push_str("  (data \"p\")\n");
    let mut data_tokens = vec![];
    let mh = w.all_handles(Sp::M);
    let ndata = r.below(3);
    for k in 0..ndata {
        let seg = k + 1;
        let h = *r.pick(&mh);
        let ms = w.site(Sp::M, h, Class::DataMem { seg });
        if !i32_imports.is_empty() && r.chance(1, 2) {
            let gh = *r.pick(&i32_imports);
            let os = w.site(Sp::G, gh, Class::DataOff { seg });
            wat.push_str(&format!("  (data (memory {}) (offset (global.get {})) \"d{seg}\")\n", w.handles[h].id, w.handles[gh].id));
            data_tokens.push(format!("{}:{}", w.refstr(&ms), w.refstr(&os)));
        } else {
            wat.push_str(&format!("  (data (memory {}) (i32.const 0) \"d{seg}\")\n", w.handles[h].id));
            data_tokens.push(format!("{}:-", w.refstr(&ms)));
        }
    }
    wat.push_str(")\n");
    let j = |v: &Vec<String>, sep: &str| if v.is_empty() { "-".to_string() } else { v.join(sep) };
    let case_tokens = format!(
        "F={} G={} M={} IMP={} CODE={} GINIT={} EXP={} START={} ELEM={} RAW={} DATA={} NDATA={}",
        j(&f_tokens, ","),
        j(&g_tokens, ","),
        j(&m_tokens, ","),
        j(&imp_tokens, ","),
        j(&code_tokens, "/"),
        j(&ginit_tokens, "/"),
        j(&exp_tokens, "+"),
        start_token,
        j(&elem_tokens, "+"),
        j(&raw_tokens, "+"),
        j(&data_tokens, "/"),
        ndata + 1
    );
    Base { wat, case_tokens, positional, nlocal_funcs: n_fl }
}

/// a code site in the function `owner`: target any handle of a random space (sometimes a dead one)
fn gen_code_site(r: &mut Rng, w: &mut World, owner: u32) -> Option<(Vec<Site>, String)> {
    let sp = [Sp::F, Sp::G, Sp::M][r.weighted(&[4, 3, 4])];
    let live = w.live_handles(sp);
    let all = w.all_handles(sp);
    if all.is_empty() {
        return None;
    }
    let h = if live.is_empty() || r.chance(1, 12) { *r.pick(&all) } else { *r.pick(&live) };
    let variant = match sp {
        Sp::F => r.weighted(&[5, 3, 1]),
        Sp::G => {
            // marker globals are i32: all eleven operators apply to the mutable ones, the two reads to the others
            let gk = w.handles[h].cur.and_then(|u| w.entity(u).gk);
            match gk {
                Some(GKind::Marker { mutable: true }) => *r.pick(&[0usize, 0, 1, 1, 2, 3, 4, 4, 5, 6, 7, 8, 9, 10]),
                Some(GKind::Marker { mutable: false }) => *r.pick(&[0usize, 0, 2]),
                _ => 0,
            }
        }
        Sp::M => {
            // (`memory.copy`, the only operator with two memory immediates, one time in eight)
            let v = if r.chance(1, 8) { 5 } else { r.below(NVAR_M) };
            if v == 6 && !w.allow_meminit {
                0
            } else {
                v
            }
        }
    };
    let s = w.site(sp, h, Class::Code { owner, variant });
    let mut sites = vec![s];
    let mut id2 = w.handles[h].id;
    if sp == Sp::M && variant == 5 {
        // memory.copy between two (usually different) memories
        let pool = if live.is_empty() { all.clone() } else { live.clone() };
        // within one memory one time in three
        let h2 = if r.chance(1, 3) { h } else { *r.pick(&pool) };
        id2 = w.handles[h2].id;
        sites.push(w.site(Sp::M, h2, Class::CodeSrc { owner }));
    }
    let text = site_wat(sp, variant, w.handles[h].id, id2);
    Some((sites, text))
}

fn inject_sites<'a, T: Inject<'a>>(t: &mut T, sites: &[Site], w: &World) {
    let mut k = 0;
    while k < sites.len() {
        let s = &sites[k];
        if let Class::Code { variant, .. } = s.class {
            let idx = w.handles[s.h].id;
            let mut idx2 = idx;
            if let Some(n) = sites.get(k + 1) {
                if matches!(n.class, Class::CodeSrc { .. }) {
                    idx2 = w.handles[n.h].id;
                    k += 1;
                }
            }
            t.inject(Operator::I32Const { value: SITE0 + s.id as i32 });
            t.inject(Operator::Drop);
            for op in site_ops(s.sp, variant, idx, idx2) {
                t.inject(op);
            }
        }
        k += 1;
    }
}

#[derive(Clone, Debug)]
enum Op {
    Alf { uid: u32, sites: Vec<Site> },
    Aif { uid: u32 },
    Df { h: usize },
    L2i { h: usize, uid: u32 },
    Ri { imp_id: u32, h: Option<usize>, uid: u32, sites: Vec<Site> },
    Inj { h: usize, sites: Vec<Site>, at: usize },
    Ag { uid: u32, gk: GKind, site: Option<Site> },
    Aig { uid: u32, vt: usize },
    Iag { uid: u32 },
    Dg { h: usize },
    Mg { h: usize, site: Option<Site>, version: i32 },
    Alm { uid: u32 },
    Aim { uid: u32 },
    Dm { h: usize },
    Aex { site: Site },
    Dex { pos: usize },
    Ad { seg: usize, mem: Site, off: Option<Site> },
    Enc,
}

pub fn run(ctx: &mut Ctx) {
    let fam = "edit";
    for case in 0..ctx.n {
        if !ctx.wants(case) {
            continue;
        }
        // one case in five is *enumerated*: a fixed base per shape and focus, and a history read off the case number digit by digit
        // over the operations available in the current world (bounded-exhaustive: every history of length 1, 2, ... in turn)
        let enumerated: Option<u64> = if case % 5 == 4 { Some(case / 5) } else { None };
        let mut r = match enumerated {
            Some(e) => Rng::new(20260921, "edit-enum-base", e % 24),
            None => Rng::new(ctx.seed, fam, case),
        };
        let mut w = World {
            ents: vec![],
            handles: vec![],
            sites: vec![],
            next_uid: 0,
            next_site: 0,
            export_deleted: vec![],
            used_get_vts: vec![],
            has_reffunc_global: false,
            allow_meminit: true,
            special_sites: vec![],
            reused_ids: vec![],
            encoded: false,
            subtyped: vec![],
            typed_global: None,
        };
        let shape = match enumerated {
            Some(e) => ((e % 24) / 3) as usize,
            None => r.below(8),
        };
        let focus = enumerated.map_or(0, |e| (e % 3) as usize);
        let mut digits: u64 = enumerated.map_or(0, |e| e / 24);
        let base = gen_base(&mut r, &mut w, shape);
        w.allow_meminit = w.sites.iter().any(|s| matches!(s.class, Class::Code { variant: 6, .. }) && s.sp == Sp::M);
        let bytes = match wat::parse_str(&base.wat) {
            Ok(b) => b,
            Err(e) => panic!("generator produced bad wat: {e}\n{}", base.wat),
        };
        if let Err(e) = wasmparser::Validator::new_with_features(wasmparser::WasmFeatures::all()).validate_all(&bytes) {
            let msg = e.to_string();
            if !msg.contains("undeclared function reference") {
                panic!("generator produced an invalid base module: {e}\n{}", base.wat);
            }
        }
        let mut positional = base.positional;
        // ------------- run the history against the real crate, generating each operation from the current world
        // enumerated: the length is the number of digits (the most significant digit is read last, so every prefix-free history occurs once)
        let mut nops = r.weighted(&[1, 2, 3, 3, 3, 2, 2, 1, 1]);
        let double_encode = r.chance(1, 5) && enumerated.is_none();
        if enumerated.is_some() {
            nops = 6;
            ctx.count("history=enumerated");
        }
        let mut op_tokens: Vec<String> = vec![];
        let mut rets: Vec<String> = vec![];
        let mut encs: Vec<Result<Vec<u8>, String>> = vec![];
        let mut api_panic: Option<(String, String)> = None;
        // conversions of a live local function that the API refused (returned `false`)
        let mut l2i_refused: Vec<String> = vec![];
        let mut imports_len = base.case_tokens.split(' ').find(|t| t.starts_with("IMP=")).map_or(0, |t| if &t[4..] == "-" { 0 } else { t[4..].split(',').count() }) as u32;
        // ImportsID of each function-import handle (for replace_import)
        let mut import_ids: HashMap<usize, u32> = HashMap::new();
        {
            let imp = base.case_tokens.split(' ').find(|t| t.starts_with("IMP=")).unwrap()[4..].to_string();
            if imp != "-" {
                for (k, t) in imp.split(',').enumerate() {
                    if let Some(u) = t.strip_prefix('F').and_then(|u| u.parse::<u32>().ok()) {
                        let h = w.handles.iter().position(|h| h.sp == Sp::F && h.cur == Some(u)).unwrap();
                        import_ids.insert(h, k as u32);
                    }
                }
            }
        }
        let mut nfuncs_local_bodies: HashMap<u32, usize> = HashMap::new(); // uid -> #instructions (lower bound 1)
        let _ = &mut nfuncs_local_bodies;
        let mut module = Module::parse(&bytes, true).expect("base module parses");
        let mut leaked: Vec<String> = vec![];
        let _ = &mut leaked;
        // a function that was just put in the place of an import gets function-exit code next (half of the time): special modes on
        // functions the parser never counted as local
        let mut followup: Option<(usize, bool)> = None;
        // before two consecutive encodes, one history in three first deletes every export of the base module (a module whose exports
        // are all tombstones: the export section is still written, empty)
        let n_base_exports = w.export_deleted.len();
        let purge_exports = double_encode && enumerated.is_none() && n_base_exports > 0 && r.chance(1, 3);
        if purge_exports {
            nops = nops.max(n_base_exports + 1);
            ctx.count("history=all-exports-deleted-then-two-encodes");
        }
        for step in 0..=nops {
            let mut last = step == nops;
            // ---- choose an operation
            let mut chosen: Option<Op> = None;
            if purge_exports && !last && step < n_base_exports {
                chosen = Some(Op::Dex { pos: step });
            }
            if let (Some((h, delete)), false, true, true) = (followup.take(), last, enumerated.is_none(), chosen.is_none()) {
                if delete {
                    // … or is deleted again (an import slot that was vacated twice)
                    if w.handles[h].cur.is_some() {
                        chosen = Some(Op::Df { h });
                    }
                } else if let Some(owner) = w.handles[h].cur {
                    if !w.entity(owner).imp {
                        let mut sites = vec![];
                        if let Some((ss, _)) = gen_code_site(&mut r, &mut w, owner) {
                            sites.extend(ss);
                        }
                        chosen = Some(Op::Inj { h, sites, at: 3 });
                    }
                }
            }
            if enumerated.is_some() && !last {
                // digits are written in bijective numeration: 0 = end of the history
                if digits == 0 {
                    last = true;
                } else {
                    let cs = candidates(&w, &import_ids, focus);
                    let n = cs.len() as u64;
                    let dgt = (digits - 1) % n;
                    digits = (digits - 1) / n;
                    chosen = Some(materialise(&cs[dgt as usize], &mut w));
                }
            }
            let op = if last {
                Op::Enc
            } else if let Some(o) = chosen {
                o
            } else {
                gen_op(&mut r, &mut w, &import_ids)
            };
            if let Op::Inj { at: 3, sites, .. } = &op {
                w.special_sites.extend(sites.iter().map(|s| s.id));
                ctx.count("inject=function-exit");
            }
            if let (Op::Ri { h: Some(h), .. }, true) = (&op, enumerated.is_none()) {
                if r.chance(1, 2) {
                    followup = Some((*h, false));
                } else if r.chance(1, 3) {
                    followup = Some((*h, true));
                }
            }
            // ---- token for the model
            let refs = |w: &World, ss: &Vec<Site>| if ss.is_empty() { "-".to_string() } else { ss.iter().map(|s| w.refstr(s)).collect::<Vec<_>>().join("+") };
            let tok = match &op {
                Op::Alf { uid, sites } => format!("alf:{uid}:{}", refs(&w, sites)),
                Op::Aif { uid } => format!("aif:{uid}"),
                Op::Df { h } => format!("df:{}", w.handles[*h].id),
                Op::L2i { h, uid } => format!("l2i:{}:{uid}", w.handles[*h].id),
                Op::Ri { imp_id, uid, sites, .. } => format!("ri:{imp_id}:{uid}:{}", refs(&w, sites)),
                Op::Inj { h, sites, .. } => format!("inj:{}:{}", w.handles[*h].id, refs(&w, sites)),
                Op::Ag { uid, site, .. } => format!("ag:{uid}:{}", site.as_ref().map_or("-".to_string(), |s| w.refstr(s))),
                Op::Aig { uid, .. } => format!("aig:{uid}"),
                Op::Iag { uid } => format!("iag:{uid}:-"),
                Op::Dg { h } => format!("dg:{}", w.handles[*h].id),
                Op::Mg { h, site, .. } => format!("mg:{}:{}", w.handles[*h].id, site.as_ref().map_or("-".to_string(), |s| w.refstr(s))),
                Op::Alm { uid } => format!("alm:{uid}"),
                Op::Aim { uid } => format!("aim:{uid}"),
                Op::Dm { h } => format!("dm:{}", w.handles[*h].id),
                Op::Aex { site } => format!("aex:{}", w.refstr(site)),
                Op::Dex { pos } => format!("dex:{pos}"),
                Op::Ad { mem, off, .. } => format!("ad:{}:{}", w.refstr(mem), off.as_ref().map_or("-".to_string(), |s| w.refstr(s))),
                Op::Enc => "enc".to_string(),
            };
            op_tokens.push(tok.clone());
            ctx.count(&format!("op={}", tok.split(':').next().unwrap()));
            // ---- apply to the real module
            let res = guarded(|| apply(&mut module, &op, &w));
            match res {
                Err(p) => {
                    rets.push("PANIC".into());
                    if matches!(op, Op::Enc) {
                        encs.push(Err(p));
                    } else {
                        api_panic = Some((tok.clone(), p));
                    }
                    break;
                }
                Ok(ret) => {
                    // ---- update the world with what the API reported
                    match (&op, &ret) {
                        (Op::Alf { uid, .. }, Ret::Id(id)) => {
                            w.handle(Sp::F, *id, *uid, true);
                        }
                        (Op::Aif { uid }, Ret::Id2(id, imp)) => {
                            let h = w.handle(Sp::F, *id, *uid, true);
                            import_ids.insert(h, *imp);
                            imports_len += 1;
                        }
                        (Op::Df { h }, _) | (Op::Dg { h }, _) | (Op::Dm { h }, _) => w.handles[*h].cur = None,
                        (Op::L2i { h, uid }, Ret::Bool(true)) => {
                            w.handles[*h].cur = Some(*uid);
                            if w.subtyped.iter().any(|(_, y)| y == h) {
                                // (the import was declared with the function's own, non-final type)
                                w.subtyped.push((*uid, *h));
                            }
                            import_ids.insert(*h, imports_len);
                            imports_len += 1;
                        }
                        (Op::L2i { h, .. }, Ret::Bool(false)) => {
                            // only live *local* functions are ever converted: a refusal leaves the body where C11 wants an import
                            l2i_refused.push(format!("function id {} after {}", w.handles[*h].id, op_tokens[..op_tokens.len() - 1].join(";")));
                        }
                        (Op::Ri { h: Some(h), uid, .. }, _) => {
                            w.handles[*h].cur = Some(*uid);
                            import_ids.remove(h);
                        }
                        (Op::Ag { uid, .. }, Ret::Id(id)) | (Op::Iag { uid }, Ret::Id(id)) => {
                            w.handle(Sp::G, *id, *uid, true);
                        }
                        (Op::Aig { uid, .. }, Ret::Id2(id, _)) => {
                            w.handle(Sp::G, *id, *uid, true);
                            imports_len += 1;
                        }
                        (Op::Alm { uid }, Ret::Id(id)) => {
                            w.handle(Sp::M, *id, *uid, true);
                        }
                        (Op::Aim { uid }, Ret::Id2(id, _)) => {
                            w.handle(Sp::M, *id, *uid, true);
                            imports_len += 1;
                        }
                        (Op::Dex { pos }, _) => w.export_deleted[*pos] = true,
                        _ => {}
                    }
                    rets.push(match &ret {
                        Ret::Id(i) => format!("i{i}"),
                        Ret::Id2(i, p) => format!("p{i}.{p}"),
                        Ret::Bool(b) => (if *b { "t" } else { "f" }).to_string(),
                        Ret::Unit => "u".to_string(),
                        Ret::Encoded(_) => "E".to_string(),
                    });
                    if let Ret::Encoded(b) = ret {
                        w.encoded = true;
                        if std::env::var("ORCA_DUMP").is_ok() {
                            eprintln!("--- base\n{}\n--- encoded\n{}", base.wat, wasmprinter::print_bytes(&b).unwrap_or_default());
                        }
                        encs.push(Ok(b));
                        if last && double_encode {
                            // C05: encode again without edits
                            op_tokens.push("enc".into());
                            match guarded(|| module.encode()) {
                                Ok(b2) => {
                                    rets.push("E".into());
                                    encs.push(Ok(b2));
                                }
                                Err(p) => {
                                    rets.push("PANIC".into());
                                    encs.push(Err(p));
                                }
                            }
                        }
                    }
                }
            }
            if last {
                break;
            }
        }
        let _ = &mut positional;
        if enumerated.is_some() {
            ctx.count(&format!("enumerated-history-length={}", op_tokens.iter().filter(|t| *t != "enc").count()));
        }
        ctx.case_line(&format!("edit {case} {} OPS={}", base.case_tokens, if op_tokens.is_empty() { "-".into() } else { op_tokens.join(";") }));
        for (c, nm) in [(0, "retF"), (1, "retG"), (2, "retM"), (3, "retX")] {
            let v: Vec<String> = op_tokens
                .iter()
                .zip(rets.iter())
                .filter(|(t, _)| op_class(t) == c)
                .map(|(_, r)| r.clone())
                .collect();
            ctx.impl_line(&format!("edit {case} {nm}={}", if v.is_empty() { "-".to_string() } else { v.join(",") }));
        }
        // the model reports whether its state invariant held in front of every encode; the theorems apply only then
        let n_enc = op_tokens.iter().filter(|t| *t == "enc").count();
        // (only the first encode: after an encode that re-indexed, stored ids may be stale - known finding F4)
        ctx.impl_line(&format!("edit {case} inv={}", if n_enc > 0 { "ok,ok" } else { "ok" }));
        ctx.count(&format!("shape={shape}"));
        let _ = base.nlocal_funcs;

        // ---------------- oracle
        // expectation for each live site, from the world
        let live_site = |s: &Site| -> bool {
            match s.class {
                Class::Code { owner, .. } | Class::CodeSrc { owner } => w.handles.iter().any(|h| h.sp == Sp::F && h.cur == Some(owner)),
                Class::GInit { owner } => {
                    w.handles.iter().any(|h| h.sp == Sp::G && h.cur == Some(owner))
                        && w.sites.iter().filter(|x| x.class == Class::GInit { owner }).last().map(|x| x.id) == Some(s.id)
                }
                Class::Export { pos } => !w.export_deleted[pos],
                _ => true,
            }
        };
        let dangling: Vec<&Site> = w.sites.iter().filter(|s| live_site(s) && w.handles[s.h].cur.is_none() && s.class != Class::Start).collect();
        let props_of = |sp: Sp| match sp {
            Sp::F => "C06",
            Sp::G => "C07",
            Sp::M => "C08",
        };
        let mut failures: Vec<(String, String, String)> = vec![]; // (props, sig, detail)
        for d in &l2i_refused {
            failures.push(("C11".into(), "conversion-of-local-function-refused".into(), d.clone()));
        }
        for (sp, id) in &w.reused_ids {
            failures.push((format!("C09,{}", props_of(*sp)), format!("{}-returned-id-already-in-use", sp.ch()), format!("id {id} was reported for an addition while another entity of the space held it")));
        }
        if let Some((tok, p)) = &api_panic {
            let opn = tok.split(':').next().unwrap();
            let prop = match opn {
                "alf" | "ri" => "C12,C06",
                "l2i" => "C11",
                "aig" | "ag" | "iag" | "mg" | "dg" => "C07",
                "alm" | "aim" | "dm" => "C08",
                _ => "C06",
            };
            failures.push((prop.to_string(), format!("api-panic-{opn}"), format!("{tok}: {p}")));
        }
        for (k, e) in encs.iter().enumerate() {
            match e {
                Err(p) => {
                    if dangling.is_empty() && k == 0 {
                        failures.push(("C06,C07,C08,C09".into(), "encode-panics-without-dangling-reference".into(), p.clone()));
                    } else if k > 0 {
                        let sig = if reindex_pending(&op_tokens) { "second-encode-panics-after-reindexing" } else { "second-encode-panics" };
                        failures.push(("C05".into(), sig.into(), p.clone()));
                    }
                }
                Ok(out) => {
                    if k == 0 {
                        ctx.hash_line("edit", case, out);
                    }
                    let d = match decode(out, &w, &positional) {
                        Ok(d) => d,
                        Err(e) => {
                            ctx.impl_line(&format!("edit {case} enc{k}.F=UNDECODABLE"));
                            // an output that cannot be decoded holds none of what the history built or redirected
                            let hist = op_tokens.join(";");
                            let mut props = "C06,C07,C08".to_string();
                            if hist.contains("ri:") {
                                props.push_str(",C10,C12");
                            }
                            if hist.contains("l2i:") {
                                props.push_str(",C11");
                            }
                            if hist.contains("alf:") {
                                props.push_str(",C12");
                            }
                            failures.push((props, "output-undecodable".into(), e));
                            continue;
                        }
                    };
                    let sp_line = |i: usize| if d.space[i].is_empty() { "-".to_string() } else { d.space[i].join(",") };
                    for (i, nm) in ["F", "G", "M"].iter().enumerate() {
                        ctx.impl_line(&format!("edit {case} enc{k}.{nm}={}", sp_line(i)));
                    }
                    for nm in ['F', 'G', 'M'] {
                        let v: Vec<String> = d.sites.iter().filter(|(_, t)| t.starts_with(nm)).map(|(s, t)| format!("{s}>{}", resolve(&d, t))).collect();
                        ctx.impl_line(&format!("edit {case} enc{k}.sites{nm}={}", if v.is_empty() { "-".to_string() } else { v.join(",") }));
                    }
                    let start_s = match d.start {
                        Some(f) => {
                            let sid = w.sites.iter().find(|s| s.class == Class::Start).map_or(0, |s| s.id);
                            format!("{sid}>{}", resolve(&d, &format!("F{f}")))
                        }
                        None => "-".to_string(),
                    };
                    ctx.impl_line(&format!("edit {case} enc{k}.start={start_s}"));
                    if k > 0 {
                        if let Some(Ok(first)) = encs.first() {
                            if first != out {
                                let sig = if reindex_pending(&op_tokens) { "second-encode-differs-after-reindexing" } else { "second-encode-differs" };
                                failures.push(("C05".into(), sig.into(), format!("{} vs {} bytes", first.len(), out.len())));
                            }
                        }
                        continue;
                    }
                    // (1) loud failure on dangling references
                    if let Some(s) = dangling.first() {
                        let cls = class_name(&s.class);
                        failures.push(("C09".into(), format!("dangling-{}-{}-not-loud", s.sp.ch(), cls), format!("site {} refers to a deleted entity, encode succeeded", s.id)));
                    }
                    // (2) entities: exactly the live ones
                    for sp in [Sp::F, Sp::G, Sp::M] {
                        let mut want: Vec<String> = w.handles.iter().filter(|h| h.sp == sp).filter_map(|h| h.cur).map(|u| u.to_string()).collect();
                        let mut got = d.space[sp_ix(sp)].clone();
                        want.sort();
                        got.sort();
                        if want != got {
                            failures.push((format!("C09,{}", props_of(sp)), format!("entities-{}-differ", sp.ch()), format!("got {got:?} want {want:?}")));
                        }
                    }
                    // (2b) every function import is declared with the type it was given: type 0 (parsed imports, `add_import_func`
                    // and `convert_local_fn_to_import` are all called with TypeID(0); the local functions have the equal type 1)
                    for (u, t) in &d.imp_types {
                        let declared = if w.subtyped.iter().any(|(x, _)| x.to_string() == *u) { 2 } else { 0 };
                        if *t != declared {
                            let props = if op_tokens.iter().any(|x| x.starts_with("l2i:")) { "C06,C11" } else { "C06" };
                            failures.push((props.into(), "F-import-declared-with-another-type".into(), format!("import {u} has type {t}, was given type {declared}")));
                        }
                    }
                    // (3) every live site designates the current entity of its handle
                    for s in w.sites.iter().filter(|s| live_site(s)) {
                        let Some(want) = w.handles[s.h].cur else { continue };
                        if s.class == Class::Start {
                            match d.start {
                                Some(f) => {
                                    let got = resolve(&d, &format!("F{f}"));
                                    if got != want.to_string() {
                                        failures.push(("C06".into(), "F-start-wrong-target".into(), format!("start designates {got}, expected {want}")));
                                    }
                                }
                                None => {
                                    let hist = op_tokens.join(";");
                                    let mut props = "C06".to_string();
                                    if hist.contains("ri:") {
                                        props.push_str(",C10");
                                    }
                                    if hist.contains("l2i:") {
                                        props.push_str(",C11");
                                    }
                                    failures.push((props, "F-start-lost".into(), String::new()))
                                }
                            }
                            continue;
                        }
                        match d.sites.get(&s.id) {
                            None => {
                                // code injected as function-exit instrumentation that is not in the output was lost by the lowering
                                let special = w.special_sites.contains(&s.id);
                                let mut props = if special { format!("{},C22,C17", props_of(s.sp)) } else { props_of(s.sp).to_string() };
                                if s.sp == Sp::F {
                                    let hist = op_tokens.join(";");
                                    if hist.contains("ri:") {
                                        props.push_str(",C10");
                                    }
                                    if hist.contains("l2i:") {
                                        props.push_str(",C11");
                                    }
                                }
                                let what = if special { "function-exit-code".to_string() } else { class_name(&s.class).to_string() };
                                failures.push((props, format!("{}-{}-site-missing", s.sp.ch(), what), format!("site {}", s.id)))
                            }
                            Some(t) => {
                                let got = resolve(&d, t);
                                if got != want.to_string() {
                                    let mut props = props_of(s.sp).to_string();
                                    let hist = op_tokens.join(";");
                                    if hist.contains("ri:") {
                                        props.push_str(",C10");
                                    }
                                    if hist.contains("l2i:") {
                                        props.push_str(",C11");
                                    }
                                    let via = if w.handles[s.h].reported { "reported-id" } else { "base-id" };
                                    failures.push((
                                        props,
                                        format!("{}-{}-wrong-target-{via}", s.sp.ch(), class_name(&s.class)),
                                        format!("site {} ({t}) designates {got}, expected {want}", s.id),
                                    ));
                                }
                            }
                        }
                    }
                    // (4) validity
                    if let Err(e) = wasmparser::Validator::new_with_features(wasmparser::WasmFeatures::all()).validate_all(out) {
                        let msg = e.to_string();
                        if !msg.contains("undeclared function reference") && failures.is_empty() {
                            let hist = op_tokens.join(";");
                            let mut props = "C06,C07,C08".to_string();
                            if hist.contains("ri:") {
                                props.push_str(",C10");
                            }
                            if hist.contains("l2i:") {
                                props.push_str(",C11");
                            }
                            failures.push((props, "output-invalid".into(), msg));
                        }
                    }
                }
            }
        }
        if failures.is_empty() {
            ctx.ok(fam, case);
        } else {
            // one line per distinct signature
            let mut seen = std::collections::HashSet::new();
            for (p, s, dd) in failures {
                if seen.insert(s.clone()) {
                    ctx.fail(fam, case, &p, &s, &dd);
                }
            }
        }
    }
}

/// did the history contain an operation that sets one of the `recalculate_ids` flags?
fn reindex_pending(ops: &[String]) -> bool {
    ops.iter().any(|o| {
        let k = o.split(':').next().unwrap();
        matches!(k, "alf" | "aif" | "df" | "l2i" | "ri" | "aig" | "dg" | "alm" | "aim" | "dm")
    })
}

fn op_class(tok: &str) -> usize {
    match tok.split(':').next().unwrap() {
        "alf" | "aif" | "df" | "l2i" | "ri" | "inj" => 0,
        "ag" | "aig" | "iag" | "dg" | "mg" => 1,
        "alm" | "aim" | "dm" => 2,
        _ => 3,
    }
}

fn class_name(c: &Class) -> &'static str {
    match c {
        Class::Code { variant, .. } => match variant {
            8 | 9 | 11 | 14 => "code-atomic",
            _ => "code",
        },
        Class::CodeSrc { .. } => "code-copy-src",
        Class::GInit { .. } => "ginit",
        Class::Export { .. } => "export",
        Class::Start => "start",
        Class::Elem => "elem",
        Class::Raw => "rawexpr",
        Class::DataMem { .. } => "data",
        Class::DataOff { .. } => "dataoff",
    }
}

enum Ret {
    Id(u32),
    Id2(u32, u32),
    Bool(bool),
    Unit,
    Encoded(Vec<u8>),
}

/// bounded-exhaustive mode: the operations available in the current world, as descriptors (no site is registered until one is chosen)
#[derive(Clone, Debug)]
enum Cand {
    Alf(Option<(Sp, usize)>), // a built function, optionally with one reference to a handle
    Aif,
    Df(usize),
    L2i(usize),
    Ri(usize, u32),
    Inj(usize, Sp, usize, usize), // into function handle, one reference to (space, handle), placement
    AexF(usize),
    Dex(usize),
    Ag,
    Aig,
    Iag,
    Dg(usize),
    Mg(usize),
    Alm,
    Aim,
    Dm(usize),
}

/// `focus` 0: the function space (C06, C09-C11), 1: the global space (C07), 2: the memory space (C08); each with the injections that
/// refer to it. The order is deterministic (handles in creation order).
fn candidates(w: &World, import_ids: &HashMap<usize, u32>, focus: usize) -> Vec<Cand> {
    let mut v = vec![];
    let lf = w.live_handles(Sp::F);
    let local_f: Vec<usize> = lf.iter().copied().filter(|h| !w.entity(w.handles[*h].cur.unwrap()).imp).collect();
    match focus {
        0 => {
            v.push(Cand::Alf(None));
            for h in &lf {
                v.push(Cand::Alf(Some((Sp::F, *h))));
            }
            v.push(Cand::Aif);
            for h in &lf {
                v.push(Cand::Df(*h));
            }
            for h in &local_f {
                v.push(Cand::L2i(*h));
            }
            for h in &lf {
                if w.entity(w.handles[*h].cur.unwrap()).imp {
                    if let Some(i) = import_ids.get(h) {
                        v.push(Cand::Ri(*h, *i));
                    }
                }
            }
            for h in &local_f {
                for t in &lf {
                    v.push(Cand::Inj(*h, Sp::F, *t, 1 + (*t % 3)));
                }
            }
            for h in &lf {
                v.push(Cand::AexF(*h));
            }
            for p in 0..w.export_deleted.len() {
                if !w.export_deleted[p] {
                    v.push(Cand::Dex(p));
                }
            }
        }
        1 => {
            let lg = w.live_handles(Sp::G);
            v.push(Cand::Ag);
            v.push(Cand::Aig);
            v.push(Cand::Iag);
            for h in &lg {
                v.push(Cand::Dg(*h));
            }
            for h in &lg {
                let e = w.entity(w.handles[*h].cur.unwrap());
                if !e.imp && matches!(e.gk, Some(GKind::Marker { .. })) {
                    v.push(Cand::Mg(*h));
                }
            }
            if let Some(h) = local_f.first() {
                for t in &lg {
                    v.push(Cand::Inj(*h, Sp::G, *t, 0));
                }
            }
            v.push(Cand::Aif);
        }
        _ => {
            let lm = w.live_handles(Sp::M);
            v.push(Cand::Alm);
            v.push(Cand::Aim);
            if lm.len() > 1 {
                for h in &lm {
                    v.push(Cand::Dm(*h));
                }
            }
            if let Some(h) = local_f.first() {
                for t in &lm {
                    v.push(Cand::Inj(*h, Sp::M, *t, 0));
                }
            }
            v.push(Cand::Alf(lm.first().map(|t| (Sp::M, *t))));
        }
    }
    v
}

fn materialise(c: &Cand, w: &mut World) -> Op {
    match c {
        Cand::Alf(t) => {
            let uid = w.ent(Sp::F, false, None);
            let sites = match t {
                Some((sp, h)) => vec![w.site(*sp, *h, Class::Code { owner: uid, variant: 0 })],
                None => vec![],
            };
            Op::Alf { uid, sites }
        }
        Cand::Aif => Op::Aif { uid: w.ent(Sp::F, true, None) },
        Cand::Df(h) => Op::Df { h: *h },
        Cand::L2i(h) => Op::L2i { h: *h, uid: w.ent(Sp::F, true, None) },
        Cand::Ri(h, imp_id) => Op::Ri { imp_id: *imp_id, h: Some(*h), uid: w.ent(Sp::F, false, None), sites: vec![] },
        Cand::Inj(h, sp, t, at) => {
            let owner = w.handles[*h].cur.unwrap();
            let s = w.site(*sp, *t, Class::Code { owner, variant: 0 });
            Op::Inj { h: *h, sites: vec![s], at: *at }
        }
        Cand::AexF(h) => {
            let pos = w.export_deleted.len();
            w.export_deleted.push(false);
            Op::Aex { site: w.site(Sp::F, *h, Class::Export { pos }) }
        }
        Cand::Dex(p) => Op::Dex { pos: *p },
        Cand::Ag => {
            let gk = GKind::Marker { mutable: true };
            Op::Ag { uid: w.ent(Sp::G, false, Some(gk)), gk, site: None }
        }
        Cand::Aig => Op::Aig { uid: w.ent(Sp::G, true, Some(GKind::Imported { vt: 1 })), vt: 1 },
        Cand::Iag => Op::Iag { uid: w.ent(Sp::G, false, Some(GKind::Marker { mutable: true })) },
        Cand::Dg(h) => Op::Dg { h: *h },
        Cand::Mg(h) => Op::Mg { h: *h, site: None, version: 3 },
        Cand::Alm => Op::Alm { uid: w.ent(Sp::M, false, None) },
        Cand::Aim => Op::Aim { uid: w.ent(Sp::M, true, None) },
        Cand::Dm(h) => Op::Dm { h: *h },
    }
}

fn gen_op(r: &mut Rng, w: &mut World, import_ids: &HashMap<usize, u32>) -> Op {
    for _ in 0..20 {
        let k = r.weighted(&[5, 5, 4, 3, 3, 5, 3, 3, 2, 3, 2, 2, 2, 2, 2, 1, 2]);
        let pick_h = |r: &mut Rng, w: &World, sp: Sp, pred: &dyn Fn(&Ent) -> bool| -> Option<usize> {
            let hs: Vec<usize> = w.live_handles(sp).into_iter().filter(|h| pred(w.entity(w.handles[*h].cur.unwrap()))).collect();
            if hs.is_empty() {
                None
            } else {
                Some(*r.pick(&hs))
            }
        };
        match k {
            0 => {
                let uid = w.ent(Sp::F, false, None);
                let mut sites = vec![];
                for _ in 0..r.weighted(&[1, 3, 2, 1]) {
                    if let Some((ss, _)) = gen_code_site(r, w, uid) {
                        sites.extend(ss);
                    }
                }
                return Op::Alf { uid, sites };
            }
            1 => {
                let uid = w.ent(Sp::F, true, None);
                return Op::Aif { uid };
            }
            2 => {
                if let Some(h) = pick_h(r, w, Sp::F, &|_| true) {
                    return Op::Df { h };
                }
            }
            3 => {
                if let Some(h) = pick_h(r, w, Sp::F, &|e| !e.imp) {
                    let uid = w.ent(Sp::F, true, None);
                    return Op::L2i { h, uid };
                }
            }
            4 => {
                if let Some(h) = pick_h(r, w, Sp::F, &|e| e.imp) {
                    if let Some(imp_id) = import_ids.get(&h) {
                        let uid = w.ent(Sp::F, false, None);
                        let mut sites = vec![];
                        for _ in 0..r.weighted(&[2, 2, 1]) {
                            if let Some((ss, _)) = gen_code_site(r, w, uid) {
                                sites.extend(ss);
                            }
                        }
                        return Op::Ri { imp_id: *imp_id, h: Some(h), uid, sites };
                    }
                }
            }
            5 => {
                if let Some(h) = pick_h(r, w, Sp::F, &|e| !e.imp) {
                    let owner = w.handles[h].cur.unwrap();
                    let mut sites = vec![];
                    for _ in 0..r.range(1, 3) {
                        if let Some((ss, _)) = gen_code_site(r, w, owner) {
                                sites.extend(ss);
                            }
                    }
                    return Op::Inj { h, sites, at: r.below(4) };
                }
            }
            6 => {
                // add_global: a marker global, or (when a free identifying type exists) a `global.get` / `ref.func` global
                let imported: Vec<usize> = w.live_handles(Sp::G).into_iter().filter(|h| w.entity(w.handles[*h].cur.unwrap()).imp).collect();
                let choice = r.weighted(&[5, 2, 1]);
                if choice == 1 && !imported.is_empty() {
                    let th = *r.pick(&imported);
                    if let Some(GKind::Imported { vt }) = w.entity(w.handles[th].cur.unwrap()).gk {
                        if !w.used_get_vts.contains(&vt) {
                            w.used_get_vts.push(vt);
                            let uid = w.ent(Sp::G, false, Some(GKind::Get { vt }));
                            let s = w.site(Sp::G, th, Class::GInit { owner: uid });
                            return Op::Ag { uid, gk: GKind::Get { vt }, site: Some(s) };
                        }
                    }
                } else if choice == 2 && !w.has_reffunc_global {
                    let fh = w.live_handles(Sp::F);
                    if !fh.is_empty() {
                        w.has_reffunc_global = true;
                        let th = *r.pick(&fh);
                        let uid = w.ent(Sp::G, false, Some(GKind::RefFunc));
                        let s = w.site(Sp::F, th, Class::GInit { owner: uid });
                        return Op::Ag { uid, gk: GKind::RefFunc, site: Some(s) };
                    }
                }
                let gk = GKind::Marker { mutable: r.chance(2, 3) };
                let uid = w.ent(Sp::G, false, Some(gk));
                return Op::Ag { uid, gk, site: None };
            }
            7 => {
                let vt = r.below(VTS.len());
                let uid = w.ent(Sp::G, true, Some(GKind::Imported { vt }));
                return Op::Aig { uid, vt };
            }
            8 => {
                let uid = w.ent(Sp::G, false, Some(GKind::Marker { mutable: true }));
                return Op::Iag { uid };
            }
            9 => {
                if let Some(h) = pick_h(r, w, Sp::G, &|_| true) {
                    return Op::Dg { h };
                }
            }
            10 => {
                if let Some(h) = pick_h(r, w, Sp::G, &|e| !e.imp) {
                    let e = w.entity(w.handles[h].cur.unwrap()).clone();
                    match e.gk {
                        Some(GKind::Marker { .. }) => return Op::Mg { h, site: None, version: r.range(1, 9) as i32 },
                        Some(GKind::Get { vt }) => {
                            let cands: Vec<usize> = w
                                .live_handles(Sp::G)
                                .into_iter()
                                .filter(|x| w.entity(w.handles[*x].cur.unwrap()).gk == Some(GKind::Imported { vt }))
                                .collect();
                            if !cands.is_empty() {
                                let th = *r.pick(&cands);
                                let s = w.site(Sp::G, th, Class::GInit { owner: e.uid });
                                return Op::Mg { h, site: Some(s), version: 0 };
                            }
                        }
                        Some(GKind::RefFunc) => {
                            // a global of the concrete reference type takes functions of that type only
                            let fh: Vec<usize> = if w.typed_global == Some(e.uid) {
                                w.live_handles(Sp::F).into_iter().filter(|x| w.subtyped.iter().any(|(_, y)| y == x)).collect()
                            } else {
                                w.live_handles(Sp::F)
                            };
                            if !fh.is_empty() {
                                let th = *r.pick(&fh);
                                let s = w.site(Sp::F, th, Class::GInit { owner: e.uid });
                                return Op::Mg { h, site: Some(s), version: 0 };
                            }
                        }
                        _ => {}
                    }
                }
            }
            11 => {
                let uid = w.ent(Sp::M, false, None);
                return Op::Alm { uid };
            }
            12 => {
                let uid = w.ent(Sp::M, true, None);
                return Op::Aim { uid };
            }
            13 => {
                if w.live_handles(Sp::M).len() > 1 || r.chance(1, 4) {
                    if let Some(h) = pick_h(r, w, Sp::M, &|_| true) {
                        return Op::Dm { h };
                    }
                }
            }
            14 => {
                let sp = if r.chance(1, 2) { Sp::F } else { Sp::M };
                if let Some(h) = pick_h(r, w, sp, &|_| true) {
                    let pos = w.export_deleted.len();
                    w.export_deleted.push(false);
                    let s = w.site(sp, h, Class::Export { pos });
                    return Op::Aex { site: s };
                }
            }
            15 => {
                let live: Vec<usize> = (0..w.export_deleted.len()).filter(|p| !w.export_deleted[*p]).collect();
                if !live.is_empty() {
                    return Op::Dex { pos: *r.pick(&live) };
                }
            }
            _ => {
                if let Some(h) = pick_h(r, w, Sp::M, &|_| true) {
                    let seg = 10 + w.sites.iter().filter(|s| matches!(s.class, Class::DataMem { .. })).count();
                    let mem = w.site(Sp::M, h, Class::DataMem { seg });
                    let i32imp: Vec<usize> = w
                        .live_handles(Sp::G)
                        .into_iter()
                        .filter(|x| w.entity(w.handles[*x].cur.unwrap()).gk == Some(GKind::Imported { vt: 0 }))
                        .collect();
                    let off = if !i32imp.is_empty() && r.chance(1, 2) {
                        let gh = *r.pick(&i32imp);
                        Some(w.site(Sp::G, gh, Class::DataOff { seg }))
                    } else {
                        None
                    };
                    return Op::Ad { seg, mem, off };
                }
            }
        }
    }
    let uid = w.ent(Sp::F, true, None);
    Op::Aif { uid }
}

fn build_body<'a>(fb: &mut FunctionBuilder<'a>, uid: u32, sites: &[Site], w: &World) {
    fb.inject(Operator::I32Const { value: FMARK + uid as i32 });
    fb.inject(Operator::Drop);
    inject_sites(fb, sites, w);
}

fn apply<'a>(m: &mut Module<'a>, op: &Op, w: &World) -> Ret {
    match op {
        Op::Alf { uid, sites } => {
            let mut fb = FunctionBuilder::new(&[], &[]);
            build_body(&mut fb, *uid, sites, w);
            Ret::Id(*fb.finish_module(m))
        }
        Op::Aif { uid } => {
            let (f, i) = m.add_import_func("env".to_string(), format!("f{uid}"), TypeID(0));
            Ret::Id2(*f, *i)
        }
        Op::Df { h } => {
            m.delete_func(FunctionID(w.handles[*h].id));
            Ret::Unit
        }
        Op::L2i { h, uid } => {
            // a function that stands for an import of the non-final type keeps that type as an import (a typed global may hold it)
            let ty = if w.subtyped.iter().any(|(_, y)| y == h) { 2 } else { 0 };
            Ret::Bool(m.convert_local_fn_to_import(FunctionID(w.handles[*h].id), "env".to_string(), format!("f{uid}"), TypeID(ty)))
        }
        Op::Ri { imp_id, uid, sites, .. } => {
            let mut fb = FunctionBuilder::new(&[], &[]);
            build_body(&mut fb, *uid, sites, w);
            fb.replace_import_in_module(m, ImportsID(*imp_id));
            Ret::Unit
        }
        Op::Inj { h, sites, at } => {
            let fid = FunctionID(w.handles[*h].id);
            let mut fm = m.functions.get_fn_modifier(fid).expect("Cannot add an instruction to an imported function");
            // index 0 is the marker `i32.const`; injecting before instruction 2 keeps the marker first
            let n = fm.body.instructions.len();
            let idx = if *at == 0 { 2.min(n - 1) } else { n - 1 };
            if *at == 3 {
                // function-exit instrumentation: a special mode, lowered at encode time (the function keeps its marker in front)
                fm.func_exit();
                inject_sites(&mut fm, sites, w);
                fm.finish_instr();
                return Ret::Unit;
            }
            fm.before_at(Location::Module { func_idx: fid, instr_idx: idx });
            inject_sites(&mut fm, sites, w);
            if *at == 2 {
                // the final `end` also carries after-code (which the encoder drops): the before-list must still be rewritten
                fm.after_at(Location::Module { func_idx: fid, instr_idx: idx });
                fm.inject(Operator::Nop);
            }
            Ret::Unit
        }
        Op::Ag { uid, gk, site } => {
            let (init, ty, mutable) = global_parts(*uid, gk, site.as_ref(), w, 0);
            Ret::Id(*m.add_global(init, ty, mutable, false))
        }
        Op::Aig { uid, vt } => {
            let (g, i) = m.add_imported_global("env".to_string(), format!("g{uid}"), VTS[*vt].1, false, false);
            Ret::Id2(*g, *i)
        }
        Op::Iag { uid } => {
            let (init, _ty, _) = global_parts(*uid, &GKind::Marker { mutable: true }, None, w, 0);
            let g = Global::new(
                GlobalKind::Local(LocalGlobal {
                    global_id: GlobalID(0),
                    ty: wasmparser::GlobalType { content_type: wasmparser::ValType::I32, mutable: true, shared: false },
                    init_expr: init,
                }),
                None,
            );
            let mut it = ModuleIterator::new(m, &vec![]);
            Ret::Id(*it.add_global(g))
        }
        Op::Dg { h } => {
            m.delete_global(GlobalID(w.handles[*h].id));
            Ret::Unit
        }
        Op::Mg { h, site, version } => {
            let uid = w.handles[*h].cur.unwrap();
            let gk = w.entity(uid).gk.unwrap();
            let (init, _, _) = global_parts(uid, &gk, site.as_ref(), w, *version);
            m.mod_global_init_expr(GlobalID(w.handles[*h].id), init);
            Ret::Unit
        }
        Op::Alm { uid } => Ret::Id(*m.add_local_memory(mem_ty(*uid + 1))),
        Op::Aim { uid } => {
            let (mm, i) = m.add_import_memory("env".to_string(), format!("m{uid}"), mem_ty(1));
            Ret::Id2(*mm, *i)
        }
        Op::Dm { h } => {
            m.delete_memory(MemoryID(w.handles[*h].id));
            Ret::Unit
        }
        Op::Aex { site } => {
            let id = w.handles[site.h].id;
            let name = format!("e{}", site.id);
            match site.sp {
                Sp::F => m.exports.add_export_func(name, id, None),
                _ => m.exports.add_export_mem(name, id, None),
            }
            Ret::Unit
        }
        Op::Dex { pos } => {
            m.exports.delete(ExportsID(*pos as u32));
            Ret::Unit
        }
        Op::Ad { seg, mem, off } => {
            let offset_expr = match off {
                Some(s) => InitExpr::new(vec![InitInstr::Global(GlobalID(w.handles[s.h].id))]),
                None => InitExpr::new(vec![InitInstr::Value(Value::I32(0))]),
            };
            let id = m.add_data(DataSegment {
                kind: DataSegmentKind::Active { memory_index: w.handles[mem.h].id, offset_expr },
                data: format!("d{seg}").into_bytes(),
                tag: None,
            });
            Ret::Id(*id)
        }
        Op::Enc => Ret::Encoded(m.encode()),
    }
}

fn mem_ty(initial: u32) -> wasmparser::MemoryType {
    wasmparser::MemoryType { memory64: false, shared: false, initial: initial as u64, maximum: None, page_size_log2: None }
}

fn global_parts(uid: u32, gk: &GKind, site: Option<&Site>, w: &World, version: i32) -> (InitExpr, DataType, bool) {
    match gk {
        GKind::Marker { mutable } => (InitExpr::new(vec![InitInstr::Value(Value::I32(GMARK + uid as i32 + 10_000 * version))]), DataType::I32, *mutable),
        GKind::Get { vt } => {
            let s = site.expect("get-global needs a site");
            (InitExpr::new(vec![InitInstr::Global(GlobalID(w.handles[s.h].id))]), VTS[*vt].1, false)
        }
        GKind::RefFunc => {
            let s = site.expect("ref.func global needs a site");
            (InitExpr::new(vec![InitInstr::RefFunc(FunctionID(w.handles[s.h].id))]), DataType::FuncRefNull, false)
        }
        GKind::Imported { .. } => unreachable!(),
    }
}
