//! The facts about a byte string that wirm's own parse guards depend on, extracted with wasmparser alone (no wirm code):
//! an ordered list of events mirroring what `Module::parse_internal` reads, in the order it reads it. The Lean model M11
//! folds over these events and predicts `OK` / `ERR`.
//!   E                 a reader error surfaces here (payload iteration or an item reader wirm drains)
//!   ver:<n>           version payload
//!   unk:<id>          unknown section
//!   other             a payload without an arm in parse_internal
//!   imports:<n>       import section with n function imports (replaces the previous one)
//!   types:<f|o>*      type section: for every type, function type or other (appended)
//!   funcs:<i.i..>     function section (appended)
//!   ccstart:<n>       code section header
//!   body:<flags>      one code entry: `e` = non-empty instruction list not ending in `end`, `r` = memory.size/grow with a
//!                     non-zero reserved byte, `-` = neither
//!   names:<i.i..>     function-name subsection
//!   cx:<Op.Op..>:<ok|extra>   a constant expression wirm evaluates (global initialiser, active data offset): operator
//!                     names up to and including the first `End`, and whether data follows it
//!   start             start section
//!   dcount:<n>        data count section
//!   data:<n>          data section with n segments (replaces)
use wasmparser::{Parser, Payload};

pub struct Facts {
    pub events: Vec<String>,
}
impl Facts {
    pub fn line(&self) -> String {
        format!("ev={}", if self.events.is_empty() { "-".to_string() } else { self.events.join(",") })
    }
}

fn cx(e: &wasmparser::ConstExpr, ev: &mut Vec<String>) -> bool {
    let mut rd = e.get_operators_reader();
    let mut ops = vec![];
    loop {
        match rd.read() {
            Err(_) => {
                // wirm stops at an operator it does not support before reading further: an unsupported operator in front of
                // the unreadable spot decides
                ev.push(format!("cx:{}:readerr", ops.join(".")));
                return false;
            }
            Ok(op) => {
                let d = format!("{op:?}");
                let n = d.split([' ', '{', '(']).next().unwrap().to_string();
                let is_end = n == "End";
                ops.push(n);
                if is_end {
                    break;
                }
            }
        }
    }
    ev.push(format!("cx:{}:{}", ops.join("."), if rd.eof() { "ok" } else { "extra" }));
    true
}

pub fn facts(b: &[u8]) -> Facts {
    let mut ev: Vec<String> = vec![];
    macro_rules! bail {
        () => {{
            ev.push("E".into());
            return Facts { events: ev };
        }};
    }
    for p in Parser::new(0).parse_all(b) {
        let p = match p {
            Ok(p) => p,
            Err(_) => bail!(),
        };
        match p {
            Payload::Version { num, .. } => ev.push(format!("ver:{num}")),
            Payload::ImportSection(r) => {
                let mut n = 0;
                for i in r {
                    match i {
                        Ok(i) => {
                            if matches!(i.ty, wasmparser::TypeRef::Func(_)) {
                                n += 1
                            }
                        }
                        Err(_) => bail!(),
                    }
                }
                ev.push(format!("imports:{n}"));
            }
            Payload::TypeSection(r) => {
                let mut s = String::new();
                for g in r {
                    match g {
                        Ok(g) => {
                            for st in g.types() {
                                s.push(if matches!(st.composite_type.inner, wasmparser::CompositeInnerType::Func(_)) { 'f' } else { 'o' });
                            }
                        }
                        Err(_) => bail!(),
                    }
                }
                ev.push(format!("types:{s}"));
            }
            Payload::FunctionSection(r) => {
                let mut v = vec![];
                for f in r {
                    match f {
                        Ok(f) => v.push(f.to_string()),
                        Err(_) => bail!(),
                    }
                }
                ev.push(format!("funcs:{}", v.join(".")));
            }
            Payload::TableSection(r) => {
                for t in r {
                    if t.is_err() {
                        bail!()
                    }
                }
            }
            Payload::MemorySection(r) => {
                for t in r {
                    if t.is_err() {
                        bail!()
                    }
                }
            }
            Payload::TagSection(r) => {
                for t in r {
                    if t.is_err() {
                        bail!()
                    }
                }
            }
            Payload::GlobalSection(r) => {
                for g in r {
                    match g {
                        Ok(g) => {
                            if !cx(&g.init_expr, &mut ev) {
                                return Facts { events: ev };
                            }
                        }
                        Err(_) => bail!(),
                    }
                }
            }
            Payload::ExportSection(r) => {
                for t in r {
                    if t.is_err() {
                        bail!()
                    }
                }
            }
            Payload::StartSection { .. } => ev.push("start".into()),
            Payload::ElementSection(r) => {
                for e in r {
                    match e {
                        Ok(e) => {
                            let ok = match e.items {
                                wasmparser::ElementItems::Functions(rd) => rd.into_iter().all(|x| x.is_ok()),
                                wasmparser::ElementItems::Expressions(_, rd) => rd.into_iter().all(|x| x.is_ok()),
                            };
                            if !ok {
                                bail!()
                            }
                        }
                        Err(_) => bail!(),
                    }
                }
            }
            Payload::DataCountSection { count, .. } => ev.push(format!("dcount:{count}")),
            Payload::DataSection(r) => {
                let mut n = 0;
                for d in r {
                    match d {
                        Ok(d) => {
                            n += 1;
                            if let wasmparser::DataKind::Active { offset_expr, .. } = d.kind {
                                if !cx(&offset_expr, &mut ev) {
                                    return Facts { events: ev };
                                }
                            }
                        }
                        Err(_) => bail!(),
                    }
                }
                ev.push(format!("data:{n}"));
            }
            Payload::CodeSectionStart { count, .. } => ev.push(format!("ccstart:{count}")),
            Payload::CodeSectionEntry(body) => {
                let Ok(lr) = body.get_locals_reader() else { bail!() };
                for l in lr {
                    if l.is_err() {
                        bail!()
                    }
                }
                let Ok(or) = body.get_operators_reader() else { bail!() };
                let mut last_end = None;
                let mut reserved = false;
                for op in or {
                    match op {
                        Ok(op) => {
                            last_end = Some(matches!(op, wasmparser::Operator::End));
                            if let wasmparser::Operator::MemoryGrow { mem } | wasmparser::Operator::MemorySize { mem } = op {
                                if mem != 0 {
                                    reserved = true;
                                }
                            }
                        }
                        Err(_) => bail!(),
                    }
                }
                let f = if last_end == Some(false) { "e" } else if reserved { "r" } else { "-" };
                ev.push(format!("body:{f}"));
            }
            Payload::CustomSection(c) => {
                if let wasmparser::KnownCustom::Name(nr) = c.as_known() {
                    for sub in nr {
                        match sub {
                            Err(_) => bail!(),
                            Ok(wasmparser::Name::Function(m)) => {
                                let mut v = vec![];
                                for x in m {
                                    match x {
                                        Ok(x) => v.push(x.index.to_string()),
                                        Err(_) => {
                                            // the names read so far have been processed
                                            ev.push(format!("names:{}", v.join(".")));
                                            bail!()
                                        }
                                    }
                                }
                                ev.push(format!("names:{}", v.join(".")));
                            }
                            Ok(wasmparser::Name::Local(m)) | Ok(wasmparser::Name::Label(m)) | Ok(wasmparser::Name::Field(m)) => {
                                for f in m {
                                    match f {
                                        Ok(f) => {
                                            if !f.names.into_iter().all(|x| x.is_ok()) {
                                                bail!()
                                            }
                                        }
                                        Err(_) => bail!(),
                                    }
                                }
                            }
                            Ok(wasmparser::Name::Type(m))
                            | Ok(wasmparser::Name::Table(m))
                            | Ok(wasmparser::Name::Memory(m))
                            | Ok(wasmparser::Name::Global(m))
                            | Ok(wasmparser::Name::Element(m))
                            | Ok(wasmparser::Name::Data(m))
                            | Ok(wasmparser::Name::Tag(m)) => {
                                if !m.into_iter().all(|x| x.is_ok()) {
                                    bail!()
                                }
                            }
                            Ok(_) => {}
                        }
                    }
                }
            }
            Payload::UnknownSection { id, .. } => ev.push(format!("unk:{id}")),
            Payload::ModuleSection { .. }
            | Payload::InstanceSection(_)
            | Payload::CoreTypeSection(_)
            | Payload::ComponentSection { .. }
            | Payload::ComponentInstanceSection(_)
            | Payload::ComponentAliasSection(_)
            | Payload::ComponentTypeSection(_)
            | Payload::ComponentCanonicalSection(_)
            | Payload::ComponentStartSection { .. }
            | Payload::ComponentImportSection(_)
            | Payload::ComponentExportSection(_)
            | Payload::End(_) => {}
            _ => ev.push("other".into()),
        }
    }
    Facts { events: ev }
}
