//! family `types` (C13, C04): modules whose type section contains duplicates, explicit recursion groups and subtypes;
//! random sequences of the six `add_*_type` entry points (requests equal to existing types, to each other, or new);
//! observed: the returned ids and the decoded type section of the encoded module. The model (M5) predicts both; the
//! oracle checks the property on the real output: content at the returned index, idempotence, frame.
use crate::ctx::{guarded, Ctx};
use crate::rng::Rng;
use crate::tys::TYS;
use wirm::ir::id::TypeID;
use wirm::{DataType, Module};

/// canonical text of a value / storage type as decoded by wasmparser
fn canon_val(v: wasmparser::ValType) -> String {
    match v {
        wasmparser::ValType::Ref(r) => match r.heap_type() {
            wasmparser::HeapType::Concrete(wasmparser::UnpackedIndex::Module(i)) => format!("r{}m{i}", if r.is_nullable() { "n" } else { "" }),
            wasmparser::HeapType::Concrete(x) => format!("r?{x:?}"),
            _ => format!("t{}", crate::tys::code_of_valtype(v)),
        },
        _ => format!("t{}", crate::tys::code_of_valtype(v)),
    }
}
fn canon_storage(s: wasmparser::StorageType) -> String {
    match s {
        wasmparser::StorageType::I8 => "i8".into(),
        wasmparser::StorageType::I16 => "i16".into(),
        wasmparser::StorageType::Val(v) => canon_val(v),
    }
}
fn canon_sub(st: &wasmparser::SubType) -> String {
    use wasmparser::CompositeInnerType as C;
    let body = match &st.composite_type.inner {
        C::Func(f) => format!(
            "F[{}][{}]",
            f.params().iter().map(|p| canon_val(*p)).collect::<Vec<_>>().join("_"),
            f.results().iter().map(|p| canon_val(*p)).collect::<Vec<_>>().join("_")
        ),
        C::Array(a) => format!("A[{}:{}]", canon_storage(a.0.element_type), a.0.mutable as u8),
        C::Struct(s) => format!(
            "S[{}]",
            s.fields.iter().map(|f| format!("{}:{}", canon_storage(f.element_type), f.mutable as u8)).collect::<Vec<_>>().join("_")
        ),
        C::Cont(_) => "C".into(),
    };
    let sup = match st.supertype_idx {
        Some(p) => match p.unpack() {
            wasmparser::UnpackedIndex::Module(i) => i.to_string(),
            x => format!("?{x:?}"),
        },
        None => "-".into(),
    };
    format!("{body}|s={sup}|f={}|sh={}", st.is_final as u8, st.composite_type.shared as u8)
}

/// (canonical texts per index, group sizes with explicitness) of the type section of a module
pub fn decode_types(wasm: &[u8]) -> Result<(Vec<String>, Vec<(usize, bool)>), String> {
    let mut out = vec![];
    let mut groups = vec![];
    for p in wasmparser::Parser::new(0).parse_all(wasm) {
        if let wasmparser::Payload::TypeSection(r) = p.map_err(|e| e.to_string())? {
            for g in r {
                let g = g.map_err(|e| e.to_string())?;
                let ex = g.is_explicit_rec_group();
                let mut n = 0;
                for st in g.types() {
                    out.push(canon_sub(st));
                    n += 1;
                }
                groups.push((n, ex));
            }
        }
    }
    Ok((out, groups))
}

#[derive(Clone, Debug)]
enum VT {
    T(usize),             // index into TYS
    M(u32, bool),         // concrete reference to a module type
    I8,
    I16,
}
impl VT {
    fn dt(&self) -> DataType {
        match self {
            VT::T(i) => TYS[*i].dt.clone(),
            VT::M(i, n) => DataType::Module { ty_id: *i, nullable: *n },
            VT::I8 => DataType::I8,
            VT::I16 => DataType::I16,
        }
    }
    fn canon(&self) -> String {
        match self {
            VT::T(i) => format!("t{}", TYS[*i].code),
            VT::M(i, n) => format!("r{}m{i}", if *n { "n" } else { "" }),
            VT::I8 => "i8".into(),
            VT::I16 => "i16".into(),
        }
    }
    fn wat(&self) -> String {
        match self {
            VT::T(i) => TYS[*i].wat.to_string(),
            VT::M(i, n) => format!("(ref {}{i})", if *n { "null " } else { "" }),
            VT::I8 => "i8".into(),
            VT::I16 => "i16".into(),
        }
    }
}

#[derive(Clone, Debug)]
enum Req {
    Func { params: Vec<VT>, results: Vec<VT>, sup: Option<u32>, fin: bool, shared: bool, plain: bool },
    Array { field: VT, mutable: bool, sup: Option<u32>, fin: bool, shared: bool, plain: bool },
    Struct { fields: Vec<(VT, bool)>, sup: Option<u32>, fin: bool, shared: bool, plain: bool },
}
impl Req {
    fn canon(&self) -> String {
        let tail = |sup: &Option<u32>, fin: bool, sh: bool| format!("|s={}|f={}|sh={}", sup.map_or("-".to_string(), |x| x.to_string()), fin as u8, sh as u8);
        match self {
            Req::Func { params, results, sup, fin, shared, .. } => format!(
                "F[{}][{}]{}",
                params.iter().map(|p| p.canon()).collect::<Vec<_>>().join("_"),
                results.iter().map(|p| p.canon()).collect::<Vec<_>>().join("_"),
                tail(sup, *fin, *shared)
            ),
            Req::Array { field, mutable, sup, fin, shared, .. } => format!("A[{}:{}]{}", field.canon(), *mutable as u8, tail(sup, *fin, *shared)),
            Req::Struct { fields, sup, fin, shared, .. } => {
                format!("S[{}]{}", fields.iter().map(|(f, m)| format!("{}:{}", f.canon(), *m as u8)).collect::<Vec<_>>().join("_"), tail(sup, *fin, *shared))
            }
        }
    }
    fn wat(&self) -> String {
        let wrap = |inner: String, sup: &Option<u32>, fin: bool| -> String {
            if sup.is_none() && fin {
                inner
            } else {
                format!("(sub {}{}{inner})", if fin { "final " } else { "" }, sup.map_or(String::new(), |s| format!("{s} ")))
            }
        };
        match self {
            Req::Func { params, results, sup, fin, .. } => wrap(
                format!(
                    "(func{}{})",
                    params.iter().map(|p| format!(" (param {})", p.wat())).collect::<String>(),
                    results.iter().map(|p| format!(" (result {})", p.wat())).collect::<String>()
                ),
                sup,
                *fin,
            ),
            Req::Array { field, mutable, sup, fin, .. } => {
                wrap(format!("(array {})", if *mutable { format!("(mut {})", field.wat()) } else { field.wat() }), sup, *fin)
            }
            Req::Struct { fields, sup, fin, .. } => wrap(
                format!(
                    "(struct{})",
                    fields.iter().map(|(f, m)| format!(" (field {})", if *m { format!("(mut {})", f.wat()) } else { f.wat() })).collect::<String>()
                ),
                sup,
                *fin,
            ),
        }
    }
    fn apply(&self, m: &mut Module) -> TypeID {
        match self {
            Req::Func { params, results, sup, fin, shared, plain } => {
                let p: Vec<DataType> = params.iter().map(|x| x.dt()).collect();
                let r: Vec<DataType> = results.iter().map(|x| x.dt()).collect();
                if *plain {
                    m.types.add_func_type(&p, &r, None)
                } else {
                    m.types.add_func_type_with_params(&p, &r, sup.map(TypeID), *fin, *shared, None)
                }
            }
            Req::Array { field, mutable, sup, fin, shared, plain } => {
                if *plain {
                    m.types.add_array_type(field.dt(), *mutable, None)
                } else {
                    m.types.add_array_type_with_params(field.dt(), *mutable, sup.map(TypeID), *fin, *shared, None)
                }
            }
            Req::Struct { fields, sup, fin, shared, plain } => {
                let f: Vec<DataType> = fields.iter().map(|x| x.0.dt()).collect();
                let mu: Vec<bool> = fields.iter().map(|x| x.1).collect();
                if *plain {
                    m.types.add_struct_type(f, mu, None)
                } else {
                    m.types.add_struct_type_with_params(f, mu, sup.map(TypeID), *fin, *shared, None)
                }
            }
        }
    }
}

fn gen_vt(r: &mut Rng, ntypes: usize, storage: bool) -> VT {
    match r.below(10) {
        0 if ntypes > 0 => VT::M(r.below(ntypes) as u32, r.chance(1, 2)),
        1 if storage => {
            if r.chance(1, 2) {
                VT::I8
            } else {
                VT::I16
            }
        }
        2 | 3 => VT::T(r.below(TYS.len())),
        _ => VT::T(r.below(3)), // few distinct types so that requests collide
    }
}

fn gen_req(r: &mut Rng, ntypes: usize, base: bool) -> Req {
    // in a parsed module `shared` is never set (the text format used for the base has no shared types here)
    let plain = r.chance(1, 2);
    let (sup, fin, shared) = if plain {
        (None, true, false)
    } else {
        (if ntypes > 0 && r.chance(1, 3) { Some(r.below(ntypes) as u32) } else { None }, r.chance(2, 3), !base && r.chance(1, 6))
    };
    match r.weighted(&[5, 2, 3]) {
        0 => Req::Func {
            params: (0..r.below(3)).map(|_| gen_vt(r, ntypes, false)).collect(),
            results: (0..r.below(2)).map(|_| gen_vt(r, ntypes, false)).collect(),
            sup,
            fin,
            shared,
            plain,
        },
        1 => Req::Array { field: gen_vt(r, ntypes, true), mutable: r.chance(1, 2), sup, fin, shared, plain },
        _ => Req::Struct { fields: (0..r.below(3)).map(|_| (gen_vt(r, ntypes, true), r.chance(1, 2))).collect(), sup, fin, shared, plain },
    }
}

pub fn run(ctx: &mut Ctx) {
    let fam = "types";
    for case in 0..ctx.n {
        if !ctx.wants(case) {
            continue;
        }
        let mut r = Rng::new(ctx.seed, fam, case);
        // ---- base module
        let nbase = r.weighted(&[1, 2, 3, 3, 3, 2, 2]);
        let mut base: Vec<Req> = vec![];
        for i in 0..nbase {
            if i > 0 && r.chance(2, 5) {
                let k = r.below(i);
                base.push(base[k].clone()); // a duplicate of an earlier type
            } else {
                // subtyping in the base only between identical shapes is not needed: decoding does not validate
                let mut q = gen_req(&mut r, i, true);
                // supertypes must refer to earlier types for the text to parse
                if let Req::Func { sup, .. } | Req::Array { sup, .. } | Req::Struct { sup, .. } = &mut q {
                    if let Some(s) = sup {
                        if *s as usize >= i {
                            *sup = None;
                        }
                    }
                }
                base.push(q);
            }
        }
        let mut wat = String::from("(module\n");
        let mut i = 0;
        while i < base.len() {
            if i + 1 < base.len() && r.chance(1, 3) {
                wat.push_str(&format!("  (rec (type {}) (type {}))\n", base[i].wat(), base[i + 1].wat()));
                i += 2;
            } else if r.chance(1, 8) {
                wat.push_str(&format!("  (rec (type {}))\n", base[i].wat()));
                i += 1;
            } else {
                wat.push_str(&format!("  (type {})\n", base[i].wat()));
                i += 1;
            }
        }
        wat.push_str(")\n");
        let bytes = match wat::parse_str(&wat) {
            Ok(b) => b,
            Err(e) => panic!("types: generator produced unparsable text: {e}\n{wat}"),
        };
        let (base_canon, base_groups) = decode_types(&bytes).unwrap();
        // ---- requests
        let nreq = r.range(1, 6);
        let mut reqs: Vec<Req> = vec![];
        for k in 0..nreq {
            let ntypes = nbase + k; // an upper bound is not needed: ids are only used as immediates
            let q = match r.below(5) {
                0 if !base.is_empty() => base[r.below(base.len())].clone(), // equal to a parsed type
                1 if !reqs.is_empty() => reqs[r.below(reqs.len())].clone(), // equal to an earlier request
                _ => gen_req(&mut r, ntypes.max(1), false),
            };
            reqs.push(q);
        }
        ctx.count(&format!("nbase={nbase}"));
        ctx.count(&format!("nreq={nreq}"));
        for g in &base_groups {
            ctx.count(if g.1 { "group=explicit" } else { "group=implicit" });
        }
        let case_line = format!(
            "types {case} base={} groups={} adds={}",
            if base_canon.is_empty() { "-".to_string() } else { base_canon.join(";") },
            if base_groups.is_empty() { "-".to_string() } else { base_groups.iter().map(|(n, e)| format!("{n}{}", if *e { "e" } else { "" })).collect::<Vec<_>>().join(",") },
            reqs.iter().map(|q| q.canon()).collect::<Vec<_>>().join(";")
        );
        ctx.case_line(&case_line);
        let res = guarded(|| {
            let mut m = Module::parse(&bytes, false).expect("parse");
            let ids: Vec<u32> = reqs.iter().map(|q| *q.apply(&mut m)).collect();
            // the same requests again: must return the same ids and change nothing
            let ids2: Vec<u32> = reqs.iter().map(|q| *q.apply(&mut m)).collect();
            // the returned ids are used (as the type of an imported function), so that they reach the encoded bytes
            for (k, q) in reqs.iter().enumerate() {
                if matches!(q, Req::Func { .. }) {
                    m.add_import_func("use".to_string(), format!("t{k}"), TypeID(ids[k]));
                }
            }
            let out = m.encode();
            (ids, ids2, out)
        });
        match res {
            Err(p) => {
                ctx.impl_line(&format!("types {case} PANIC"));
                ctx.fail(fam, case, "C13", "unexpected-panic", &p);
            }
            Ok((ids, ids2, out)) => {
                ctx.hash_line(fam, case, &out);
                let (enc, _) = match decode_types(&out) {
                    Ok(x) => x,
                    Err(e) => {
                        ctx.impl_line(&format!("types {case} UNDECODABLE"));
                        ctx.fail(fam, case, "C13", "output-undecodable", &e);
                        continue;
                    }
                };
                ctx.impl_line(&format!("types {case} ret={}", ids.iter().map(|x| x.to_string()).collect::<Vec<_>>().join(",")));
                ctx.impl_line(&format!("types {case} enc={}", enc.join(";")));
                // ---- oracle (C13)
                let mut fails: Vec<(String, String)> = vec![];
                for (k, q) in reqs.iter().enumerate() {
                    let want = q.canon();
                    match enc.get(ids[k] as usize) {
                        Some(got) if *got == want => {}
                        got => fails.push(("wrong-content-at-returned-index".into(), format!("request {k} {want} -> id {} holds {:?}", ids[k], got))),
                    }
                    if ids2[k] != ids[k] {
                        fails.push(("identical-type-gets-new-index".into(), format!("request {k}: {} then {}", ids[k], ids2[k])));
                    }
                    for j in 0..k {
                        if reqs[j].canon() == want && ids[j] != ids[k] {
                            fails.push(("identical-type-gets-new-index".into(), format!("requests {j} and {k}: {} / {}", ids[j], ids[k])));
                        }
                    }
                }
                if enc.len() < base_canon.len() || enc[..base_canon.len()] != base_canon[..] {
                    fails.push(("existing-types-changed".into(), format!("{:?} -> {:?}", base_canon, enc)));
                }
                // nothing but requested types is appended
                for t in &enc[base_canon.len().min(enc.len())..] {
                    if !reqs.iter().any(|q| q.canon() == *t) {
                        fails.push(("unrequested-type-appended".into(), t.clone()));
                    }
                }
                if fails.is_empty() {
                    ctx.ok(fam, case);
                } else {
                    let mut seen = std::collections::HashSet::new();
                    for (s, d) in fails {
                        if seen.insert(s.clone()) {
                            ctx.fail(fam, case, "C13", &s, &d);
                        }
                    }
                }
            }
        }
    }
}
