//! Output files of one harness run and the bookkeeping shared by all families.
use std::collections::BTreeMap;
use std::fs::File;
use std::io::{BufWriter, Write};
use std::panic::{catch_unwind, AssertUnwindSafe};

pub struct Ctx {
    pub seed: u64,
    pub n: u64,
    pub only: Option<u64>,
    pub tier: String,
    pub cases: BufWriter<File>,
    pub imp: BufWriter<File>,
    pub oracle: BufWriter<File>,
    pub hashes: BufWriter<File>,
    pub stats: BTreeMap<String, u64>,
    pub samples: Vec<String>,
    pub distinct: std::collections::HashSet<u64>,
    pub outdir: String,
}

impl Ctx {
    pub fn new(outdir: &str, seed: u64, n: u64, only: Option<u64>, tier: &str) -> Ctx {
        std::fs::create_dir_all(outdir).unwrap();
        let f = |n: &str| BufWriter::new(File::create(format!("{outdir}/{n}")).unwrap());
        Ctx {
            seed,
            n,
            only,
            tier: tier.to_string(),
            cases: f("cases.txt"),
            imp: f("impl.txt"),
            oracle: f("oracle.txt"),
            hashes: f("hashes.txt"),
            stats: BTreeMap::new(),
            samples: vec![],
            distinct: Default::default(),
            outdir: outdir.to_string(),
        }
    }
    pub fn case_line(&mut self, s: &str) {
        writeln!(self.cases, "{s}").unwrap();
        if self.samples.len() < 5 {
            self.samples.push(s.to_string());
        }
        // distinct non-trivial cases are counted by the hash of the case line without its case number
        let mut h: u64 = 1469598103934665603;
        let mut toks = s.split(' ');
        let fam = toks.next().unwrap_or("");
        let _case = toks.next();
        for b in fam.bytes().chain(toks.flat_map(|t| t.bytes().chain(std::iter::once(b' ')))) {
            h = (h ^ b as u64).wrapping_mul(1099511628211);
        }
        self.distinct.insert(h);
    }
    pub fn impl_line(&mut self, s: &str) {
        writeln!(self.imp, "{s}").unwrap();
    }
    /// hash of the encoded bytes of a case (compared across processes by the C04 check)
    pub fn hash_line(&mut self, fam: &str, case: u64, bytes: &[u8]) {
        let mut h: u64 = 1469598103934665603;
        for b in bytes {
            h = (h ^ *b as u64).wrapping_mul(1099511628211);
        }
        writeln!(self.hashes, "{fam} {case} {} {h:016x}", bytes.len()).unwrap();
    }
    pub fn ok(&mut self, fam: &str, case: u64) {
        writeln!(self.oracle, "OK {fam} {case}").unwrap();
    }
    /// `props`: comma separated ids of the properties this failure violates
    pub fn fail(&mut self, fam: &str, case: u64, props: &str, sig: &str, detail: &str) {
        let d = detail.replace('\n', " / ");
        writeln!(self.oracle, "FAIL {fam} {case} prop={props} sig={sig} {d}").unwrap();
    }
    pub fn count(&mut self, key: &str) {
        *self.stats.entry(key.to_string()).or_insert(0) += 1;
    }
    pub fn add(&mut self, key: &str, v: u64) {
        *self.stats.entry(key.to_string()).or_insert(0) += v;
    }
    pub fn wants(&self, case: u64) -> bool {
        self.only.map_or(true, |o| o == case)
    }
    pub fn finish(mut self) {
        self.cases.flush().unwrap();
        self.imp.flush().unwrap();
        self.oracle.flush().unwrap();
        self.hashes.flush().unwrap();
        let mut s = String::from("{\n");
        s.push_str(&format!("  \"distinct_cases\": {},\n", self.distinct.len()));
        s.push_str("  \"samples\": [");
        for (i, x) in self.samples.iter().enumerate() {
            if i > 0 {
                s.push_str(", ");
            }
            s.push_str(&json_str(x));
        }
        s.push_str("],\n  \"distribution\": {");
        for (i, (k, v)) in self.stats.iter().enumerate() {
            if i > 0 {
                s.push_str(", ");
            }
            s.push_str(&format!("{}: {}", json_str(k), v));
        }
        s.push_str("}\n}\n");
        std::fs::write(format!("{}/stats.json", self.outdir), s).unwrap();
    }
}

pub fn json_str(s: &str) -> String {
    let mut o = String::from("\"");
    for c in s.chars() {
        match c {
            '"' => o.push_str("\\\""),
            '\\' => o.push_str("\\\\"),
            '\n' => o.push_str("\\n"),
            '\t' => o.push_str("\\t"),
            c if (c as u32) < 0x20 => o.push_str(&format!("\\u{:04x}", c as u32)),
            c => o.push(c),
        }
    }
    o.push('"');
    o
}

thread_local! { pub static IN_GUARD: std::cell::Cell<bool> = const { std::cell::Cell::new(false) }; }

pub fn install_panic_hook() {
    std::panic::set_hook(Box::new(|info| {
        if !IN_GUARD.with(|g| g.get()) || std::env::var("ORCA_HARNESS_TRACE").is_ok() {
            eprintln!("harness panic (outside a guarded call): {info}");
        }
    }));
}

/// run `f`, turning a panic into `Err(message)`
pub fn guarded<T>(f: impl FnOnce() -> T) -> Result<T, String> {
    let prev = IN_GUARD.with(|g| g.replace(true));
    let r = catch_unwind(AssertUnwindSafe(f));
    IN_GUARD.with(|g| g.set(prev));
    match r {
        Ok(v) => Ok(v),
        Err(e) => {
            let msg = if let Some(s) = e.downcast_ref::<&str>() {
                s.to_string()
            } else if let Some(s) = e.downcast_ref::<String>() {
                s.clone()
            } else {
                "panic".to_string()
            };
            Err(msg.replace('\n', " "))
        }
    }
}

pub fn show_nats<T: std::fmt::Display>(xs: &[T]) -> String {
    if xs.is_empty() {
        "-".to_string()
    } else {
        xs.iter().map(|x| x.to_string()).collect::<Vec<_>>().join(",")
    }
}
