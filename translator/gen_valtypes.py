#!/usr/bin/env python3
"""T-tie for C01 / C02 / C30: re-reads the value-type conversions of /repo/src/ir/types.rs
   From<ValType> for DataType             (wasmparser -> IR, used by parse)
   From<&DataType> for wasm_encoder::ValType   (IR -> encoder, used by encode)
   From<&DataType> for ValType            (IR -> wasmparser, used for block types / added globals / imports)
and the `DataType` enum itself, and writes lean/Orca/Gen/ValTypes.lean. Fails closed on arms it does not understand."""
import os, re, sys
REPO = os.environ.get('ORCA_REPO', '/repo')
ROOT = os.path.dirname(os.path.dirname(os.path.abspath(__file__)))
OUT = os.path.join(ROOT, 'lean', 'Orca', 'Gen', 'ValTypes.lean')

NUM = ['I32', 'I64', 'F32', 'F64', 'V128']


def _refconsts():
    """wasmparser's `RefType::NAME` constants, read from its source: NAME -> abstract heap type, nullable NAME -> base NAME"""
    import glob
    c = sorted(glob.glob('/root/.cargo/registry/src/*/wasmparser-0.235.0/src/readers/core/types.rs'))
    if not c:
        return {}, {}
    src = open(c[0]).read()
    base = {m.group(1): m.group(2) for m in re.finditer(r'pub const (\w+): Self = RefType::from_u32\(Self::(\w+)_ABSTYPE\);', src)}
    nul = {m.group(1): m.group(2) for m in re.finditer(r'pub const (\w+): Self = RefType::(\w+)\.nullable\(\);', src)}
    return base, nul


REFCONST_BASE, REFCONST_NULLABLE = _refconsts()


def die(m):
    sys.exit('translator(valtypes): ' + m)


def block_after(src, header):
    k = src.find(header)
    if k < 0:
        die(f'`{header}` not found')
    k = src.index('{', k) + 1
    depth, i = 1, k
    while depth:
        depth += (src[i] == '{') - (src[i] == '}')
        i += 1
    return src[k:i - 1]


def split_arms(text):
    arms, depth, cur = [], 0, ''
    for ch in text:
        if ch in '({[':
            depth += 1
        elif ch in ')}]':
            depth -= 1
        if ch == ',' and depth == 0:
            arms.append(cur); cur = ''
        else:
            cur += ch
            if ch == '}' and depth == 0 and '=>' in cur:
                arms.append(cur); cur = ''
    if cur.strip():
        arms.append(cur)
    out = []
    for a in arms:
        if '=>' in a:
            p, b = a.split('=>', 1)
            out.append((re.sub(r'\s+', ' ', p).strip(), re.sub(r'\s+', ' ', b).strip()))
    return out


def lean_dt(expr):
    """`DataType::X`, `DataType::Module { ty_id: .., nullable: .. }`, `DataType::RecGroup(idx)` -> Lean term"""
    e = expr.strip().rstrip(',')
    m = re.fullmatch(r'DataType::(\w+)', e)
    if m:
        return f'.{m.group(1)}'
    m = re.fullmatch(r'DataType::Module \{ ty_id: \*ModuleID\(idx\), nullable: ref_type\.is_nullable\(\), \}', e)
    if m:
        return '.Module idx nullable'
    m = re.fullmatch(r'DataType::RecGroup\(idx\)', e)
    if m:
        return '.RecGroup idx'
    die(f'unknown DataType expression `{e}`')


def main():
    src = re.sub(r'//[^\n]*', '', open(os.path.join(REPO, 'src/ir/types.rs')).read())
    # ---------------- the enum
    en = block_after(src, 'pub enum DataType')
    variants = []
    for part in [x.strip() for x in re.split(r',\s*(?![^{(]*[})])', en) if x.strip()]:
        m = re.match(r'(\w+)\s*(.*)', part, re.S)
        name, rest = m.group(1), re.sub(r'\s+', ' ', m.group(2)).strip()
        if rest == '':
            variants.append((name, []))
        elif rest == '{ ty_id: u32, nullable: bool }':
            variants.append((name, ['ty_id : Nat', 'nullable : Bool']))
        elif rest == '(u32)':
            variants.append((name, ['idx : Nat']))
        else:
            die(f'DataType::{name} has a payload this translator does not understand: {rest}')
    vnames = [v for v, _ in variants]

    # ---------------- parser -> IR
    body = block_after(src, 'impl From<ValType> for DataType')
    body = block_after(body, 'fn from')
    body = block_after(body, 'match value')
    from_rows = []      # Lean match arms
    abstract = []
    for pat, b in split_arms(body):
        m = re.fullmatch(r'ValType::(\w+)', pat)
        if m and m.group(1) in NUM:
            from_rows.append(f'  | .{m.group(1).lower()} => some {lean_dt(b)}')
            continue
        if pat.startswith('ValType::Ref(ref_type)'):
            inner = block_after(b, 'match ref_type.heap_type()')
            for hp, hb in split_arms(inner):
                if hp.startswith('HeapType::Abstract'):
                    if 'shared: _' not in hp:
                        die('the Abstract arm no longer ignores `shared`; this translator models it as ignored')
                    tyarms = block_after(hb, 'match ty')
                    for tp, tb in split_arms(tyarms):
                        tm = re.fullmatch(r'wasmparser::AbstractHeapType::(\w+)', tp)
                        if not tm:
                            die(f'abstract heap type arm `{tp}`')
                        h = tm.group(1)
                        abstract.append(h)
                        im = re.fullmatch(r'\{ if ref_type\.is_nullable\(\) \{ (DataType::\w+) \} else \{ (DataType::\w+) \} \}', tb)
                        if im:
                            from_rows.append(f'  | .ref true _ .{h} => some {lean_dt(im.group(1))}')
                            from_rows.append(f'  | .ref false _ .{h} => some {lean_dt(im.group(2))}')
                        elif re.fullmatch(r'DataType::\w+', tb):
                            from_rows.append(f'  | .ref _ _ .{h} => some {lean_dt(tb)}')
                        else:
                            die(f'arm for AbstractHeapType::{h} is `{tb}`')
                elif hp.startswith('HeapType::Concrete'):
                    carms = block_after(hb, 'match u')
                    for cp, cb in split_arms(carms):
                        if cp.startswith('wasmparser::UnpackedIndex::Module(idx)'):
                            if lean_dt(cb) != '.Module idx nullable':
                                die(f'Concrete(Module) arm is `{cb}`')
                            from_rows.append('  | .refModule nullable idx => some (.Module idx nullable)')
                        elif cp.startswith('wasmparser::UnpackedIndex::RecGroup(idx)'):
                            if lean_dt(cb) != '.RecGroup idx':
                                die(f'Concrete(RecGroup) arm is `{cb}`')
                            from_rows.append('  | .refRecGroup _ idx => some (.RecGroup idx)')
                        elif cp.startswith('wasmparser::UnpackedIndex::Id'):
                            if 'panic!' not in cb:
                                die('Concrete(Id) arm no longer panics')
                        else:
                            die(f'concrete arm `{cp}`')
                else:
                    die(f'heap type arm `{hp}`')
            continue
        die(f'From<ValType> for DataType: arm `{pat}`')

    # ---------------- IR -> encoder / IR -> parser
    def to_wire(header, enc):
        body = block_after(src, header)
        body = block_after(body, 'fn from')
        body = block_after(body, 'match ty')
        rows, seen = [], set()
        for pat, b in split_arms(body):
            names = re.findall(r'DataType::(\w+)', pat)
            if not names:
                die(f'{header}: arm `{pat}`')
            for name in names:
                if name in seen:
                    die(f'{header}: two arms for DataType::{name}')
                seen.add(name)
                if name not in vnames:
                    die(f'{header}: DataType::{name} is not a variant')
                payload = dict(variants)[name]
                lhs = f'.{name}' + ''.join(' ' + p.split(' : ')[0] for p in payload)
                if 'panic!' in b and 'ValType' not in b:
                    rows.append(f'  | {lhs} => none')
                    continue
                m = re.search(r'ValType::(I32|I64|F32|F64|V128)\b', b)
                if m and 'Ref' not in b:
                    rows.append(f'  | {lhs} => some .{m.group(1).lower()}')
                    continue
                if 'ValType::FUNCREF' in b or 'ValType::EXTERNREF' in b:
                    h = 'Func' if 'FUNCREF' in b else 'Extern'
                    rows.append(f'  | {lhs} => some (.ref true false .{h})')
                    continue
                # reference types written with wasmparser's named constants (`RefType::EXNREF`, `RefType::EXN.nullable()`)
                km = None if enc else re.fullmatch(r'ValType::Ref\(\s*RefType::([A-Z0-9_]+)(\.nullable\(\))?\s*,?\s*\)', b.rstrip(','))
                if km:
                    cn, cnull, cbase = km.group(1), bool(km.group(2)), None
                    if cn in REFCONST_NULLABLE:
                        cnull, cn = True, REFCONST_NULLABLE[cn]
                    if cn in REFCONST_BASE:
                        cbase = next((h for h in abstract if h.lower() == REFCONST_BASE[cn].lower()), None)
                    if cbase is None:
                        die(f'{header}: DataType::{name}: unknown wasmparser constant in `{b[:100]}`')
                    rows.append(f'  | {lhs} => some (.ref {"true" if cnull else "false"} false .{cbase})')
                    continue
                # reference types
                if enc:
                    nm = re.search(r'nullable: (true|false|\*nullable)', b)
                else:
                    nm = re.search(r'RefType::new\( (true|false|\*nullable),', b)
                if not nm:
                    die(f'{header}: DataType::{name}: nullability not found in `{b[:100]}`')
                nul = {'true': 'true', 'false': 'false', '*nullable': 'nullable'}[nm.group(1)]
                am = re.search(r'Abstract \{ shared: (true|false), ty: (?:wasmparser::)?AbstractHeapType::(\w+),? \}', b)
                if am:
                    rows.append(f'  | {lhs} => some (.ref {nul} {am.group(1)} .{am.group(2)})')
                    continue
                cm = re.search(r'Concrete\((?:wasmparser::UnpackedIndex::(Module|RecGroup)\()?\*(\w+)\)?\)', b)
                if cm:
                    var = cm.group(2)
                    if enc:
                        # the encoder has one kind of concrete index
                        ctor = 'refModule'
                    else:
                        ctor = 'refModule' if cm.group(1) == 'Module' else 'refRecGroup'
                    rows.append(f'  | {lhs} => some (.{ctor} {nul} {var})')
                    continue
                die(f'{header}: DataType::{name}: `{b[:120]}`')
        missing = [v for v in vnames if v not in seen]
        if missing:
            die(f'{header}: no arm for {missing}')
        return rows

    enc_rows = to_wire('impl From<&DataType> for wasm_encoder::ValType', True)
    par_rows = to_wire('impl From<&DataType> for ValType', False)

    ah = sorted(set(abstract), key=abstract.index)
    L = ['-- GENERATED by translator/gen_valtypes.py on every run of bin/check — do not edit',
         '/-! the value-type conversions of /repo/src/ir/types.rs as functions -/', 'namespace Orca.Gen', '',
         '/-- abstract heap types (the arms of `From<ValType> for DataType`) -/', 'inductive AH where']
    L += [f'  | {h}' for h in ah] + ['deriving DecidableEq, Repr', '',
          '/-- value types on the wire: numeric, vector, abstract references (nullable, shared, heap type), concrete references -/',
          'inductive VT where', '  | i32 | i64 | f32 | f64 | v128', '  | ref (nullable shared : Bool) (h : AH)',
          '  | refModule (nullable : Bool) (idx : Nat)', '  | refRecGroup (nullable : Bool) (idx : Nat)', 'deriving DecidableEq, Repr', '',
          '/-- `DataType` -/', 'inductive DT where']
    for v, payload in variants:
        L.append(f'  | {v}' + ''.join(f' ({p})' for p in payload))
    L += ['deriving DecidableEq, Repr', '', '/-- `From<ValType> for DataType` (`none` = panic) -/', 'def fromVal : VT → Option DT']
    L += from_rows
    L += ['', '/-- `From<&DataType> for wasm_encoder::ValType` (`none` = panic) -/', 'def toEnc : DT → Option VT'] + enc_rows
    L += ['', '/-- `From<&DataType> for wasmparser::ValType` (`none` = panic) -/', 'def toParser : DT → Option VT'] + par_rows
    L += ['', 'end Orca.Gen', '']
    txt = '\n'.join(L)
    if not os.path.exists(OUT) or open(OUT).read() != txt:
        open(OUT, 'w').write(txt)
    print(f'translator(valtypes): {len(variants)} DataType variants, {len(ah)} abstract heap types, {len(from_rows)} parse arms')


if __name__ == '__main__':
    main()
