#!/usr/bin/env python3
"""T-tie for C30 / C02: re-reads /repo/src/ir/types.rs
  - `InitExpr::eval`               : which wasmparser operator becomes which `InitInstr` variant, through which conversion
  - `InitExpr::to_wasmencoder_type`: which `InitInstr` variant is encoded as which wasm-encoder `Instruction`, and how
and writes lean/Orca/Gen/ConstExpr.lean. Fails closed on arms it does not understand."""
import os, re, sys
sys.path.insert(0, os.path.dirname(os.path.abspath(__file__)))
from optable import fn_body

REPO = os.environ.get('ORCA_REPO', '/repo')
ROOT = os.path.dirname(os.path.dirname(os.path.abspath(__file__)))
OUT = os.path.join(ROOT, 'lean', 'Orca', 'Gen', 'ConstExpr.lean')


def die(m):
    sys.exit('translator(constexpr): ' + m)


def split_arms(text):
    """top-level `pattern => body` arms of a match body"""
    arms, depth, cur, i = [], 0, '', 0
    while i < len(text):
        ch = text[i]
        if ch in '({[':
            depth += 1
        elif ch in ')}]':
            depth -= 1
        if ch == ',' and depth == 0:
            arms.append(cur); cur = ''
        else:
            cur += ch
            # an arm whose body is a block ends at the closing brace at depth 0
            if ch == '}' and depth == 0 and '=>' in cur:
                arms.append(cur); cur = ''
        i += 1
    if cur.strip():
        arms.append(cur)
    out = []
    for a in arms:
        if '=>' in a:
            p, b = a.split('=>', 1)
            out.append((re.sub(r'\s+', ' ', p).strip(), re.sub(r'\s+', ' ', b).strip()))
    return out


def match_body(src, after):
    k = src.index(after)
    k = src.index('{', k) + 1
    depth, i = 1, k
    while depth:
        depth += (src[i] == '{') - (src[i] == '}')
        i += 1
    return src[k:i - 1]


def main():
    src = re.sub(r'//[^\n]*', '', open(os.path.join(REPO, 'src/ir/types.rs')).read())
    # ---------------- eval
    ev = fn_body(src, 'eval')
    hdr = 'match reader.read()?' if 'match reader.read()?' in ev else 'match reader.read().unwrap()'
    body = match_body(ev, hdr)
    eval_rows = []  # (operator, InitInstr variant, value variant or None, conversion)
    for pat, b in split_arms(body):
        op = re.match(r'(\w+)', pat).group(1)
        if op == 'End':
            if b.rstrip(',') != 'break':
                die(f'eval: End arm is `{b}`')
            continue
        if op in ('_', 'op') and '::' not in pat:
            # every operator without an arm of its own is refused (an error since the repair of F2a; a panic before)
            if 'panic!' not in b and 'return Err(' not in b:
                die('eval: the catch-all arm neither fails nor panics')
            continue
        m = re.match(r'(?:\{ )?InitInstr::(\w+)', b)
        if not m:
            die(f'eval: arm for {op} does not build an InitInstr: {b[:80]}')
        variant = m.group(1)
        val, conv = None, 'same'
        if variant == 'Value':
            vm = re.match(r'InitInstr::Value\(Value::(\w+)\((.*)\)\)$', b)
            if not vm:
                die(f'eval: Value arm for {op}: {b}')
            val, ex = vm.group(1), vm.group(2).strip()
            if ex == 'value':
                conv = 'same'
            elif ex == 'f32::from_bits(value.bits())':
                conv = 'fromBits32'
            elif ex == 'f64::from_bits(value.bits())':
                conv = 'fromBits64'
            elif ex == 'v128_to_u128(&value)':
                conv = 'leBytes128'
            else:
                die(f'eval: conversion `{ex}` for {op} is not one this translator understands')
        else:
            # the fields of the operator must be passed on under the same names (struct shorthand or newtype of the field)
            fields = re.findall(r'\b(\w+)\b', pat[len(op):])
            for f in fields:
                if not re.search(r'\b%s\b' % re.escape(f), b):
                    die(f'eval: arm for {op} drops the field {f}')
        eval_rows.append((op, variant, val, conv))
    # v128_to_u128 must be the little-endian reading of the 16 bytes
    v = re.sub(r'\s+', '', fn_body(src, 'v128_to_u128'))
    want = 'letn=value.bytes();' + '|'.join(f'((n[{i}]asu128)<<{8 * i})' for i in range(16))
    if v != want:
        die('v128_to_u128 is no longer the little-endian reading of the 16 bytes')
    # ---------------- to_wasmencoder_type
    tw = fn_body(src, 'to_wasmencoder_type')
    body = match_body(tw, 'match instr')
    enc_rows = []   # (InitInstr variant, value variant or None, Instruction variant, conversion)
    for pat, b in split_arms(body):
        m = re.match(r'InitInstr::(\w+)', pat)
        if not m:
            die(f'to_wasmencoder_type: arm `{pat[:60]}`')
        variant = m.group(1)
        if variant == 'Value':
            inner = match_body(b, 'match v')
            for vp, vb in split_arms(inner):
                vm = re.match(r'Value::(\w+)\((\w+)\)', vp)
                im = re.search(r'wasm_encoder::Instruction::(\w+)\((.*?)\)\s*\.encode\(&mut bytes\)', vb)
                if not vm or not im:
                    die(f'to_wasmencoder_type: Value arm `{vp}` => `{vb[:80]}`')
                ex = im.group(2).strip()
                x = vm.group(2)
                if ex == f'*{x}':
                    conv = 'same'
                elif ex == f'Ieee32::from(*{x})':
                    conv = 'ieee32'
                elif ex == f'Ieee64::from(*{x})':
                    conv = 'ieee64'
                elif ex == f'*{x} as i128':
                    conv = 'asI128'
                else:
                    die(f'to_wasmencoder_type: conversion `{ex}` is not one this translator understands')
                enc_rows.append(('Value', vm.group(1), im.group(1), conv))
        else:
            im = re.search(r'wasm_encoder::Instruction::(\w+)', b)
            if not im:
                die(f'to_wasmencoder_type: arm for {variant} encodes no instruction')
            if '.encode(&mut bytes)' not in b:
                die(f'to_wasmencoder_type: arm for {variant} does not append to `bytes`')
            enc_rows.append((variant, None, im.group(1), 'same'))
    # wasm-encoder's Ieee32::from / Ieee64::from are bit copies
    import glob
    c = sorted(glob.glob('/root/.cargo/registry/src/*/wasm-encoder-0.235.0/src/core/code.rs'))
    if not c:
        die('wasm-encoder-0.235.0 source not found')
    ws = re.sub(r'\s+', ' ', open(c[0]).read())
    for w, t, u in (('32', 'f32', 'u32'), ('64', 'f64', 'u64')):
        if f'impl From<{t}> for Ieee{w} {{ fn from(value: {t}) -> Self {{ Ieee{w} {{ 0: {u}::from_le_bytes(value.to_le_bytes()), }} }} }}' not in ws:
            die(f'wasm-encoder Ieee{w}::from is no longer a bit copy')

    def key(variant, val):
        return f'{variant}_{val}' if val else variant
    kinds = []
    for r in enc_rows:
        k = key(r[0], r[1])
        if k in kinds:
            die(f'to_wasmencoder_type: two arms for {k}')
        kinds.append(k)
    L = ['-- GENERATED by translator/gen_constexpr.py on every run of bin/check — do not edit',
         '/-! `InitExpr::eval` and `InitExpr::to_wasmencoder_type` (/repo/src/ir/types.rs) as tables. -/',
         'namespace Orca.Gen', '',
         '/-- the `InitInstr` variants (constants split by `Value` variant) -/', 'inductive InitK where']
    L += [f'  | {k}' for k in kinds]
    L += ['deriving DecidableEq, Repr', '', '/-- conversions applied to the payload of a constant -/',
          'inductive CConv where', '  | same | fromBits32 | fromBits64 | leBytes128 | ieee32 | ieee64 | asI128', 'deriving DecidableEq, Repr', '',
          '/-- `eval`: wasmparser operator name ↦ (`InitInstr` variant, conversion); other operators panic -/',
          'def evalTable : List (String × InitK × CConv) := [']
    rows = []
    for op, variant, val, conv in eval_rows:
        k = key(variant, val)
        if k not in kinds:
            die(f'eval builds {k}, which to_wasmencoder_type does not encode')
        rows.append(f'  ("{op}", .{k}, .{conv})')
    L.append(',\n'.join(rows) + ']')
    L += ['', '/-- `to_wasmencoder_type`: `InitInstr` variant ↦ (wasm-encoder `Instruction` variant, conversion) -/',
          'def encTable : InitK → String × CConv']
    for variant, val, ins, conv in enc_rows:
        L.append(f'  | .{key(variant, val)} => ("{ins}", .{conv})')
    L += ['', 'end Orca.Gen', '']
    txt = '\n'.join(L)
    if not os.path.exists(OUT) or open(OUT).read() != txt:
        open(OUT, 'w').write(txt)
    print(f'translator(constexpr): eval {len(eval_rows)} operators, to_wasmencoder_type {len(enc_rows)} variants')


if __name__ == '__main__':
    main()
