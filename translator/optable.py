"""shared parsers: wasmparser's operator list (the specification of which operator carries which immediate) and
the operator pattern lists of /repo/src/ir/wrappers.rs"""
import glob, re, sys

def wasmparser_src():
    c = sorted(glob.glob('/root/.cargo/registry/src/*/wasmparser-0.235.0/src/lib.rs'))
    if not c:
        sys.exit('translator: wasmparser-0.235.0 source not found in the cargo registry')
    return c[0]

def operators():
    """[(Name, [(field, type)])] in declaration order, from `_for_each_operator_group!`"""
    src = open(wasmparser_src()).read()
    a = src.index('macro_rules! _for_each_operator_group')
    b = src.index('macro_rules!', a + 10)
    body = src[a:b]
    ops = []
    for m in re.finditer(r'^\s+([A-Z]\w+)(?: \{([^}]*)\})? => visit_(\w+)', body, re.M):
        fields = []
        if m.group(2):
            for f in m.group(2).split(','):
                f = f.strip()
                if not f:
                    continue
                n, t = f.split(':', 1)
                fields.append((n.strip(), t.strip()))
        ops.append((m.group(1), fields, m.group(3)))
    if len(ops) < 500:
        sys.exit(f'translator: only {len(ops)} operators found in wasmparser source; the macro layout is not the one this translator understands')
    return ops

def fn_body(src, name):
    m = re.search(r'fn %s\b[^{]*\{' % re.escape(name), src)
    if not m:
        sys.exit(f'translator: function {name} not found')
    i = m.end(); depth = 1
    while depth:
        c = src[i]
        depth += (c == '{') - (c == '}')
        i += 1
    return src[m.end():i - 1]

def op_patterns(text):
    """Operator::Name occurrences in a pattern list"""
    return re.findall(r'Operator::(\w+)', text)

def matches_list(src, name):
    """names inside the single `matches!(op, ...)` of a `refers_to_*` function; fails closed on any other shape"""
    body = fn_body(src, name)
    body_nc = re.sub(r'//[^\n]*', '', body)
    m = re.fullmatch(r'\s*matches!\(\s*op,(.*)\)\s*', body_nc, re.S)
    if not m:
        sys.exit(f'translator: {name} is no longer a single matches!(op, ...) expression')
    return op_patterns(m.group(1))

def update_arms(src, name):
    """[(set of operator names, fields named in the pattern, body text)] for each arm of `match op { ... }` in update_*_instr"""
    body = re.sub(r'//[^\n]*', '', fn_body(src, name))
    m = re.search(r'match op \{', body)
    if not m:
        sys.exit(f'translator: {name} has no `match op`')
    i = m.end(); depth = 1; start = i
    while depth:
        c = body[i]
        depth += (c == '{') - (c == '}')
        i += 1
    inner = body[start:i - 1]
    # split top-level arms: pattern => { body }
    arms = []
    pos = 0
    while True:
        m = re.search(r'=>\s*\{', inner[pos:])
        m2 = re.search(r'=>\s*(match|panic!)', inner[pos:])
        if not m and not m2:
            break
        if m2 and (not m or m2.start() < m.start()):
            # arm whose body is an expression up to the next top-level comma
            pat = inner[pos:pos + m2.start()]
            j = pos + m2.end(); depth = 0
            while j < len(inner):
                c = inner[j]
                if c in '{(':
                    depth += 1
                elif c in '})':
                    depth -= 1
                elif c == ',' and depth == 0:
                    break
                j += 1
            arms.append((pat, inner[pos + m2.start():j]))
            pos = j + 1
            continue
        pat = inner[pos:pos + m.start()]
        j = pos + m.end(); depth = 1
        while depth:
            c = inner[j]
            depth += (c == '{') - (c == '}')
            j += 1
        arms.append((pat, inner[pos + m.end():j - 1]))
        pos = j
        while pos < len(inner) and inner[pos] in ', \n':
            pos += 1
    out = []
    for pat, b in arms:
        names = op_patterns(pat)
        if not names:
            continue
        out.append((names, pat, b))
    return out
