#!/usr/bin/env python3
"""T-tie for the edit / builder / iterator API (C06, C07, C09-C14, C25, C26, C29, C30): the control-and-call skeleton (the format of
scan_resolver.py, plus assignments to fields and compound assignments) of the functions the hand-written models M1, M2, M6, M7, M13
and M14 transcribe. Model/ApiOutlineSpec.lean holds the reviewed copy; each property's Props file states `generated = reviewed` for
the functions it rests on. Writes lean/Orca/Gen/ApiOutline.lean."""
import os, re, sys
sys.path.insert(0, os.path.dirname(os.path.abspath(__file__)))
import scan_resolver as sr
REPO = os.environ.get('ORCA_REPO', '/repo')
ROOT = os.path.dirname(os.path.dirname(os.path.abspath(__file__)))
OUT = os.environ.get('ORCA_APIOUTLINE_OUT', os.path.join(ROOT, 'lean', 'Orca', 'Gen', 'ApiOutline.lean'))

# (file, header pattern, Lean name)
FUNCS = [
    ('src/ir/module/mod.rs', r'fn reorganise_generic\b', 'reorganise_generic'),
    ('src/ir/module/mod.rs', r'fn order_imports_generic\b', 'order_imports_generic'),
    ('src/ir/module/mod.rs', r'fn get_mapping_generic\b', 'get_mapping_generic'),
    ('src/ir/module/mod.rs', r'fn recalculate_ids\b', 'recalculate_ids'),
    ('src/ir/module/mod.rs', r'fn add_import\b', 'add_import'),
    ('src/ir/module/mod.rs', r'fn delete_func\b', 'delete_func'),
    ('src/ir/module/mod.rs', r'fn delete_global\b', 'delete_global'),
    ('src/ir/module/mod.rs', r'fn delete_memory\b', 'delete_memory'),
    ('src/ir/module/mod.rs', r'fn convert_import_fn_to_local\b', 'convert_import_fn_to_local'),
    ('src/ir/function.rs', r'fn replace_import_in_module_with_tag\b', 'replace_import_in_module_with_tag'),
    ('src/ir/module/mod.rs', r'fn convert_local_fn_to_import_with_tag\b', 'convert_local_fn_to_import_with_tag'),
    ('src/ir/module/mod.rs', r'fn add_local_func_with_tag\b', 'add_local_func_with_tag'),
    ('src/ir/function.rs', r'fn finish_module_with_tag\b', 'finish_module_with_tag'),
    ('src/ir/module/module_types.rs', r'fn add_type\b', 'add_type'),
    ('src/ir/module/module_types.rs', r'fn add_func_type\b', 'add_func_type'),
    ('src/ir/module/module_functions.rs', r'pub\(crate\) fn add_local\b', 'add_local'),
    ('src/ir/module/module_functions.rs', r'pub\(crate\) fn add_locals\b', 'add_locals'),
    ('src/subiterator/module_subiterator.rs', r'fn next\b', 'module_subiterator_next'),
    ('src/subiterator/module_subiterator.rs', r'fn handle_skips\b', 'module_subiterator_handle_skips'),
    ('src/subiterator/component_subiterator.rs', r'fn next\b', 'component_subiterator_next'),
    ('src/subiterator/component_subiterator.rs', r'fn next_module\b', 'component_subiterator_next_module'),
    ('src/ir/module/mod.rs', r'fn set_fn_name\b', 'set_fn_name'),
    ('src/ir/module/mod.rs', r'fn add_global_with_tag\b', 'add_global_with_tag'),
    ('src/ir/module/mod.rs', r'fn add_imported_global_with_tag\b', 'add_imported_global_with_tag'),
    ('src/ir/module/mod.rs', r'fn add_data\b', 'add_data'),
    ('src/ir/module/mod.rs', r'fn add_local_memory_with_tag\b', 'add_local_memory_with_tag'),
    ('src/ir/module/mod.rs', r'fn add_import_memory_with_tag\b', 'add_import_memory_with_tag'),
    ('src/ir/module/mod.rs', r'fn add_import_func_with_tag\b', 'add_import_func_with_tag'),
    # small functions taken word for word (comparison operators and index arithmetic are the whole content)
    ('src/ir/types.rs', r'pub fn new(?=\(custom_sections\b)', 'custom_new', 'text'),
    ('src/ir/types.rs', r'pub fn get_id(?=\(&self, name: String\))', 'custom_get_id', 'text'),
    ('src/ir/types.rs', r'pub fn get_by_id(?=\(&self, custom_section_id\b)', 'custom_get_by_id', 'text'),
    ('src/ir/types.rs', r'pub fn delete(?=\(&mut self, id: CustomSectionID\))', 'custom_delete', 'text'),
    ('src/ir/types.rs', r'pub fn get_section_data_mut(?=\(&mut self, section_id: CustomSectionID\))', 'custom_get_section_data_mut', 'text'),
    ('src/ir/types.rs', r'pub fn add(?=\(&mut self, section: CustomSection\b)', 'custom_add', 'text'),
    ('src/ir/module/module_functions.rs', r'pub\(crate\) fn add_local\b', 'add_local_text', 'text'),
    # the per-instruction and per-function injection lists (M3 `inject`, `clearInstr`, `hasInstr`): word for word; the fifth entry is
    # the `impl` header the function is searched behind (the names repeat between the two flag types)
    ('src/ir/types.rs', r'pub fn has_instr\b', 'func_flag_has_instr', 'text', r"impl<'a> FuncInstrFlag<'a> \{"),
    ('src/ir/types.rs', r'pub fn add_instr\b', 'func_flag_add_instr', 'text', r"impl<'a> FuncInstrFlag<'a> \{"),
    ('src/ir/types.rs', r'pub fn has_instr\b', 'flag_has_instr', 'text', r"impl<'a> InstrumentationFlag<'a> \{"),
    ('src/ir/types.rs', r'pub\(crate\) fn check_special_is_resolved\b', 'flag_check_special_is_resolved', 'text', r"impl<'a> InstrumentationFlag<'a> \{"),
    ('src/ir/types.rs', r'pub fn add_instr\b', 'flag_add_instr', 'text', r"impl<'a> InstrumentationFlag<'a> \{"),
    ('src/ir/types.rs', r'pub fn clear_instr\b', 'flag_clear_instr', 'text', r"impl<'a> InstrumentationFlag<'a> \{"),
    ('src/ir/types.rs', r'pub\(crate\) fn is_block_style_op\b', 'flag_is_block_style_op', 'text', r"impl<'a> InstrumentationFlag<'a> \{"),
    ('src/ir/types.rs', r'fn is_branching_op\b', 'flag_is_branching_op', 'text', r"impl<'a> InstrumentationFlag<'a> \{"),
    ('src/ir/types.rs', r'pub fn add_instr\b', 'instruction_add_instr', 'text', r"impl<'a, 'b> Instruction<'a>"),
    ('src/ir/types.rs', r'pub\(crate\) fn empty_block_alt\b', 'instruction_empty_block_alt', 'text', r"impl<'a, 'b> Instruction<'a>"),
    # the location-addressed injection API of the function modifier and of the two iterators, word for word
    ('src/ir/function.rs', r'fn inject\b', 'modifier_inject', 'text', r"impl<'b> Inject<'b> for FunctionModifier"),
    ('src/ir/function.rs', r'fn inject_at\b', 'modifier_inject_at', 'text', r"impl<'b> InjectAt<'b> for FunctionModifier"),
    ('src/ir/function.rs', r'fn set_instrument_mode_at\b', 'modifier_set_instrument_mode_at', 'text', r"impl<'b> Instrumenter<'b> for FunctionModifier"),
    ('src/ir/function.rs', r'fn set_func_instrument_mode\b', 'modifier_set_func_instrument_mode', 'text', r"impl<'b> Instrumenter<'b> for FunctionModifier"),
    ('src/ir/function.rs', r'fn clear_instr_at\b', 'modifier_clear_instr_at', 'text', r"impl<'b> Instrumenter<'b> for FunctionModifier"),
    ('src/ir/function.rs', r'fn add_instr_at\b', 'modifier_add_instr_at', 'text', r"impl<'b> Instrumenter<'b> for FunctionModifier"),
    ('src/ir/function.rs', r'fn empty_alternate_at\b', 'modifier_empty_alternate_at', 'text', r"impl<'b> Instrumenter<'b> for FunctionModifier"),
    ('src/ir/function.rs', r'fn empty_block_alt_at\b', 'modifier_empty_block_alt_at', 'text', r"impl<'b> Instrumenter<'b> for FunctionModifier"),
    ('src/iterator/module_iterator.rs', r'fn inject\b', 'moditer_inject', 'text', r"impl<'b> Inject<'b> for ModuleIterator"),
    ('src/iterator/module_iterator.rs', r'fn inject_at\b', 'moditer_inject_at', 'text', r"impl<'a> InjectAt<'a> for ModuleIterator"),
    ('src/iterator/module_iterator.rs', r'fn set_instrument_mode_at\b', 'moditer_set_instrument_mode_at', 'text', r"impl<'a> Instrumenter<'a> for ModuleIterator"),
    ('src/iterator/module_iterator.rs', r'fn set_func_instrument_mode\b', 'moditer_set_func_instrument_mode', 'text', r"impl<'a> Instrumenter<'a> for ModuleIterator"),
    ('src/iterator/module_iterator.rs', r'fn clear_instr_at\b', 'moditer_clear_instr_at', 'text', r"impl<'a> Instrumenter<'a> for ModuleIterator"),
    ('src/iterator/module_iterator.rs', r'fn add_instr_at\b', 'moditer_add_instr_at', 'text', r"impl<'a> Instrumenter<'a> for ModuleIterator"),
    ('src/iterator/module_iterator.rs', r'fn empty_alternate_at\b', 'moditer_empty_alternate_at', 'text', r"impl<'a> Instrumenter<'a> for ModuleIterator"),
    ('src/iterator/module_iterator.rs', r'fn empty_block_alt_at\b', 'moditer_empty_block_alt_at', 'text', r"impl<'a> Instrumenter<'a> for ModuleIterator"),
    ('src/iterator/component_iterator.rs', r'fn inject\b', 'compiter_inject', 'text', r"impl<'b> Inject<'b> for ComponentIterator"),
    ('src/iterator/component_iterator.rs', r'fn inject_at\b', 'compiter_inject_at', 'text', r"impl<'b> InjectAt<'b> for ComponentIterator"),
    ('src/iterator/component_iterator.rs', r'fn set_instrument_mode_at\b', 'compiter_set_instrument_mode_at', 'text', r"impl<'b> Instrumenter<'b> for ComponentIterator"),
    ('src/iterator/component_iterator.rs', r'fn set_func_instrument_mode\b', 'compiter_set_func_instrument_mode', 'text', r"impl<'b> Instrumenter<'b> for ComponentIterator"),
    ('src/iterator/component_iterator.rs', r'fn clear_instr_at\b', 'compiter_clear_instr_at', 'text', r"impl<'b> Instrumenter<'b> for ComponentIterator"),
    ('src/iterator/component_iterator.rs', r'fn add_instr_at\b', 'compiter_add_instr_at', 'text', r"impl<'b> Instrumenter<'b> for ComponentIterator"),
    ('src/iterator/component_iterator.rs', r'fn empty_alternate_at\b', 'compiter_empty_alternate_at', 'text', r"impl<'b> Instrumenter<'b> for ComponentIterator"),
    ('src/iterator/component_iterator.rs', r'fn empty_block_alt_at\b', 'compiter_empty_block_alt_at', 'text', r"impl<'b> Instrumenter<'b> for ComponentIterator"),
    # the key of the type-interning map: equality and hash must look at the same things (C13; a disagreement makes the outcome of a
    # lookup depend on the hash seed: C04)
    ('src/ir/module/module_types.rs', r'fn hash\b', 'types_hash', 'text', r'impl Hash for Types \{'),
    ('src/ir/module/module_types.rs', r'fn eq\b', 'types_eq', 'text', r'impl PartialEq for Types \{'),
    ('src/ir/module/module_functions.rs', r'pub fn add_instr\b', 'localfn_add_instr', 'text'),
    ('src/ir/module/module_functions.rs', r'pub fn clear_instr_at\b', 'localfn_clear_instr_at', 'text'),
    ('src/ir/types.rs', r'pub fn clear_instr\b', 'body_clear_instr', 'text', r"impl<'a, 'b> Body<'a>"),
]

TOK = re.compile(r'''
    (?P<op>Operator::[A-Za-z0-9_]+)
  | (?P<ctor>\b[A-Z][A-Za-z0-9_]*::new\s*\()
  | (?P<slit>\b[A-Z][A-Za-z0-9_]*(?:::[A-Z][A-Za-z0-9_]*)?\s*\{)
  | (?P<fassign>\.\s*[A-Za-z_][A-Za-z0-9_]*\s*[+\-*]?=(?![=>]))
  | (?P<cassign>\b[A-Za-z_][A-Za-z0-9_]*\s*[+\-*]=)
  | (?P<macro>\b[A-Za-z_][A-Za-z0-9_]*!\s*[\(\[{])
  | (?P<call>\.?\b[A-Za-z_][A-Za-z0-9_]*\s*(?:::<[^>]*>)?\s*\()
  | (?P<word>\b[A-Za-z_][A-Za-z0-9_]*\b)
''', re.X)


strip = sr.strip


def die(m):
    sys.exit('translator(api): ' + m)


def fn_body_at(src, pat, anchor=None):
    start = 0
    if anchor:
        a = re.search(anchor, src)
        if not a:
            die(f'no impl header matches {anchor}')
        start = a.end()
    m = re.compile(pat).search(src, start)
    if not m:
        die(f'no function matches {pat}')
    i = src.index('(', m.end())
    depth = 0
    while True:
        c = src[i]
        depth += (c == '(') - (c == ')')
        i += 1
        if depth == 0:
            break
    i = src.index('{', i)
    start = i + 1
    depth = 1
    i = start
    while depth:
        c = src[i]
        depth += (c == '{') - (c == '}')
        i += 1
    return src[start:i - 1]


def balanced(body, i, open_c, close_c):
    """text between the bracket that ends at position i and its partner"""
    depth, j = 1, i
    while depth:
        c = body[j]
        depth += (c == open_c) - (c == close_c)
        j += 1
    return body[i:j - 1]


SIMPLE_FIELDS = re.compile(r'^(?:[a-z_][A-Za-z0-9_]*(?::[^{};]*?)?,)*(?:[a-z_][A-Za-z0-9_]*(?::[^{};]*?)?)?$')


def outline(body):
    out = []
    for m in TOK.finditer(body):
        if m.group('op'):
            out.append(m.group('op'))
        elif m.group('ctor'):
            # a constructor call: which value goes into which position is part of the skeleton (the nested calls follow as usual)
            args = re.sub(r'\s+', '', balanced(body, m.end(), '(', ')')).rstrip(',')
            out.append(re.sub(r'\s+', '', m.group('ctor')) + args + ')')
        elif m.group('slit'):
            # a structure literal (or pattern) whose fields are plain `name` / `name: expression` entries
            inner = re.sub(r'\s+', '', balanced(body, m.end(), '{', '}'))
            if inner and SIMPLE_FIELDS.match(inner):
                out.append(re.sub(r'\s+', '', m.group('slit')) + inner.rstrip(',') + '}')
        elif m.group('fassign'):
            out.append(re.sub(r'\s+', '', m.group('fassign')).replace('=', ' =').replace('+ =', ' +=').replace('- =', ' -=').replace('* =', ' *='))
        elif m.group('cassign'):
            t = re.sub(r'\s+', '', m.group('cassign'))
            out.append(t[:-2] + ' ' + t[-2:])
        elif m.group('macro'):
            name = m.group('macro').split('!')[0].strip()
            if name not in ('vec', 'format', 'println', 'eprintln', 'debug', 'trace', 'info', 'warn', 'error'):
                out.append(name + '!')
        elif m.group('call'):
            t = m.group('call')
            name = re.match(r'\.?\s*([A-Za-z_][A-Za-z0-9_]*)', t).group(1)
            if name in sr.KW:
                out.append(name)
            elif name not in sr.NOISE:
                out.append(('.' if t.startswith('.') else '') + name + '()')
        else:
            w = m.group('word')
            if w in sr.KW:
                out.append(w)
    return out


def text(body):
    """the body word for word: white space normalised, cut behind `;`, `{` and `}` for reading"""
    t = re.sub(r'\s+', ' ', body).strip()
    t = re.sub(r'\s*([;{}(),.\[\]])\s*', r'\1', t)
    return [x for x in re.split(r'(?<=[;{}])', t) if x]


def main():
    cache = {}
    rows = []
    for f, pat, name, *how in FUNCS:
        if f not in cache:
            cache[f] = strip(open(os.path.join(REPO, f)).read())
        o = (text if how else outline)(fn_body_at(cache[f], pat, how[1] if len(how) > 1 else None))
        if not o:
            die(f'{name}: empty skeleton')
        rows.append((name, o))
    L = ['-- GENERATED by translator/scan_api.py on every run of bin/check — do not edit',
         '/-! the control-and-call skeletons of the edit / builder / iterator API functions the models transcribe, in source order -/',
         'namespace Orca.Gen.ApiOutline', '']
    for f, o in rows:
        lines, cur = [], '   '
        for t in o:
            piece = '"' + t.replace('"', "'") + '", '
            if len(cur) + len(piece) > 118:
                lines.append(cur.rstrip())
                cur = '   '
            cur += piece
        lines.append(cur.rstrip().rstrip(','))
        lines[0] = '  [' + lines[0].lstrip()
        L.append(f'def {f} : List String :=\n' + '\n'.join(lines) + ']\n')
    L += ['end Orca.Gen.ApiOutline', '']
    txt = '\n'.join(L)
    if not os.path.exists(OUT) or open(OUT).read() != txt:
        open(OUT, 'w').write(txt)
    print('translator(api): ' + ', '.join(f'{f}:{len(o)}' for f, o in rows))


if __name__ == '__main__':
    main()
