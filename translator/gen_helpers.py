#!/usr/bin/env python3
"""T-tie for C24: re-reads /repo/src/opcode.rs (every `fn x(&mut self, ..) -> &mut Self { self.inject(Operator::X {..}); self }`
helper of `Opcode` / `MacroOpcode`) and wasmparser's operator list, and writes
  lean/Orca/Gen/Helpers.lean      the helpers as data: variant, parameter types, which expression feeds which field
  harness/src/gen_helpers.rs      a Rust function that calls helper number k with decoded arguments (for the correspondence)
Fails closed when a helper no longer has a shape it understands."""
import os, re, sys
sys.path.insert(0, os.path.dirname(os.path.abspath(__file__)))
from optable import operators, wasmparser_src

REPO = os.environ.get('ORCA_REPO', '/repo')
ROOT = os.path.dirname(os.path.dirname(os.path.abspath(__file__)))
OUT = os.path.join(ROOT, 'lean', 'Orca', 'Gen')

NOT_HELPERS = {'func_entry', 'func_exit', 'before_at', 'after_at', 'alternate_at', 'semantic_after_at', 'block_entry_at',
               'block_exit_at', 'block_alt_at', 'inject_all'}
# parameter type -> model type
PTY = {'u32': 'u32', 'i32': 'i32', 'i64': 'i64', 'u64': 'u64', 'f32': 'f32', 'f64': 'f64', 'MemArg': 'memarg',
       'BlockType': 'blockTy', 'HeapType': 'heapTy', 'FunctionID': 'id32', 'LocalID': 'id32', 'GlobalID': 'id32',
       'TypeID': 'id32', 'FieldID': 'id32', 'DataSegmentID': 'id32', 'ElementID': 'id32'}


def die(msg):
    sys.exit('translator(helpers): ' + msg)


def parse_helpers():
    src = open(os.path.join(REPO, 'src/opcode.rs')).read()
    # the two traits whose default methods are the helpers
    a = src.index('pub trait Opcode<')
    text = src[a:]
    out = []
    seen = set()
    for m in re.finditer(r'fn (\w+)\s*\(\s*&mut self\s*,?\s*([^)]*)\)\s*->\s*&mut Self\s*\{(.*?)\n    \}', text, re.S):
        name, params, body = m.group(1), m.group(2), m.group(3)
        if name in NOT_HELPERS:
            continue
        if name in seen:
            die(f'helper {name} defined twice')
        seen.add(name)
        ps = []
        for p in params.split(','):
            p = p.strip()
            if not p:
                continue
            pn, pt = [x.strip() for x in p.split(':', 1)]
            if pt not in PTY:
                die(f'helper {name}: parameter type {pt} is not one this translator understands')
            ps.append((pn, pt))
        b = re.sub(r'//[^\n]*', '', body)
        b = re.sub(r'\s+', ' ', b).strip()
        # optional `let x = p as i32;` bindings
        lets = {}
        while True:
            lm = re.match(r'let (\w+) = (\w+) as (i32|i64);\s*', b)
            if not lm:
                break
            lets[lm.group(1)] = (lm.group(2), lm.group(3))
            b = b[lm.end():]
        im = re.fullmatch(r'self\.inject\(Operator::(\w+)\s*(?:\{(.*)\})?\s*\);\s*self', b)
        if not im:
            die(f'helper {name}: body is not `self.inject(Operator::X {{..}}); self`: {b[:120]}')
        variant, fields = im.group(1), im.group(2)
        assigns = []
        if fields and fields.strip():
            # split on top-level commas
            parts, depth, cur = [], 0, ''
            for ch in fields:
                if ch in '({':
                    depth += 1
                if ch in ')}':
                    depth -= 1
                if ch == ',' and depth == 0:
                    parts.append(cur); cur = ''
                else:
                    cur += ch
            parts.append(cur)
            for part in parts:
                part = part.strip()
                if not part:
                    continue
                if ':' in part:
                    fn, ex = [x.strip() for x in part.split(':', 1)]
                else:
                    fn, ex = part, part
                assigns.append((fn, ex))
        res = []
        pnames = [p for p, _ in ps]
        for fn, ex in assigns:
            def pidx(v):
                if v not in pnames:
                    die(f'helper {name}: field {fn} is fed by `{ex}`, which is not a parameter')
                return pnames.index(v)
            if re.fullmatch(r'\w+', ex):
                if ex in lets:
                    src_p, ty = lets[ex]
                    pt = dict(ps).get(src_p)
                    want = {'i32': 'u32', 'i64': 'u64'}[ty]
                    if pt != want:
                        die(f'helper {name}: `{src_p} as {ty}` on a parameter of type {pt}')
                    res.append((fn, pidx(src_p), 'asI32' if ty == 'i32' else 'asI64'))
                else:
                    res.append((fn, pidx(ex), 'same'))
            elif re.fullmatch(r'\*\w+', ex):
                p = ex[1:]
                if PTY[dict(ps)[p]] != 'id32' if p in dict(ps) else True:
                    die(f'helper {name}: `{ex}` dereferences something that is not an id newtype')
                res.append((fn, pidx(p), 'deref'))
            elif re.fullmatch(r'wasmparser::Ieee32::from\((\w+)\)', ex):
                res.append((fn, pidx(re.fullmatch(r'wasmparser::Ieee32::from\((\w+)\)', ex).group(1)), 'ieee32'))
            elif re.fullmatch(r'wasmparser::Ieee64::from\((\w+)\)', ex):
                res.append((fn, pidx(re.fullmatch(r'wasmparser::Ieee64::from\((\w+)\)', ex).group(1)), 'ieee64'))
            elif re.fullmatch(r'wasmparser::BlockType::from\((\w+)\)', ex):
                res.append((fn, pidx(re.fullmatch(r'wasmparser::BlockType::from\((\w+)\)', ex).group(1)), 'blockTy'))
            elif re.fullmatch(r'wasmparser::HeapType::from\((\w+)\)', ex):
                res.append((fn, pidx(re.fullmatch(r'wasmparser::HeapType::from\((\w+)\)', ex).group(1)), 'heapTy'))
            else:
                die(f'helper {name}: field expression `{ex}` is not one this translator understands')
        # conversions must fit the parameter type
        for fn, pi, cv in res:
            pt = PTY[ps[pi][1]]
            ok = {'same': pt in ('u32', 'i32', 'i64', 'memarg'), 'deref': pt == 'id32', 'ieee32': pt == 'f32', 'ieee64': pt == 'f64',
                  'asI32': pt == 'u32', 'asI64': pt == 'u64', 'blockTy': pt == 'blockTy', 'heapTy': pt == 'heapTy'}[cv]
            if not ok:
                die(f'helper {name}: field {fn}: conversion {cv} applied to a parameter of type {ps[pi][1]}')
        out.append({'name': name, 'params': ps, 'variant': variant, 'assigns': res})
    if len(out) < 150:
        die(f'only {len(out)} helpers recognised in src/opcode.rs')
    return out


def check_ieee():
    """`Ieee32::from(f32)` / `Ieee64::from(f64)` must be the bit pattern (wasmparser source)"""
    p = os.path.join(os.path.dirname(wasmparser_src()), 'readers/core/operators.rs')
    s = re.sub(r'\s+', ' ', open(p).read())
    for w, t, u in (('32', 'f32', 'u32'), ('64', 'f64', 'u64')):
        if f'impl From<{t}> for Ieee{w} {{ fn from(value: {t}) -> Self {{ Ieee{w} {{ 0: {u}::from_le_bytes(value.to_le_bytes()), }} }} }}' not in s:
            die(f'wasmparser Ieee{w}::from({t}) is no longer the plain bit copy this translator assumes')


def main():
    ops = operators()
    opnames = {n for n, _, _ in ops}
    fields = {n: f for n, f, _ in ops}
    hs = parse_helpers()
    check_ieee()
    for h in hs:
        if h['variant'] not in opnames:
            die(f"helper {h['name']}: Operator::{h['variant']} is not an operator of wasmparser 0.235")
    L = ['-- GENERATED by translator/gen_helpers.py on every run of bin/check — do not edit',
         'import Orca.Gen.Ops', 'import Orca.Model.Helpers',
         '/-!', 'The instruction helpers of `Opcode` / `MacroOpcode` (/repo/src/opcode.rs) as data, and the field names of every',
         'wasmparser operator in declaration order.', '-/', 'namespace Orca.Gen', 'open Orca.Helpers', '',
         'inductive Helper where']
    for h in hs:
        L.append(f"  | h_{h['name']}")
    L.append('deriving DecidableEq, Repr')
    L.append('')
    L.append('def Helper.all : List Helper := [' + ', '.join(f".h_{h['name']}" for h in hs) + ']')
    L.append('')
    L.append('def Helper.name : Helper → String')
    for h in hs:
        L.append(f"  | .h_{h['name']} => \"{h['name']}\"")
    L.append('')
    L.append('/-- the `Operator` variant the helper injects -/')
    L.append('def Helper.variant : Helper → Op')
    for h in hs:
        L.append(f"  | .h_{h['name']} => .{h['variant']}")
    L.append('')
    L.append('/-- parameter types, in order -/')
    L.append('def Helper.params : Helper → List PTy')
    for h in hs:
        L.append(f"  | .h_{h['name']} => [" + ', '.join('.' + PTY[t] for _, t in h['params']) + ']')
    L.append('')
    L.append('/-- the fields of the injected operator in source order: position of the field in the wasmparser declaration of the operator, index of the parameter feeding it, conversion -/')
    L.append('def Helper.assigns : Helper → List Assign')
    for h in hs:
        fl = [x for x, _ in fields[h['variant']]]
        for f, _, _ in h['assigns']:
            if f not in fl:
                die(f"helper {h['name']}: Operator::{h['variant']} has no field {f}")
        L.append(f"  | .h_{h['name']} => [" + ', '.join(f'⟨{fl.index(f)}, {p}, .{c}⟩' for f, p, c in h['assigns']) + ']' + ('' if not h['assigns'] else '   -- ' + ', '.join(f for f, _, _ in h['assigns'])))
    L.append('')
    L.append('/-- number of immediates (fields) of each wasmparser operator -/')
    L.append('def opArity : Op → Nat')
    for n, f, _ in ops:
        if f:
            L.append(f"  | .{n} => {len(f)}   -- " + ', '.join(x for x, _ in f))
    L.append('  | _ => 0')
    L.append('')
    L.append('end Orca.Gen')
    txt = '\n'.join(L) + '\n'
    p = os.path.join(OUT, 'Helpers.lean')
    if not os.path.exists(p) or open(p).read() != txt:
        open(p, 'w').write(txt)

    # ---- Rust side
    R = ['// GENERATED by translator/gen_helpers.py on every run of bin/check - do not edit',
         '#![allow(unused_variables, clippy::all)]',
         'use crate::fam_helpers::Arg;', 'use wirm::opcode::{MacroOpcode, Opcode};', '',
         'pub const HELPERS: &[(&str, &[&str])] = &[']
    for h in hs:
        R.append(f"    (\"{h['name']}\", &[" + ', '.join(f'"{PTY[t]}:{t}"' for _, t in h['params']) + ']),')
    R.append('];')
    R.append('')
    R.append("pub fn call_helper<'a, T: Opcode<'a> + MacroOpcode<'a>>(t: &mut T, k: usize, a: &[Arg]) {")
    R.append('    match k {')
    conv = {'u32': 'a[{i}].u32()', 'i32': 'a[{i}].u32() as i32', 'i64': 'a[{i}].u64() as i64', 'u64': 'a[{i}].u64()',
            'f32': 'f32::from_bits(a[{i}].u32())', 'f64': 'f64::from_bits(a[{i}].u64())', 'MemArg': 'a[{i}].memarg()',
            'BlockType': 'a[{i}].blockty()', 'HeapType': 'a[{i}].heapty()'}
    for k, h in enumerate(hs):
        args = []
        for i, (_, t) in enumerate(h['params']):
            if PTY[t] == 'id32':
                args.append(f'wirm::ir::id::{t}(a[{i}].u32())')
            else:
                args.append(conv[t].format(i=i))
        R.append(f"        {k} => {{ t.{h['name']}({', '.join(args)}); }}")
    R.append('        _ => panic!("no such helper"),')
    R.append('    }')
    R.append('}')
    rtxt = '\n'.join(R) + '\n'
    rp = os.path.join(ROOT, 'harness', 'src', 'gen_helpers.rs')
    if not os.path.exists(rp) or open(rp).read() != rtxt:
        open(rp, 'w').write(rtxt)
    print(f'translator(helpers): {len(hs)} helpers, {sum(1 for h in hs if h["assigns"])} with immediates')


if __name__ == '__main__':
    main()
