import Orca.Lemmas.Edit

namespace Orca.Edit
open Orca.Reindex

/-- the entity an emitted reference designates in the encoded module -/
def designated (F G M : List Nat) (r : Ref) : Option Nat :=
  match r.sp with
  | .F => F[r.idx]?
  | .G => G[r.idx]?
  | .M => M[r.idx]?

/-- the stored index of `r` designates the live entity `u` (positions are ids before encoding) -/
def PointsTo (s : St) (r : Ref) (u : Nat) : Prop :=
  ∃ item, (s.space r.sp).items[r.idx]? = some item ∧ item.del = false ∧ item.uid = u

/-- the stored index of `r` designates nothing, or an entity marked deleted -/
def Dangling (s : St) (r : Ref) : Prop :=
  ∀ item, (s.space r.sp).items[r.idx]? = some item → item.del = true

/-- every reference stored in the module -/
def allRefs (s : St) : List Ref :=
  s.ginit.flatMap (fun (p : Nat × List Ref) => p.2) ++ s.exports.map (fun (e : Ref × Bool) => e.1) ++ s.elems ++ s.raws
    ++ s.code.flatMap (fun (p : Nat × List Ref) => p.2)
    ++ s.datas.flatMap (fun (d : Ref × List Ref) => d.1 :: d.2) ++ s.start.toList

theorem mapM_some_mem {α β : Type} {f : α → Option β} : ∀ {l : List α} {l' : List β}, l.mapM f = some l' →
    ∀ y ∈ l', ∃ x ∈ l, f x = some y := by
  intro l
  induction l with
  | nil => intro l' h y hy; simp at h; subst h; simp at hy
  | cons a l ih =>
    intro l' h y hy
    simp only [List.mapM_cons] at h
    cases hfa : f a with
    | none => simp [hfa] at h
    | some b =>
      cases hl : l.mapM f with
      | none => simp [hfa, hl] at h
      | some bs =>
        simp [hfa, hl] at h
        subst h
        rcases List.mem_cons.mp hy with rfl | hy'
        · exact ⟨a, by simp, hfa⟩
        · obtain ⟨x, hx, hfx⟩ := ih hl y hy'
          exact ⟨x, by simp [hx], hfx⟩

theorem mapM_none_witness {α β : Type} {f : α → Option β} : ∀ {l : List α}, l.mapM f = none → ∃ x ∈ l, f x = none := by
  intro l
  induction l with
  | nil => intro h; simp at h
  | cons a l ih =>
    intro h
    simp only [List.mapM_cons] at h
    cases hfa : f a with
    | none => exact ⟨a, by simp, hfa⟩
    | some b =>
      cases hl : l.mapM f with
      | none => obtain ⟨x, hx, hfx⟩ := ih hl; exact ⟨x, by simp [hx], hfx⟩
      | some bs => simp [hfa, hl] at h

theorem lookup_subset (tbl : List (Nat × List Ref)) (u : Nat) :
    ∀ r ∈ lookup tbl u, r ∈ tbl.flatMap (fun (p : Nat × List Ref) => p.2) := by
  intro r hr
  unfold lookup at hr
  split at hr
  · rename_i p hp
    exact List.mem_flatMap.mpr ⟨p, List.mem_of_find?_eq_some hp, hr⟩
  · simp at hr

variable {s : St} {fi gi mi : List Item}

/-- the three re-indexed vectors, as the first step of `encode_internal` leaves them -/
structure AllRemapped (s : St) (fi gi mi : List Item) : Prop where
  f : Remapped s.f s.imports .F fi
  g : Remapped s.g s.imports .G gi
  m : Remapped s.m s.imports .M mi

def spaces (s : St) (fi gi mi : List Item) : List Nat × List Nat × List Nat :=
  (outSpace s.imports .F fi, outSpace s.imports .G gi,
    impUids s.imports .M ++ (mi.filter (fun (i : Item) => !i.imp)).map (fun (i : Item) => i.uid))

theorem mapRef_live (h : AllRemapped s fi gi mi) (r : Ref) (u : Nat) (hp : PointsTo s r u) :
    ∃ r', mapRef fi gi mi r = some r' ∧ r'.site = r.site ∧ r'.sp = r.sp
      ∧ designated (spaces s fi gi mi).1 (spaces s fi gi mi).2.1 (spaces s fi gi mi).2.2 r' = some u := by
  obtain ⟨item, hi, hd, hu⟩ := hp
  cases hsp : r.sp with
  | F =>
    rw [hsp] at hi
    obtain ⟨p, hmp, hyp⟩ := h.f.live r.idx item hi hd
    refine ⟨{ r with idx := p }, by simp [mapRef, hsp, hmp], rfl, hsp.symm ▸ rfl, ?_⟩
    simp only [designated, spaces, hsp, h.f.out]
    simp [hyp, hu]
  | G =>
    rw [hsp] at hi
    obtain ⟨p, hmp, hyp⟩ := h.g.live r.idx item hi hd
    refine ⟨{ r with idx := p }, by simp [mapRef, hsp, hmp], rfl, hsp.symm ▸ rfl, ?_⟩
    simp only [designated, spaces, hsp, h.g.out]
    simp [hyp, hu]
  | M =>
    rw [hsp] at hi
    obtain ⟨p, hmp, hyp⟩ := h.m.live r.idx item hi hd
    refine ⟨{ r with idx := p }, by simp [mapRef, hsp, hmp], rfl, hsp.symm ▸ rfl, ?_⟩
    have : impUids s.imports .M ++ (mi.filter (fun (i : Item) => !i.imp)).map (fun (i : Item) => i.uid) = mi.map (·.uid) := by
      rw [h.m.outMem]; exact h.m.out
    simp only [designated, spaces, hsp, this]
    simp [hyp, hu]

theorem mapRef_dangling (h : AllRemapped s fi gi mi) (r : Ref) (hd : Dangling s r) : mapRef fi gi mi r = none := by
  cases hsp : r.sp with
  | F => have := h.f.dead r.idx (by have := hd; unfold Dangling at this; rw [hsp] at this; exact this); simp [mapRef, hsp, this]
  | G => have := h.g.dead r.idx (by have := hd; unfold Dangling at this; rw [hsp] at this; exact this); simp [mapRef, hsp, this]
  | M => have := h.m.dead r.idx (by have := hd; unfold Dangling at this; rw [hsp] at this; exact this); simp [mapRef, hsp, this]

theorem pointsTo_or_dangling (s : St) (r : Ref) : (∃ u, PointsTo s r u) ∨ Dangling s r := by
  cases hx : (s.space r.sp).items[r.idx]? with
  | none => right; intro item h; rw [hx] at h; cases h
  | some item =>
    cases hdel : item.del with
    | false => left; exact ⟨item.uid, item, hx, hdel, rfl⟩
    | true => right; intro it h; rw [hx] at h; cases h; exact hdel

/-- a successfully mapped reference designates the live entity its stored index designated -/
theorem mapRef_some (h : AllRemapped s fi gi mi) (r r' : Ref) (hm : mapRef fi gi mi r = some r') :
    r'.site = r.site ∧ r'.sp = r.sp ∧ ∃ u, PointsTo s r u
      ∧ designated (spaces s fi gi mi).1 (spaces s fi gi mi).2.1 (spaces s fi gi mi).2.2 r' = some u := by
  rcases pointsTo_or_dangling s r with ⟨u, hp⟩ | hd
  · obtain ⟨r'', h1, h2, h3, h4⟩ := mapRef_live h r u hp
    rw [hm] at h1; cases h1
    exact ⟨h2, h3, u, hp, h4⟩
  · rw [mapRef_dangling h r hd] at hm; cases hm

end Orca.Edit

namespace Orca.Edit
open Orca.Reindex

theorem mapM_some_of_forall {α β : Type} {f : α → Option β} : ∀ {l : List α}, (∀ x ∈ l, ∃ y, f x = some y) →
    ∃ l', l.mapM f = some l' := by
  intro l
  induction l with
  | nil => intro _; exact ⟨[], by simp⟩
  | cons a l ih =>
    intro h
    obtain ⟨b, hb⟩ := h a (by simp)
    obtain ⟨bs, hbs⟩ := ih (fun x hx => h x (by simp [hx]))
    exact ⟨b :: bs, by simp [List.mapM_cons, hb, hbs]⟩

variable {s : St} {fi gi mi : List Item}

/-- what a successfully rewritten reference list satisfies -/
def Good (s : St) (fi gi mi : List Item) (src : List Ref) (r' : Ref) : Prop :=
  ∃ r ∈ src, r'.site = r.site ∧ r'.sp = r.sp ∧ ∃ u, PointsTo s r u
    ∧ designated (spaces s fi gi mi).1 (spaces s fi gi mi).2.1 (spaces s fi gi mi).2.2 r' = some u

theorem mapRefs_good (h : AllRemapped s fi gi mi) {rs rs' : List Ref} (hm : mapRefs fi gi mi rs = some rs') :
    ∀ r' ∈ rs', Good s fi gi mi rs r' := by
  intro r' hr'
  obtain ⟨r, hr, hmr⟩ := mapM_some_mem hm r' hr'
  obtain ⟨a, b, u, c, d⟩ := mapRef_some h r r' hmr
  exact ⟨r, hr, a, b, u, c, d⟩

theorem good_mono {src src' : List Ref} (hsub : ∀ r ∈ src, r ∈ src') {r' : Ref} (h : Good s fi gi mi src r') :
    Good s fi gi mi src' r' := by
  obtain ⟨r, hr, rest⟩ := h
  exact ⟨r, hsub r hr, rest⟩

theorem fixOwned_good (h : AllRemapped s fi gi mi) {tbl : List (Nat × List Ref)} {owners : List Nat}
    {out : List (Nat × List Ref)} (hm : fixOwned fi gi mi tbl owners = some out) :
    ∀ r' ∈ out.flatMap (fun (p : Nat × List Ref) => p.2), Good s fi gi mi (tbl.flatMap (fun (p : Nat × List Ref) => p.2)) r' := by
  intro r' hr'
  obtain ⟨p, hp, hrp⟩ := List.mem_flatMap.mp hr'
  obtain ⟨u, _, hu⟩ := mapM_some_mem hm p hp
  cases hmr : mapRefs fi gi mi (lookup tbl u) with
  | none => simp [hmr] at hu
  | some rs =>
    simp only [hmr, Option.map_some, Option.some.injEq] at hu
    subst hu
    exact good_mono (lookup_subset tbl u) (mapRefs_good h hmr r' hrp)

theorem fixAll_good (h : AllRemapped s fi gi mi) {x : Fixed} (hx : fixAll fi gi mi s = some x) :
    ∀ r' ∈ x.resolved, Good s fi gi mi (allRefs s) r' := by
  unfold fixAll at hx
  cases h1 : fixOwned fi gi mi s.ginit (emittedLocals gi) with
  | none => simp [h1] at hx
  | some ginit' =>
  cases h2 : ((s.exports.filter (fun (e : Ref × Bool) => !e.2)).map (fun (e : Ref × Bool) => e.1)).mapM (mapExport fi gi mi) with
  | none => simp [h1, h2] at hx
  | some exps =>
  cases h3 : mapRefs fi gi mi s.elems with
  | none => simp [h1, h2, h3] at hx
  | some elems =>
  cases h4 : mapRefs fi gi mi s.raws with
  | none => simp [h1, h2, h3, h4] at hx
  | some raws =>
  cases h5 : fixOwned fi gi mi s.code (emittedLocals fi) with
  | none => simp [h1, h2, h3, h4, h5] at hx
  | some code' =>
  cases h6 : s.datas.mapM (fixData fi gi mi) with
  | none => simp [h1, h2, h3, h4, h5, h6] at hx
  | some ds =>
  simp only [h1, h2, h3, h4, h5, h6, Option.bind_some, Option.some.injEq] at hx
  subst hx
  intro r' hr'
  simp only [Fixed.resolved, List.mem_append] at hr'
  rcases hr' with ((((hr' | hr') | hr') | hr') | hr') | hr'
  · exact good_mono (by intro r hr; simp [allRefs, hr]) (fixOwned_good h h1 r' hr')
  · have hg : ∀ r' ∈ exps, Good s fi gi mi ((s.exports.filter (fun (e : Ref × Bool) => !e.2)).map (fun (e : Ref × Bool) => e.1)) r' :=
      mapRefs_good h (by
        have he : mapExport fi gi mi = mapRef fi gi mi := by funext r; rfl
        rw [he] at h2; exact h2)
    refine good_mono ?_ (hg r' hr')
    intro r hr
    obtain ⟨e, he, rfl⟩ := List.mem_map.mp hr
    have : e.1 ∈ s.exports.map (fun (e : Ref × Bool) => e.1) := List.mem_map_of_mem (List.mem_filter.mp he).1
    simp [allRefs, this]
  · exact good_mono (by intro r hr; simp [allRefs, hr]) (mapRefs_good h h3 r' hr')
  · exact good_mono (by intro r hr; simp [allRefs, hr]) (mapRefs_good h h4 r' hr')
  · exact good_mono (by intro r hr; simp [allRefs, hr]) (fixOwned_good h h5 r' hr')
  · obtain ⟨d, hd, hrd⟩ := List.mem_flatMap.mp hr'
    obtain ⟨d0, hd0, hfd⟩ := mapM_some_mem h6 d hd
    unfold fixData at hfd
    cases ha : mapRefs fi gi mi d0.2 with
    | none => simp [ha] at hfd
    | some off =>
      cases hb : mapRef fi gi mi d0.1 with
      | none => simp [ha, hb] at hfd
      | some mem =>
        simp only [ha, hb, Option.some.injEq] at hfd
        subst hfd
        have hsub : ∀ r ∈ d0.1 :: d0.2, r ∈ allRefs s := by
          intro r hr
          have : r ∈ s.datas.flatMap (fun (d : Ref × List Ref) => d.1 :: d.2) := List.mem_flatMap.mpr ⟨d0, hd0, hr⟩
          simp [allRefs, this]
        simp only [List.mem_cons] at hrd
        rcases hrd with rfl | hrd
        · obtain ⟨a, b, u, c, e⟩ := mapRef_some h d0.1 _ hb
          exact ⟨d0.1, hsub _ (by simp), a, b, u, c, e⟩
        · exact good_mono (fun r hr => hsub r (by simp [hr])) (mapRefs_good h ha r' hrd)

/-- if no stored reference dangles, nothing panics -/
theorem fixAll_some_of_no_dangling (h : AllRemapped s fi gi mi) (hnd : ∀ r ∈ allRefs s, ∃ u, PointsTo s r u) :
    ∃ x, fixAll fi gi mi s = some x := by
  have hmr : ∀ r ∈ allRefs s, ∃ r', mapRef fi gi mi r = some r' := by
    intro r hr
    obtain ⟨u, hu⟩ := hnd r hr
    obtain ⟨r', h1, _⟩ := mapRef_live h r u hu
    exact ⟨r', h1⟩
  have hrefs : ∀ rs : List Ref, (∀ r ∈ rs, r ∈ allRefs s) → ∃ rs', mapRefs fi gi mi rs = some rs' := by
    intro rs hsub
    exact mapM_some_of_forall (fun r hr => hmr r (hsub r hr))
  have howned : ∀ (tbl : List (Nat × List Ref)) (owners : List Nat),
      (∀ r ∈ tbl.flatMap (fun (p : Nat × List Ref) => p.2), r ∈ allRefs s) → ∃ out, fixOwned fi gi mi tbl owners = some out := by
    intro tbl owners hsub
    apply mapM_some_of_forall
    intro u _
    obtain ⟨rs', hrs'⟩ := hrefs (lookup tbl u) (fun r hr => hsub r (lookup_subset tbl u r hr))
    exact ⟨(u, rs'), by simp [hrs']⟩
  obtain ⟨g', hg'⟩ := howned s.ginit (emittedLocals gi) (by intro r hr; simp [allRefs, hr])
  obtain ⟨ex, hex⟩ : ∃ ex, ((s.exports.filter (fun (e : Ref × Bool) => !e.2)).map (fun (e : Ref × Bool) => e.1)).mapM (mapExport fi gi mi) = some ex := by
    apply mapM_some_of_forall
    intro r hr
    obtain ⟨e, he, rfl⟩ := List.mem_map.mp hr
    have : e.1 ∈ s.exports.map (fun (e : Ref × Bool) => e.1) := List.mem_map_of_mem (List.mem_filter.mp he).1
    exact hmr _ (by simp [allRefs, this])
  obtain ⟨el, hel⟩ := hrefs s.elems (by intro r hr; simp [allRefs, hr])
  obtain ⟨rw', hrw⟩ := hrefs s.raws (by intro r hr; simp [allRefs, hr])
  obtain ⟨c', hc'⟩ := howned s.code (emittedLocals fi) (by intro r hr; simp [allRefs, hr])
  obtain ⟨ds, hds⟩ : ∃ ds, s.datas.mapM (fixData fi gi mi) = some ds := by
    apply mapM_some_of_forall
    intro d hd
    have hsub : ∀ r ∈ d.1 :: d.2, r ∈ allRefs s := by
      intro r hr
      have : r ∈ s.datas.flatMap (fun (d : Ref × List Ref) => d.1 :: d.2) := List.mem_flatMap.mpr ⟨d, hd, hr⟩
      simp [allRefs, this]
    obtain ⟨off, hoff⟩ := hrefs d.2 (fun r hr => hsub r (by simp [hr]))
    obtain ⟨mem, hmem⟩ := hmr d.1 (hsub _ (by simp))
    exact ⟨((d.1, off), mem), by simp [fixData, hoff, hmem]⟩
  exact ⟨{ ginit := g', exps := ex, elems := el, raws := rw', code := c', datas := ds },
    by simp only [fixAll, hg', hex, hel, hrw, hc', hds, Option.bind_some]⟩

/-- **Encoding rewrites every reference correctly.** In a state that satisfies the three space invariants,
    `encode` either succeeds — then every emitted reference (and the start function, if one is emitted) designates,
    in the index spaces of the encoded module, the live entity that its stored index designated — or it fails
    loudly, and then some stored reference designated a deleted (or non-existent) entity. -/
theorem encode_spec (s : St) (hf : SpaceInv s.f s.imports .F) (hg : SpaceInv s.g s.imports .G)
    (hm : SpaceInv s.m s.imports .M) :
    (∃ s' F G M res st, encode s = (s', Ret.encoded F G M res st)
        ∧ (∀ r' ∈ res ++ st.toList, ∃ r ∈ allRefs s, r'.site = r.site ∧ r'.sp = r.sp
            ∧ ∃ u, PointsTo s r u ∧ designated F G M r' = some u))
    ∨ (∃ s' why, encode s = (s', Ret.panic why) ∧ ∃ r ∈ allRefs s, Dangling s r) := by
  obtain ⟨fi, hfi, Rf⟩ := remap_spec s.f s.imports .F hf
  obtain ⟨gi, hgi, Rg⟩ := remap_spec s.g s.imports .G hg
  obtain ⟨mi, hmi, Rm⟩ := remap_spec s.m s.imports .M hm
  have R : AllRemapped s fi gi mi := ⟨Rf, Rg, Rm⟩
  unfold encode
  simp only [hfi, hgi, hmi]
  cases hx : fixAll fi gi mi s with
  | none =>
    right
    refine ⟨_, _, rfl, ?_⟩
    -- otherwise every reference points to something live and nothing would have panicked
    by_cases hall : ∀ r ∈ allRefs s, ∃ u, PointsTo s r u
    · obtain ⟨x, hx'⟩ := fixAll_some_of_no_dangling R hall
      rw [hx] at hx'; cases hx'
    · apply Classical.byContradiction
      intro hno
      apply hall
      intro r hr
      rcases pointsTo_or_dangling s r with hp | hd
      · exact hp
      · exact absurd ⟨r, hr, hd⟩ hno
  | some x =>
    left
    refine ⟨_, _, _, _, _, _, rfl, ?_⟩
    intro r' hr'
    rcases List.mem_append.mp hr' with hr' | hr'
    · obtain ⟨r, hr, a, b, u, c, d⟩ := fixAll_good R hx r' hr'
      exact ⟨r, hr, a, b, u, c, by simpa [spaces, outSpace] using d⟩
    · -- the start function
      cases hst : s.start with
      | none => simp [hst] at hr'
      | some r0 =>
        cases hmr : mapRef fi gi mi r0 with
        | none => simp [hst, hmr] at hr'
        | some r1 =>
          simp only [hst, hmr, Option.bind_some, Option.toList_some, List.mem_singleton] at hr'
          obtain ⟨a, b, u, c, d⟩ := mapRef_some R r0 r1 hmr
          rw [hr']
          exact ⟨r0, by simp [allRefs, hst], a, b, u, c, by simpa [spaces, outSpace] using d⟩

end Orca.Edit
