import Orca.Model.HelperEmit
namespace Orca.Helpers

theorem bitsOf_toSigned (w n : Nat) (hw : 0 < w) (h : n < 2 ^ w) : bitsOf w (toSigned w n) = n := by
  unfold bitsOf toSigned
  have hp : 2 ^ w = 2 * 2 ^ (w - 1) := by
    cases w with
    | zero => omega
    | succ k => simp [Nat.pow_succ, Nat.mul_comm]
  split
  · have : ((n : Int) % ((2 ^ w : Nat) : Int)) = (n : Int) := Int.emod_eq_of_lt (by omega) (by omega)
    rw [this]; simp
  · have : (((n : Int) - ((2 ^ w : Nat) : Int)) % ((2 ^ w : Nat) : Int)) = (n : Int) := by
      rw [Int.sub_emod, Int.emod_self, Int.sub_zero, Int.emod_emod_of_dvd _ (Int.dvd_refl _)]
      exact Int.emod_eq_of_lt (by omega) (by omega)
    rw [this]; simp

/-- the signed reading is in range: `-2^(w-1) ≤ v < 2^(w-1)` -/
theorem toSigned_range (w n : Nat) (hw : 0 < w) (h : n < 2 ^ w) :
    -((2 ^ (w - 1) : Nat) : Int) ≤ toSigned w n ∧ toSigned w n < ((2 ^ (w - 1) : Nat) : Int) := by
  unfold toSigned
  have hp : 2 ^ w = 2 * 2 ^ (w - 1) := by
    cases w with
    | zero => omega
    | succ k => simp [Nat.pow_succ, Nat.mul_comm]
  split <;> omega

/-- every conversion the helpers use preserves the bit pattern of its argument -/
theorem fieldBits_fieldVal (c : Conv) (t : PTy) (n : Nat) (hfit : c.fits t = true)
    (hb : t.width ≠ 0 → n < 2 ^ t.width) : fieldBits c t (fieldVal c t n) = n := by
  unfold fieldBits fieldVal
  cases c <;> cases t <;> simp_all [Conv.fits, signedField, PTy.width] <;>
    first
      | exact bitsOf_toSigned 32 n (by decide) (by simpa using hb)
      | exact bitsOf_toSigned 64 n (by decide) (by simpa using hb)

end Orca.Helpers
