import Orca.Lemmas.Encode

namespace Orca.Edit
open Orca.Reindex

/-! ### encoding twice: when no re-indexing is pending the id maps are the identity -/

/-- no operation since parsing (or since the module was built) set a `recalculate_ids` flag -/
def NoReindexPending (s : St) : Prop := s.f.recalc = false ∧ s.g.recalc = false ∧ s.m.recalc = false

theorem remap_id (x : Space) (h : x.recalc = false) : remap x = some x.items := by simp [remap, h]

theorem mapRef_id (s : St) (hf : IdsFresh s.f.items) (hg : IdsFresh s.g.items) (hm : IdsFresh s.m.items)
    (r : Ref) (item : Item) (hp : (s.space r.sp).items[r.idx]? = some item) :
    mapRef s.f.items s.g.items s.m.items r = some r := by
  obtain ⟨site, sp, idx⟩ := r
  cases sp with
  | F => simp only [St.space] at hp; simp [mapRef, mapping_id_of_fresh _ hf idx item hp]
  | G => simp only [St.space] at hp; simp [mapRef, mapping_id_of_fresh _ hg idx item hp]
  | M => simp only [St.space] at hp; simp [mapRef, mapping_id_of_fresh _ hm idx item hp]

theorem mapM_id {α : Type} {f : α → Option α} : ∀ {l : List α}, (∀ x ∈ l, f x = some x) → l.mapM f = some l := by
  intro l
  induction l with
  | nil => intro _; simp
  | cons a l ih =>
    intro h
    simp [List.mapM_cons, h a (by simp), ih (fun x hx => h x (by simp [hx]))]

theorem mapM_congr_some {α β : Type} (l : List α) (f : α → Option β) (g : α → β) (h : ∀ x ∈ l, f x = some (g x)) :
    l.mapM f = some (l.map g) := by
  induction l with
  | nil => simp
  | cons a l ih => simp [List.mapM_cons, h a (by simp), ih (fun x hx => h x (by simp [hx]))]

def InRange (s : St) (r : Ref) : Prop := ∃ item, (s.space r.sp).items[r.idx]? = some item

theorem mapRefs_id (s : St) (hf : IdsFresh s.f.items) (hg : IdsFresh s.g.items) (hm : IdsFresh s.m.items)
    (rs : List Ref) (h : ∀ r ∈ rs, InRange s r) : mapRefs s.f.items s.g.items s.m.items rs = some rs := by
  apply mapM_id
  intro r hr
  obtain ⟨item, hi⟩ := h r hr
  exact mapRef_id s hf hg hm r item hi

def KeysNodup (tbl : List (Nat × List Ref)) : Prop := (tbl.map (fun (p : Nat × List Ref) => p.1)).Nodup

theorem lookup_of_mem (tbl : List (Nat × List Ref)) (hk : KeysNodup tbl) (p : Nat × List Ref) (hp : p ∈ tbl) :
    lookup tbl p.1 = p.2 := by
  induction tbl with
  | nil => simp at hp
  | cons q tbl ih =>
    simp only [KeysNodup, List.map_cons, List.nodup_cons] at hk
    rcases List.mem_cons.mp hp with rfl | hp'
    · simp [lookup]
    · have hne : q.1 ≠ p.1 := by
        intro he; apply hk.1; rw [he]; exact List.mem_map_of_mem hp'
      have := ih hk.2 hp'
      simp only [lookup, List.find?_cons] at this ⊢
      have hb : (q.1 == p.1) = false := by simpa using hne
      simp [hb, this]

theorem updAssoc_same (tbl : List (Nat × List Ref)) (hk : KeysNodup tbl) (u : Nat) :
    updAssoc tbl u (lookup tbl u) = tbl := by
  unfold updAssoc
  conv => rhs; rw [← List.map_id tbl]
  apply List.map_congr_left
  intro p hp
  by_cases h : p.1 = u
  · subst h
    simp [lookup_of_mem tbl hk p hp]
  · have : (p.1 == u) = false := by simpa using h
    simp [this]

theorem storeBack_same (tbl : List (Nat × List Ref)) (hk : KeysNodup tbl) (owners : List Nat) :
    storeBack tbl (owners.map (fun u => (u, lookup tbl u))) = tbl := by
  unfold storeBack
  induction owners with
  | nil => rfl
  | cons u owners ih =>
    simp only [List.map_cons, List.foldl_cons, updAssoc_same tbl hk u]
    exact ih

theorem fixOwned_id (s : St) (hf : IdsFresh s.f.items) (hg : IdsFresh s.g.items) (hm : IdsFresh s.m.items)
    (tbl : List (Nat × List Ref)) (owners : List Nat)
    (h : ∀ r ∈ tbl.flatMap (fun (p : Nat × List Ref) => p.2), InRange s r) :
    fixOwned s.f.items s.g.items s.m.items tbl owners = some (owners.map (fun u => (u, lookup tbl u))) := by
  unfold fixOwned
  induction owners with
  | nil => simp
  | cons u owners ih =>
    have := mapRefs_id s hf hg hm (lookup tbl u) (fun r hr => h r (lookup_subset tbl u r hr))
    simp [List.mapM_cons, this, ih]

/-- **Second encode, no re-indexing pending.** If no `recalculate_ids` flag is set, stored ids are positions, every
    stored reference is in range and owners are unique, then `encode` rewrites nothing: it returns the state it was
    given (so a second `encode` computes exactly the same module). -/
theorem encode_fixpoint (s : St) (hn : NoReindexPending s)
    (hf : IdsFresh s.f.items) (hg : IdsFresh s.g.items) (hm : IdsFresh s.m.items)
    (hr : ∀ r ∈ allRefs s, InRange s r) (hk1 : KeysNodup s.ginit) (hk2 : KeysNodup s.code) :
    (encode s).1 = s := by
  obtain ⟨h1, h2, h3⟩ := hn
  have hsub : ∀ (l : List Ref), (∀ r ∈ l, r ∈ allRefs s) → ∀ r ∈ l, InRange s r := fun l hl r hrl => hr r (hl r hrl)
  have e1 := fixOwned_id s hf hg hm s.ginit (emittedLocals s.g.items) (hsub _ (by intro r hr; simp [allRefs, hr]))
  have e5 := fixOwned_id s hf hg hm s.code (emittedLocals s.f.items) (hsub _ (by intro r hr; simp [allRefs, hr]))
  have e3 := mapRefs_id s hf hg hm s.elems (hsub _ (by intro r hr; simp [allRefs, hr]))
  have e4 := mapRefs_id s hf hg hm s.raws (hsub _ (by intro r hr; simp [allRefs, hr]))
  have e2 : ((s.exports.filter (fun (e : Ref × Bool) => !e.2)).map (fun (e : Ref × Bool) => e.1)).mapM
      (mapExport s.f.items s.g.items s.m.items)
      = some ((s.exports.filter (fun (e : Ref × Bool) => !e.2)).map (fun (e : Ref × Bool) => e.1)) := by
    apply mapM_id
    intro r hr'
    obtain ⟨e, he, rfl⟩ := List.mem_map.mp hr'
    have hmem : e.1 ∈ s.exports.map (fun (e : Ref × Bool) => e.1) := List.mem_map_of_mem (List.mem_filter.mp he).1
    obtain ⟨item, hi⟩ := hr e.1 (by simp [allRefs, hmem])
    exact mapRef_id s hf hg hm e.1 item hi
  have e6 : s.datas.mapM (fixData s.f.items s.g.items s.m.items) = some (s.datas.map (fun d => (d, d.1))) := by
    have : ∀ d ∈ s.datas, fixData s.f.items s.g.items s.m.items d = some (d, d.1) := by
      intro d hd
      have hin : ∀ r ∈ d.1 :: d.2, InRange s r := by
        intro r hr'
        apply hr
        have : r ∈ s.datas.flatMap (fun (d : Ref × List Ref) => d.1 :: d.2) := List.mem_flatMap.mpr ⟨d, hd, hr'⟩
        simp [allRefs, this]
      have a := mapRefs_id s hf hg hm d.2 (fun r hr' => hin r (by simp [hr']))
      obtain ⟨item, hi⟩ := hin d.1 (by simp)
      have b := mapRef_id s hf hg hm d.1 item hi
      simp [fixData, a, b]
    exact mapM_congr_some s.datas _ _ this
  have est : s.start.bind (mapRef s.f.items s.g.items s.m.items) = s.start := by
    cases hst : s.start with
    | none => rfl
    | some r0 =>
      obtain ⟨item, hi⟩ := hr r0 (by simp [allRefs, hst])
      simp [mapRef_id s hf hg hm r0 item hi]
  unfold encode
  simp only [remap_id _ h1, remap_id _ h2, remap_id _ h3, fixAll, e1, e2, e3, e4, e5, e6, Option.bind_some, est,
    storeBack_same _ hk1, storeBack_same _ hk2, List.map_map]
  have : (s.datas.map ((fun (d : (Ref × List Ref) × Ref) => d.1) ∘ fun d => (d, d.1))) = s.datas := by
    simp [Function.comp_def]
  simp [this]

/-- … hence the second encoding is the first one -/
theorem encode_twice_same (s : St) (hn : NoReindexPending s)
    (hf : IdsFresh s.f.items) (hg : IdsFresh s.g.items) (hm : IdsFresh s.m.items)
    (hr : ∀ r ∈ allRefs s, InRange s r) (hk1 : KeysNodup s.ginit) (hk2 : KeysNodup s.code) :
    encode (encode s).1 = encode s := by
  rw [encode_fixpoint s hn hf hg hm hr hk1 hk2]

end Orca.Edit
