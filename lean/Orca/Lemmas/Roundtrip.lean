import Orca.Gen.ValTypes
import Orca.Gen.ConstExpr
/-! facts about the regenerated conversion tables, shared by C01 and C02 -/
namespace Orca.Gen

/-- the value types the IR represents faithfully: numeric and vector types, unshared abstract references of either
    nullability (continuation types only non-nullable), references to a type of the module -/
def represented : VT → Bool
  | .i32 | .i64 | .f32 | .f64 | .v128 => true
  | .ref nullable shared h => !shared && !(nullable && (h == .Cont || h == .NoCont))
  | .refModule _ _ => true
  | .refRecGroup _ _ => false

theorem valtype_roundtrip : ∀ v : VT, represented v = true → (fromVal v).bind toEnc = some v := by
  intro v hv
  cases v with
  | ref n s h => cases n <;> cases s <;> cases h <;> first | rfl | (simp [represented] at hv)
  | refModule n i => rfl
  | refRecGroup n i => simp [represented] at hv
  | _ => rfl

/-- parsing a value type never panics (`UnpackedIndex::Id`, the only panicking arm, cannot come out of a binary) -/
theorem fromVal_total : ∀ v : VT, (fromVal v).isSome = true := by
  intro v
  cases v with
  | ref n s h => cases n <;> cases s <;> cases h <;> rfl
  | _ => rfl

/-- the two conversions IR → wire (to wasm-encoder for emission, to wasmparser for block types, added globals and
    imports) agree on every `DataType` both are defined on, up to the kind of concrete index -/
theorem toParser_agrees : ∀ d : DT, (match d with | .RecGroup _ | .CoreTypeId _ => True | _ => toParser d = toEnc d) := by
  intro d; cases d <;> first | trivial | rfl

/-- which conversion of `eval` is undone by which conversion of `to_wasmencoder_type` -/
def inverse : CConv → CConv → Bool
  | .same, .same | .fromBits32, .ieee32 | .fromBits64, .ieee64 | .leBytes128, .asI128 => true
  | _, _ => false

theorem constexpr_roundtrip :
    evalTable.all (fun r => (encTable r.2.1).1 == r.1 && inverse r.2.2 (encTable r.2.1).2) = true := by decide

end Orca.Gen
