import Orca.Lemmas.StackFull
/-!
Every function the injection API can build — from a function without instrumentation, by any sequence of API calls — is in the scope
of the complete stack machine (`PlainF` on every instruction).
-/
namespace Orca.Lower

def InScope (i : Instr) : Prop := PlainF i

theorem inScope_modify (xs : List Instr) (idx : Nat) (g : Instr → Instr) (h : ∀ x ∈ xs, InScope x) (hg : ∀ x, InScope x → InScope (g x)) :
    ∀ y ∈ modifyAt xs idx g, InScope y := by
  intro y hy
  unfold modifyAt at hy
  cases hx : xs[idx]? with
  | none => simp only [hx] at hy; exact h y hy
  | some x =>
    simp only [hx] at hy
    rcases List.mem_or_eq_of_mem_set hy with h1 | h1
    · exact h y h1
    · subst h1; exact hg x (h x (List.mem_of_getElem? hx))

theorem inScope_set (xs : List Instr) (idx : Nat) (x y : Instr) (hx : xs[idx]? = some x) (h : ∀ x ∈ xs, InScope x) (hy : InScope y) :
    ∀ z ∈ xs.set idx y, InScope z := by
  intro z hz
  rcases List.mem_or_eq_of_mem_set hz with h1 | h1
  · exact h z h1
  · subst h1; exact hy

/-- `add_instr` keeps an instruction in scope (it panics where it would leave it) -/
theorem addInstr_inScope (i i' : Instr) (t : Tok) (sp : Bool) (h : InScope i) (ha : i.addInstr t = some (i', sp)) : InScope i' := by
  obtain ⟨h2, h3, h4⟩ := h
  unfold Instr.addInstr at ha
  cases hm : i.mode with
  | none => simp [hm] at ha
  | some m =>
    cases m with
    | before =>
      simp only [hm, Option.some.injEq, Prod.mk.injEq] at ha
      obtain ⟨rfl, _⟩ := ha
      exact ⟨h2, h3, h4⟩
    | after =>
      simp only [hm, Option.some.injEq, Prod.mk.injEq] at ha
      obtain ⟨rfl, _⟩ := ha
      exact ⟨h2, h3, h4⟩
    | alternate =>
      simp only [hm, Option.some.injEq, Prod.mk.injEq] at ha
      obtain ⟨rfl, _⟩ := ha
      exact ⟨h2, h3, h4⟩
    | semanticAfter =>
      simp only [hm] at ha
      split at ha
      · rename_i hk
        simp only [Option.some.injEq, Prod.mk.injEq] at ha
        obtain ⟨rfl, _⟩ := ha
        refine ⟨h2, h3, fun hb hbr => ?_⟩
        simp only [Bool.or_eq_true] at hk
        rcases hk with hk | hk
        · rw [hb] at hk; cases hk
        · rw [hbr] at hk; cases hk
      · cases ha
    | blockEntry =>
      simp only [hm] at ha
      split at ha
      · rename_i hk
        simp only [Option.some.injEq, Prod.mk.injEq] at ha
        obtain ⟨rfl, _⟩ := ha
        exact ⟨h2, fun hb => (by rw [hb] at hk; cases hk), h4⟩
      · cases ha
    | blockExit =>
      simp only [hm] at ha
      split at ha
      · rename_i hk
        simp only [Option.some.injEq, Prod.mk.injEq] at ha
        obtain ⟨rfl, _⟩ := ha
        exact ⟨h2, fun hb => (by rw [hb] at hk; cases hk), h4⟩
      · cases ha
    | blockAlt =>
      simp only [hm] at ha
      split at ha
      · rename_i hk
        simp only [Option.some.injEq, Prod.mk.injEq] at ha
        obtain ⟨rfl, _⟩ := ha
        exact ⟨fun _ => hk, h3, h4⟩
      · cases ha

/-- **the injection API never leaves the scope of the machine** -/
theorem apply_inScope (f f' : Func) (op : ApiOp) (h : ∀ x ∈ f.body, InScope x) (ha : apply f op = some f') :
    ∀ x ∈ f'.body, InScope x := by
  cases op with
  | setMode idx m =>
    simp only [apply] at ha
    cases hx : f.body[idx]? with
    | none => simp [hx] at ha
    | some x =>
      simp only [hx, Option.some.injEq] at ha
      subst ha
      exact inScope_modify _ _ _ h (fun x hx => ⟨hx.altOnly, hx.only, hx.semOnly⟩)
  | setFMode m => simp only [apply, Option.some.injEq] at ha; subst ha; exact h
  | finishFunc => simp only [apply, Option.some.injEq] at ha; subst ha; exact h
  | inject idx t =>
    simp only [apply] at ha
    cases hfm : f.fmode with
    | some fm =>
      cases fm <;> (simp only [hfm, Option.some.injEq] at ha; subst ha; exact h)
    | none =>
      simp only [hfm] at ha
      cases hx : f.body[idx]? with
      | none => simp [hx] at ha
      | some x =>
        simp only [hx] at ha
        cases hai : x.addInstr t with
        | none => simp [hai] at ha
        | some r =>
          obtain ⟨i', sp⟩ := r
          simp only [hai, Option.some.injEq] at ha
          subst ha
          exact inScope_set _ _ x i' hx h (addInstr_inScope x i' t sp (h x (List.mem_of_getElem? hx)) hai)
  | injectAtRaw idx m t =>
    simp only [apply] at ha
    cases hx : f.body[idx]? with
    | none => simp [hx] at ha
    | some x =>
      simp only [hx] at ha
      cases hai : ({ x with mode := some m } : Instr).addInstr t with
      | none => simp [hai] at ha
      | some r =>
        obtain ⟨i', sp⟩ := r
        simp only [hai, Option.some.injEq] at ha
        subst ha
        have hxs := h x (List.mem_of_getElem? hx)
        have hx' : InScope ({ x with mode := some m } : Instr) := ⟨hxs.altOnly, hxs.only, hxs.semOnly⟩
        exact inScope_set _ _ x i' hx h (addInstr_inScope _ i' t sp hx' hai)
  | addInstrAt idx t =>
    simp only [apply] at ha
    cases hx : f.body[idx]? with
    | none => simp [hx] at ha
    | some x =>
      simp only [hx] at ha
      cases hai : x.addInstr t with
      | none => simp [hai] at ha
      | some r =>
        obtain ⟨i', sp⟩ := r
        simp only [hai, Option.some.injEq] at ha
        subst ha
        exact inScope_set _ _ x i' hx h (addInstr_inScope x i' t sp (h x (List.mem_of_getElem? hx)) hai)
  | emptyAlt idx =>
    simp only [apply] at ha
    cases hx : f.body[idx]? with
    | none => simp [hx] at ha
    | some x =>
      simp only [hx, Option.some.injEq] at ha
      subst ha
      exact inScope_modify _ _ _ h (fun x hx => ⟨hx.altOnly, hx.only, hx.semOnly⟩)
  | clear idx m =>
    simp only [apply] at ha
    cases hx : f.body[idx]? with
    | none => simp [hx] at ha
    | some x =>
      simp only [hx, Option.some.injEq] at ha
      subst ha
      refine inScope_modify _ _ _ h (fun x hx => ?_)
      obtain ⟨h2, h3, h4⟩ := hx
      cases m
      · exact ⟨h2, h3, h4⟩
      · exact ⟨h2, h3, h4⟩
      · exact ⟨h2, h3, h4⟩
      · exact ⟨h2, h3, fun _ _ => rfl⟩
      · exact ⟨h2, fun hb => ⟨rfl, (h3 hb).2⟩, h4⟩
      · exact ⟨h2, fun hb => ⟨(h3 hb).1, rfl⟩, h4⟩
      · exact ⟨fun hh => by simp at hh, h3, h4⟩
  | emptyBlockAlt idx =>
    simp only [apply] at ha
    cases hx : f.body[idx]? with
    | none => simp [hx] at ha
    | some x =>
      simp only [hx] at ha
      split at ha
      · rename_i hk
        simp only [Option.some.injEq] at ha
        subst ha
        intro y hy
        unfold modifyAt at hy
        simp only [hx] at hy
        rcases List.mem_or_eq_of_mem_set hy with h1 | h1
        · exact h y h1
        · subst h1
          obtain ⟨_, h3, h4⟩ := h x (List.mem_of_getElem? hx)
          exact ⟨fun _ => hk, h3, h4⟩
      · cases ha

theorem applyAll_inScope : ∀ (ops : List ApiOp) (f f' : Func), (∀ x ∈ f.body, InScope x) →
    applyAll f ops = some f' → ∀ x ∈ f'.body, InScope x := by
  intro ops
  induction ops with
  | nil => intro f f' h ha; simp only [applyAll, Option.some.injEq] at ha; subst ha; exact h
  | cons op ops ih =>
    intro f f' h ha
    simp only [applyAll] at ha
    cases h1 : apply f op with
    | none => simp [h1] at ha
    | some f1 =>
      simp only [h1, Option.bind_some] at ha
      exact ih f1 f' (apply_inScope f f1 op h h1) ha

/-- a function as parsed: no special instrumentation on any instruction -/
def Pristine (i : Instr) : Prop :=
  i.semAfter = [] ∧ i.blockEntry = [] ∧ i.blockExit = [] ∧ i.blockAlt = none

theorem Pristine.inScope {i : Instr} (h : Pristine i) : InScope i := by
  obtain ⟨h3, h4, h5, h6⟩ := h
  exact ⟨by simp [h6], fun _ => ⟨h4, h5⟩, fun _ _ => h3⟩

/-- **From the API to the machine.** Take any parsed function, apply **any** sequence of injection-API calls, and encode: if the API
    marked the function as carrying special instrumentation, the encoded body is exactly what the complete stack machine computes
    from the resulting plan. -/
theorem api_plan_lowers_as_machine (f0 f : Func) (ops : List ApiOp) (h0 : ∀ x ∈ f0.body, Pristine x)
    (ha : applyAll f0 ops = some f) (hsp : f.hasSpecial = true) (out : List Tok) (nlf : Nat)
    (hs : specRunF (f.body.length - 1) (entryToks f) f.exit 0 [{}] none f.nlocals f.body = some (out, nlf)) :
    lower f = (out, f.added + (nlf - f.nlocals)) :=
  lower_eq_specF f hsp (fun x hx => applyAll_inScope ops f0 f (fun y hy => (h0 y hy).inScope) ha x hx) out nlf hs

end Orca.Lower
