import Orca.Lemmas.StackSpec
/-!
The stack machine of Lemmas/StackSpec.lean extended by **block alternates**: while a construct is being removed (`deleteBlock`), every
instruction is emptied (its special lists are discarded, its `before` / `after` lists stay, as in the code) until the matching `end`;
an alternate on an `else` removes the arm and keeps the `end`. Scope as before — `before` / `after` anywhere, block-entry / block-exit /
semantic-after on constructs — plus any number of block alternates (one region at a time is removed; alternates inside a removed region
are discarded with it).
-/
namespace Orca.Lower

/-- the construct being removed: its block id and whether its `end` stays (alternate on an `else`) -/
structure Del where
  d : Nat
  retain : Bool
deriving Repr, DecidableEq

structure PlainA (i : Instr) : Prop where
  altOnly : i.blockAlt.isSome = true → i.kind.isBlockStyle = true
  only : i.kind.isBlockStyle = false → i.semAfter = [] ∧ i.blockEntry = [] ∧ i.blockExit = []

/-- the alternate of an opener that carries a block alternate: an empty replacement empties it, a non-empty one is appended to what an
    instruction-level alternate had put there -/
def altOf (i : Instr) (alt : List Tok) : List Tok := if alt.isEmpty then [] else i.alt.getD [] ++ alt

theorem altOf_none (i : Instr) (alt : List Tok) (h : i.alt = none) : altOf i alt = alt := by
  unfold altOf
  cases he : alt.isEmpty with
  | true => simp [List.isEmpty_iff.mp he]
  | false => simp [h]

/-- one instruction: frames, removal state, the code that goes in front of the token (behind the instruction's own `before` list), what
    stands in place of the token (`none`: the token itself), the code that goes behind it (behind the instruction's own `after` list) -/
def specStepA (fr : List Fr) (del : Option Del) (i : Instr) :
    Option (List Fr × Option Del × List Tok × Option (List Tok) × List Tok) :=
  match i.kind with
  | .block | .loop | .if_ =>
    match del with
    | some _ => some ({} :: fr, del, [], some [], [])
    | none =>
      match i.blockAlt with
      | some alt => some ({} :: fr, some ⟨fr.length, false⟩, [], some (altOf i alt), [])
      | none =>
        let f : Fr := if i.kind = .if_ then { ifExit := i.blockExit, afterA := i.semAfter } else { exitB := i.blockExit, afterA := i.semAfter }
        some (f :: fr, none, [], i.alt, i.blockEntry)
  | .else_ =>
    match fr with
    | top :: below :: rest =>
      match del with
      | some _ => some ({ top with ifExit := [] } :: below :: rest, del, top.ifExit, some [], [])
      | none =>
        match i.blockAlt with
        | some alt =>
          some ({ top with ifExit := [] } :: below :: rest, some ⟨rest.length + 1, true⟩, top.ifExit, some (altOf i alt), [])
        | none =>
          some ({ top with ifExit := [], exitB := top.exitB ++ i.blockExit, afterA := top.afterA ++ i.semAfter } :: below :: rest, none,
            top.ifExit, i.alt, i.blockEntry)
    | _ => none
  | .end_ =>
    match fr with
    | top :: rest =>
      match del with
      | some ⟨d, retain⟩ =>
        if d = rest.length then
          if retain then some (rest, none, top.ifExit ++ top.exitB, i.alt, endAfter top)
          else some (rest, none, [], some [], [])
        else some (rest, del, [], some [], [])
      | none => some (rest, none, top.ifExit ++ top.exitB, i.alt, endAfter top)
    | [] => none
  | _ =>
    match del with
    | some _ => some (fr, del, [], some [], [])
    | none => some (fr, none, [], i.alt, [])

def specRunA (last : Nat) : Nat → List Fr → Option Del → List Instr → Option (List Tok)
  | _, fr, _, [] => if fr.isEmpty then some [] else none
  | idx, fr, del, i :: is =>
    match specStepA fr del i with
    | none => none
    | some (fr', del', b, alt, a) =>
      if fr'.isEmpty && !is.isEmpty then none
      else
        match specRunA last (idx + 1) fr' del' is with
        | none => none
        | some rest =>
          some (i.before ++ b ++ (if idx ≥ last then [i.tok] else alt.getD [i.tok]) ++ (if idx ≥ last then [] else i.after ++ a) ++ rest)

/-- tables and stack agree with the frames (everything of `Tied` except "nothing is being removed") -/
structure Tabs (s : RState) (fr : List Fr) : Prop where
  stack : s.stack = List.range fr.length
  f1 : ∀ k, (getInj s.onElseOrEnd k).flagged = []
  f2 : ∀ k, (getInj s.onEndBefore k).flagged = []
  t1 : ∀ k, flat (getInj s.onElseOrEnd k) = (frAt fr k).ifExit
  t2 : ∀ k, flat (getInj s.onEndBefore k) = (frAt fr k).exitB
  t3 : ∀ k, flat (getInj s.onEndAfter k) = (frAt fr k).afterA
  t3f : ∀ k, (getInj s.onEndAfter k).flagged = (frAt fr k).afterFl

theorem Tied.tabs {s : RState} {fr : List Fr} (h : Tied s fr) : Tabs s fr :=
  ⟨h.stack, h.f1, h.f2, h.t1, h.t2, h.t3, h.t3f⟩

theorem Tabs.tied {s : RState} {fr : List Fr} (h : Tabs s fr) (hd : s.deleteBlock = none) : Tied s fr :=
  ⟨hd, h.stack, h.f1, h.f2, h.t1, h.t2, h.t3, h.t3f⟩

/-- the resolver's state agrees with frames and removal state -/
structure TiedA (s : RState) (fr : List Fr) (del : Option Del) : Prop where
  tabs : Tabs s fr
  hdel : s.deleteBlock = del.map (·.d)
  inv : ∀ dl : Del, del = some dl → s.retainEnd = dl.retain ∧ dl.d < fr.length ∧ (∀ k, dl.d < k → frAt fr k = {})
    ∧ (dl.retain = false → frAt fr dl.d = {})

/-- the current instruction after the step: `before` and `after` extended, the alternate set -/
def ChgA (c c' : Instr) (B : List Tok) (alt : Option (List Tok)) (A : List Tok) : Prop :=
  c'.before = c.before ++ B ∧ c'.after = c.after ++ A ∧ c'.alt = alt ∧ c'.tok = c.tok

theorem Chg.chgA {c c' : Instr} {B A : List Tok} {x : Option (List Tok)} (h : Chg c c' B A) (hc : c.alt = x) : ChgA c c' B x A :=
  ⟨h.1, h.2.1, h.2.2.1.trans hc, h.2.2.2⟩

/-- an emptied instruction: alternate `[]`, special lists gone, the rest kept -/
theorem mark_chg (x : Instr) : (mark x).before = x.before ∧ (mark x).after = x.after ∧ (mark x).alt = some [] ∧ (mark x).tok = x.tok := by
  simp [mark]

theorem mark_chgA (x : Instr) : ChgA x (mark x) [] (some []) [] := by
  simp [ChgA, mark]

theorem Tabs.push_empty {s : RState} {fr : List Fr} (h : Tabs s fr) (s' : RState)
    (h3 : s'.stack = s.stack ++ [s.stack.length]) (h4 : s'.onElseOrEnd = s.onElseOrEnd) (h5 : s'.onEndBefore = s.onEndBefore)
    (h6 : s'.onEndAfter = s.onEndAfter) : Tabs s' ({} :: fr) := by
  have hk : ∀ k, frAt (({} : Fr) :: fr) k = frAt fr k := by
    intro k; rw [frAt_push]
    by_cases hk' : k = fr.length
    · subst hk'; rw [frAt_ge fr _ (Nat.le_refl _)]; simp
    · simp [hk']
  refine ⟨?_, ?_, ?_, ?_, ?_, ?_, ?_⟩
  · rw [h3, h.stack]; simpa using range_push fr.length
  · rw [h4]; exact h.f1
  · rw [h5]; exact h.f2
  · intro k; rw [h4, hk]; exact h.t1 k
  · intro k; rw [h5, hk]; exact h.t2 k
  · intro k; rw [h6, hk]; exact h.t3 k
  · intro k; rw [h6, hk]; exact h.t3f k

/-- an instruction inside a removed region that neither opens nor closes: emptied -/
theorem rcoreA_removed_other (s : RState) (fr : List Fr) (dl : Del) (done rest : List Instr) (c ins : Instr)
    (ht : TiedA s fr (some dl)) (hb : s.body = done ++ c :: rest)
    (hk : ins.kind ≠ .block ∧ ins.kind ≠ .loop ∧ ins.kind ≠ .if_ ∧ ins.kind ≠ .else_ ∧ ins.kind ≠ .end_) :
    let s' := rcore s done.length ins
    TiedA s' fr (some dl) ∧ Keep s s' ∧ s'.body = done ++ mark c :: rest := by
  have hd : s.deleteBlock = some dl.d := ht.hdel
  have hred : rcore s done.length ins = { s with body := discardSpecial (setEmptyAlt s.body done.length) done.length } := by
    cases hkk : ins.kind <;> simp_all [rcore]
  rw [hred]
  refine ⟨⟨⟨ht.tabs.stack, ht.tabs.f1, ht.tabs.f2, ht.tabs.t1, ht.tabs.t2, ht.tabs.t3, ht.tabs.t3f⟩, ht.hdel, ht.inv⟩,
    ⟨rfl, rfl, rfl, rfl⟩, ?_⟩
  show discardSpecial (setEmptyAlt s.body done.length) done.length = _
  rw [hb, mark_at]

/-- an opener inside a removed region: emptied, an empty frame is pushed -/
theorem rcoreA_removed_open (s : RState) (fr : List Fr) (dl : Del) (done rest : List Instr) (c ins : Instr)
    (ht : TiedA s fr (some dl)) (hb : s.body = done ++ c :: rest) (hk : ins.kind = .block ∨ ins.kind = .loop ∨ ins.kind = .if_) :
    let s' := rcore s done.length ins
    TiedA s' ({} :: fr) (some dl) ∧ Keep s s' ∧ s'.body = done ++ mark c :: rest := by
  have hd : s.deleteBlock = some dl.d := ht.hdel
  have hred : rcore s done.length ins
      = { s with stack := s.stack ++ [s.stack.length], body := discardSpecial (setEmptyAlt s.body done.length) done.length } := by
    rcases hk with h | h | h <;> cases hba : ins.blockAlt <;>
      simp [rcore, h, hba, hd]
  rw [hred]
  obtain ⟨i1, i2, i3, i4⟩ := ht.inv dl rfl
  refine ⟨⟨ht.tabs.push_empty _ rfl rfl rfl rfl, ht.hdel, ?_⟩, ⟨rfl, rfl, rfl, rfl⟩, ?_⟩
  · intro dl' hdl'
    cases hdl'
    refine ⟨i1, by simp only [List.length_cons]; omega, ?_, ?_⟩
    · intro k hk'
      rw [frAt_push]
      by_cases hkk : k = fr.length
      · simp [hkk]
      · simp only [hkk, if_false]; exact i3 k hk'
    · intro hr
      rw [frAt_push]
      have : dl.d ≠ fr.length := by omega
      simp only [this, if_false]; exact i4 hr
  · show discardSpecial (setEmptyAlt s.body done.length) done.length = _
    rw [hb, mark_at]

/-- the tables after the pending if-exit entry of the top frame has been flushed -/
theorem Tabs.flushed_top {s s' : RState} {top : Fr} {rfr : List Fr} (h : Tabs s (top :: rfr))
    (q0 : getInj s'.onElseOrEnd rfr.length = {}) (q1 : ∀ j, j ≠ rfr.length → getInj s'.onElseOrEnd j = getInj s.onElseOrEnd j)
    (h3 : s'.stack = s.stack) (h5 : s'.onEndBefore = s.onEndBefore)
    (h6 : s'.onEndAfter = s.onEndAfter) : Tabs s' ({ top with ifExit := [] } :: rfr) := by
  refine ⟨by rw [h3, h.stack]; simp, ?_, by rw [h5]; exact h.f2, ?_, ?_, ?_, ?_⟩
  · intro k
    by_cases hk : k = rfr.length
    · subst hk; rw [q0]
    · rw [q1 k hk]; exact h.f1 k
  · intro k
    rw [frAt_push]
    by_cases hk : k = rfr.length
    · subst hk; rw [q0]; simp [flat]
    · rw [q1 k hk, h.t1, frAt_push]; simp [hk]
  · intro k; rw [h5, h.t2, frAt_push, frAt_push]; by_cases hk : k = rfr.length <;> simp [hk]
  · intro k; rw [h6, h.t3, frAt_push, frAt_push]; by_cases hk : k = rfr.length <;> simp [hk]
  · intro k; rw [h6, h.t3f, frAt_push, frAt_push]; by_cases hk : k = rfr.length <;> simp [hk]

/-- an `else` inside a removed region: what its `if` left pending goes in front (nothing, inside a region), then it is emptied -/
theorem rcoreA_removed_else (s : RState) (top : Fr) (rfr : List Fr) (dl : Del) (done rest : List Instr) (c ins : Instr)
    (ht : TiedA s (top :: rfr) (some dl)) (hb : s.body = done ++ c :: rest) (hk : ins.kind = .else_) :
    let s' := rcore s done.length ins
    TiedA s' ({ top with ifExit := [] } :: rfr) (some dl) ∧ Keep s s'
      ∧ ∃ c', s'.body = done ++ c' :: rest ∧ ChgA c c' top.ifExit (some []) [] := by
  have hd : s.deleteBlock = some dl.d := ht.hdel
  have htop : Lower.top s.stack = rfr.length := by rw [ht.tabs.stack]; simp only [List.length_cons]; exact top_range_succ _
  have hred : rcore s done.length ins
      = { flushE s done.length rfr.length with
          body := discardSpecial (setEmptyAlt (flushE s done.length rfr.length).body done.length) done.length } := by
    cases ha : s.onElseOrEnd.any (fun x => x.fst == rfr.length) <;> cases hba : ins.blockAlt <;>
      simp [rcore, flushE, ha, hba, hk, hd, htop]
  rw [hred]
  obtain ⟨⟨c1, hb1, hc1⟩, q0, q1, q2, q3, q4, q5, q6, q7, q8, q9, q10⟩ := flushE_spec s done rest c rfr.length hb ht.tabs.f1
  obtain ⟨i1, i2, i3, i4⟩ := ht.inv dl rfl
  have e1 : flat (getInj s.onElseOrEnd rfr.length) = top.ifExit := by rw [ht.tabs.t1, frAt_top]
  have hfr : ∀ k, frAt ({ top with ifExit := [] } :: rfr) k = if k = rfr.length then { top with ifExit := [] } else frAt (top :: rfr) k := by
    intro k; rw [frAt_push, frAt_push]; by_cases hk' : k = rfr.length <;> simp [hk']
  refine ⟨⟨ht.tabs.flushed_top q0 q1 q2 q8 q9, by show (flushE s done.length rfr.length).deleteBlock = _; rw [q3]; exact ht.hdel, ?_⟩,
    ⟨q6, q7, q4, q5⟩, mark c1, ?_, ?_, ?_, ?_, ?_⟩
  · intro dl' hdl'
    cases hdl'
    refine ⟨by show (flushE s done.length rfr.length).retainEnd = _; rw [q10]; exact i1, by simpa using i2, ?_, ?_⟩
    · intro k hk'
      rw [hfr]
      by_cases hkk : k = rfr.length
      · subst hkk; have := i3 _ hk'; rw [frAt_top] at this; simp [this]
      · simp only [hkk, if_false]; exact i3 k hk'
    · intro hr
      rw [hfr]
      by_cases hkk : dl.d = rfr.length
      · have := i4 hr; rw [hkk, frAt_top] at this; simp [hkk, this]
      · simp only [hkk, if_false]; exact i4 hr
  · show discardSpecial (setEmptyAlt (flushE s done.length rfr.length).body done.length) done.length = _
    rw [hb1, mark_at]
  · rw [(mark_chg c1).1, hc1.1, e1]
  · rw [(mark_chg c1).2.1, hc1.2.1]
  · exact (mark_chg c1).2.2.1
  · rw [(mark_chg c1).2.2.2, hc1.2.2.2]

/-- tables after popping a frame that holds nothing -/
theorem Tabs.pop_empty {s s' : RState} {top : Fr} {rfr : List Fr} (h : Tabs s (top :: rfr)) (he : top = {})
    (h3 : s'.stack = List.range rfr.length) (h4 : s'.onElseOrEnd = s.onElseOrEnd)
    (h5 : s'.onEndBefore = s.onEndBefore) (h6 : s'.onEndAfter = s.onEndAfter) : Tabs s' rfr := by
  have hk : ∀ k, frAt (top :: rfr) k = frAt rfr k := by
    intro k; rw [frAt_push]
    by_cases hk' : k = rfr.length
    · subst hk'; rw [frAt_ge rfr _ (Nat.le_refl _), he]; simp
    · simp [hk']
  refine ⟨h3, by rw [h4]; exact h.f1, by rw [h5]; exact h.f2, ?_, ?_, ?_, ?_⟩
  · intro k; rw [h4, h.t1, hk]
  · intro k; rw [h5, h.t2, hk]
  · intro k; rw [h6, h.t3, hk]
  · intro k; rw [h6, h.t3f, hk]

/-- an `end` inside a removed region, or the `end` of the removed construct itself: emptied -/
theorem rcoreA_removed_end (s : RState) (top : Fr) (rfr : List Fr) (dl : Del) (done rest : List Instr) (c ins : Instr)
    (ht : TiedA s (top :: rfr) (some dl)) (hb : s.body = done ++ c :: rest) (hk : ins.kind = .end_)
    (hcase : dl.d ≠ rfr.length ∨ dl.retain = false) :
    let s' := rcore s done.length ins
    TiedA s' rfr (if dl.d = rfr.length then none else some dl) ∧ Keep s s' ∧ s'.body = done ++ mark c :: rest := by
  have hd : s.deleteBlock = some dl.d := ht.hdel
  obtain ⟨i1, i2, i3, i4⟩ := ht.inv dl rfl
  have hst : s.stack = List.range (rfr.length + 1) := by rw [ht.tabs.stack]; rfl
  by_cases hdd : dl.d = rfr.length
  · -- the `end` of the removed construct (not retained)
    have hr : dl.retain = false := by rcases hcase with h | h; exact absurd hdd h; exact h
    have hre : s.retainEnd = false := by rw [i1, hr]
    have hred : rcore s done.length ins
        = { s with stack := List.range rfr.length, deleteBlock := none, retainEnd := true,
                   body := discardSpecial (setEmptyAlt s.body done.length) done.length } := by
      simp [rcore, hk, hst, range_succ_getLast, range_succ_dropLast, hd, hdd, hre]
    rw [hred]
    have htop : top = {} := by have := i4 hr; rw [hdd, frAt_top] at this; exact this
    rw [if_pos hdd]
    refine ⟨⟨ht.tabs.pop_empty htop rfl rfl rfl rfl, rfl, fun dl' h => by cases h⟩, ⟨rfl, rfl, rfl, rfl⟩, ?_⟩
    show discardSpecial (setEmptyAlt s.body done.length) done.length = _
    rw [hb, mark_at]
  · -- an `end` of a construct inside the region
    have hne : (dl.d == rfr.length) = false := by simpa using hdd
    have hred : rcore s done.length ins
        = { s with stack := List.range rfr.length, body := discardSpecial (setEmptyAlt s.body done.length) done.length } := by
      simp [rcore, hk, hst, range_succ_getLast, range_succ_dropLast, hd, hne]
    rw [hred]
    have hlt : dl.d < rfr.length := by simp only [List.length_cons] at i2; omega
    have htop : top = {} := by have := i3 rfr.length hlt; rw [frAt_top] at this; exact this
    rw [if_neg hdd]
    have hk' : ∀ k, k ≠ rfr.length → frAt (top :: rfr) k = frAt rfr k := by
      intro k hk'; rw [frAt_push]; simp [hk']
    refine ⟨⟨ht.tabs.pop_empty htop rfl rfl rfl rfl, ht.hdel, ?_⟩, ⟨rfl, rfl, rfl, rfl⟩, ?_⟩
    · intro dl' hdl'
      cases hdl'
      refine ⟨i1, hlt, ?_, ?_⟩
      · intro k hkk
        by_cases hke : k = rfr.length
        · subst hke; exact frAt_ge rfr _ (Nat.le_refl _)
        · rw [← hk' k hke]; exact i3 k hkk
      · intro hr; rw [← hk' dl.d hdd]; exact i4 hr
    · show discardSpecial (setEmptyAlt s.body done.length) done.length = _
      rw [hb, mark_at]

/-- the `end` of an `if` whose `else` arm was removed: it stays and closes the frame as usual -/
theorem rcoreA_retained_end (s : RState) (top : Fr) (rfr : List Fr) (dl : Del) (done rest : List Instr) (c ins : Instr)
    (hp : PlainA ins) (ht : TiedA s (top :: rfr) (some dl)) (hb : s.body = done ++ c :: rest) (hk : ins.kind = .end_)
    (hdd : dl.d = rfr.length) (hr : dl.retain = true) :
    let s' := rcore s done.length ins
    TiedA s' rfr none ∧ Keep s s' ∧ ∃ c', s'.body = done ++ c' :: rest ∧ Chg c c' (top.ifExit ++ top.exitB) (endAfter top) := by
  have hd : s.deleteBlock = some dl.d := ht.hdel
  obtain ⟨i1, _, _, _⟩ := ht.inv dl rfl
  have hre : s.retainEnd = true := by rw [i1, hr]
  have hst : s.stack = List.range (rfr.length + 1) := by rw [ht.tabs.stack]; rfl
  have hnb : ins.kind.isBlockStyle = false := by simp [hk, Kind.isBlockStyle]
  obtain ⟨z1, z2, z3⟩ := hp.only hnb
  have hred : rcore s done.length ins
      = endE { s with stack := List.range rfr.length, deleteBlock := none, retainEnd := true } done.length rfr.length := by
    cases ha : s.onElseOrEnd.any (fun x => x.fst == rfr.length) <;> cases hB : s.onEndBefore.any (fun x => x.fst == rfr.length) <;>
      cases hA : s.onEndAfter.any (fun x => x.fst == rfr.length) <;>
      simp [rcore, endE, flushE, ha, hB, hA, hk, hd, hdd, hre, hst, range_succ_getLast, range_succ_dropLast,
        planSpecial_nospecial _ _ _ z1 z2 z3]
  rw [hred]
  obtain ⟨⟨c', hb', hc'⟩, e1, e2, e3, e4, e5, e6, e7, e8, e9, e10⟩ :=
    endE_spec { s with stack := List.range rfr.length, deleteBlock := none, retainEnd := true } done rest c rfr.length hb
      ht.tabs.f1 ht.tabs.f2
  have hpop : ∀ k, k ≠ rfr.length → frAt (top :: rfr) k = frAt rfr k := by
    intro k hk'; rw [frAt_push]; simp [hk']
  have hge : frAt rfr rfr.length = {} := frAt_ge rfr _ (Nat.le_refl _)
  refine ⟨⟨⟨e5, ?_, ?_, ?_, ?_, ?_, ?_⟩, e6, fun dl' h => by cases h⟩, ⟨e9, e10, e7, e8⟩, c', hb', ?_⟩
  · intro k
    by_cases hk' : k = rfr.length
    · subst hk'; rw [e1]
    · rw [(e4 k hk').1]; exact ht.tabs.f1 k
  · intro k
    by_cases hk' : k = rfr.length
    · subst hk'; rw [e2]
    · rw [(e4 k hk').2.1]; exact ht.tabs.f2 k
  · intro k
    by_cases hk' : k = rfr.length
    · subst hk'; rw [e1, hge]; rfl
    · rw [(e4 k hk').1]; show flat (getInj s.onElseOrEnd k) = _; rw [ht.tabs.t1, hpop k hk']
  · intro k
    by_cases hk' : k = rfr.length
    · subst hk'; rw [e2, hge]; rfl
    · rw [(e4 k hk').2.1]; show flat (getInj s.onEndBefore k) = _; rw [ht.tabs.t2, hpop k hk']
  · intro k
    by_cases hk' : k = rfr.length
    · subst hk'; rw [e3, hge]; rfl
    · rw [(e4 k hk').2.2]; show flat (getInj s.onEndAfter k) = _; rw [ht.tabs.t3, hpop k hk']
  · intro k
    by_cases hk' : k = rfr.length
    · subst hk'; rw [e3, hge]
    · rw [(e4 k hk').2.2]; show (getInj s.onEndAfter k).flagged = _; rw [ht.tabs.t3f, hpop k hk']
  · have a1 : flat (getInj s.onElseOrEnd rfr.length) = top.ifExit := by rw [ht.tabs.t1, frAt_top]
    have a2 : flat (getInj s.onEndBefore rfr.length) = top.exitB := by rw [ht.tabs.t2, frAt_top]
    have a3 : resolveBodies (getInj s.onEndAfter rfr.length) = endAfter top := by
      rw [resolveBodies_eq, ht.tabs.t3, ht.tabs.t3f, frAt_top]; rfl
    have := hc'
    simp only [a1, a2, a3] at this
    exact this

theorem planBlockAlt_mid (A B : List Instr) (x : Instr) (alt : List Tok) :
    ∃ y, planBlockAlt (A ++ x :: B) A.length alt = A ++ y :: B ∧ y.before = x.before ∧ y.after = x.after ∧ y.alt = some (altOf x alt)
      ∧ y.tok = x.tok := by
  unfold planBlockAlt altOf
  cases he : alt.isEmpty with
  | true =>
    have : alt = [] := List.isEmpty_iff.mp he
    subst this
    simp only [if_true, mark_at]
    exact ⟨mark x, rfl, (mark_chg x).1, (mark_chg x).2.1, (mark_chg x).2.2.1, (mark_chg x).2.2.2⟩
  | false =>
    simp only [Bool.false_eq_true, if_false, discardSpecial, modifyAt_mid]
    exact ⟨_, rfl, rfl, rfl, rfl, rfl⟩

/-- **a block alternate on `block` / `loop` / `if`**: the replacement takes the opener's place; removal starts -/
theorem rcoreA_start_open (s : RState) (fr : List Fr) (done rest : List Instr) (c ins : Instr) (alt : List Tok)
    (hca : c.alt = ins.alt) (ht : TiedA s fr none) (hb : s.body = done ++ c :: rest) (hk : ins.kind = .block ∨ ins.kind = .loop ∨ ins.kind = .if_)
    (ha : ins.blockAlt = some alt) :
    let s' := rcore s done.length ins
    TiedA s' ({} :: fr) (some ⟨fr.length, false⟩) ∧ Keep s s' ∧ ∃ c', s'.body = done ++ c' :: rest ∧ ChgA c c' [] (some (altOf ins alt)) [] := by
  have hd : s.deleteBlock = none := ht.hdel
  have hst : (s.stack ++ [s.stack.length]) = List.range (fr.length + 1) := by rw [ht.tabs.stack]; exact range_push _
  have htop : top (s.stack ++ [s.stack.length]) = fr.length := by rw [hst, top_range_succ]
  have hred : rcore s done.length ins
      = { s with stack := s.stack ++ [s.stack.length], body := planBlockAlt s.body done.length alt, retainEnd := false,
                 deleteBlock := some fr.length } := by
    rcases hk with h | h | h <;> simp [rcore, h, ha, hd, htop]
  rw [hred]
  obtain ⟨y, hy, y1, y2, y3, y4⟩ := planBlockAlt_mid done rest c alt
  have y3' : y.alt = some (altOf ins alt) := by rw [y3]; simp only [altOf, hca]
  refine ⟨⟨ht.tabs.push_empty _ rfl rfl rfl rfl, rfl, ?_⟩, ⟨rfl, rfl, rfl, rfl⟩, y, by show planBlockAlt s.body done.length alt = _; rw [hb, hy],
    by simp [y1], by simp [y2], y3', y4⟩
  intro dl' hdl'
  cases hdl'
  refine ⟨rfl, by simp, ?_, ?_⟩
  · intro k hk'
    have hk'' : fr.length < k := hk'
    exact frAt_ge _ _ (by simp only [List.length_cons]; omega)
  · intro _
    rw [frAt_push]; simp

/-- **a block alternate on `else`**: what the `if` left pending goes in front, the replacement takes the `else`'s place, the arm is
    removed, the `end` stays -/
theorem rcoreA_start_else (s : RState) (top : Fr) (rfr : List Fr) (done rest : List Instr) (c ins : Instr) (alt : List Tok)
    (hca : c.alt = ins.alt) (ht : TiedA s (top :: rfr) none) (hb : s.body = done ++ c :: rest) (hk : ins.kind = .else_)
    (ha : ins.blockAlt = some alt) :
    let s' := rcore s done.length ins
    TiedA s' ({ top with ifExit := [] } :: rfr) (some ⟨rfr.length, true⟩) ∧ Keep s s'
      ∧ ∃ c', s'.body = done ++ c' :: rest ∧ ChgA c c' top.ifExit (some (altOf ins alt)) [] := by
  have hd : s.deleteBlock = none := ht.hdel
  have htop : Lower.top s.stack = rfr.length := by rw [ht.tabs.stack]; simp only [List.length_cons]; exact top_range_succ _
  have hred : rcore s done.length ins
      = { flushE s done.length rfr.length with
          body := planBlockAlt (flushE s done.length rfr.length).body done.length alt, retainEnd := true, deleteBlock := some rfr.length } := by
    cases hany : s.onElseOrEnd.any (fun x => x.fst == rfr.length) <;>
      simp [rcore, flushE, hany, ha, hk, hd, htop]
  rw [hred]
  obtain ⟨⟨c1, hb1, hc1⟩, q0, q1, q2, q3, q4, q5, q6, q7, q8, q9, _⟩ := flushE_spec s done rest c rfr.length hb ht.tabs.f1
  have e1 : flat (getInj s.onElseOrEnd rfr.length) = top.ifExit := by rw [ht.tabs.t1, frAt_top]
  have hc1alt : c1.alt = ins.alt := hc1.2.2.1.trans hca
  obtain ⟨y, hy, y1, y2, y3, y4⟩ := planBlockAlt_mid done rest c1 alt
  have y3' : y.alt = some (altOf ins alt) := by rw [y3]; simp only [altOf, hc1alt]
  refine ⟨⟨ht.tabs.flushed_top q0 q1 q2 q8 q9, rfl, ?_⟩, ⟨q6, q7, q4, q5⟩, y,
    by show planBlockAlt (flushE s done.length rfr.length).body done.length alt = _; rw [hb1, hy], ?_, ?_, y3', ?_⟩
  · intro dl' hdl'
    cases hdl'
    refine ⟨rfl, by simp, ?_, ?_⟩
    · intro k hk'
      have hk'' : rfr.length < k := hk'
      exact frAt_ge _ _ (by simp only [List.length_cons]; omega)
    · intro h; cases h
  · rw [y1, hc1.1, e1]
  · rw [y2, hc1.2.1]
  · rw [y4, hc1.2.2.2]

theorem PlainA.plain {i : Instr} (h : PlainA i) (hb : i.blockAlt = none) : Plain i := ⟨hb, h.only⟩

theorem Tied.tiedA {s : RState} {fr : List Fr} (h : Tied s fr) : TiedA s fr none :=
  ⟨h.tabs, h.del, fun _ hdl => by cases hdl⟩

theorem TiedA.tied {s : RState} {fr : List Fr} (h : TiedA s fr none) : Tied s fr := h.tabs.tied h.hdel

/-- **one step of the resolver is one step of the extended stack machine** -/
theorem rcoreA_tied (s : RState) (fr : List Fr) (del : Option Del) (done rest : List Instr) (c ins : Instr) (hp : PlainA ins)
    (hca : c.alt = ins.alt)
    (ht : TiedA s fr del) (hb : s.body = done ++ c :: rest) (fr' : List Fr) (del' : Option Del) (B : List Tok) (alt : Option (List Tok))
    (A : List Tok) (hs : specStepA fr del ins = some (fr', del', B, alt, A)) :
    let s' := rcore s done.length ins
    TiedA s' fr' del' ∧ Keep s s' ∧ ∃ c', s'.body = done ++ c' :: rest ∧ ChgA c c' B alt A := by
  cases del with
  | some dl =>
    -- inside a removed region
    cases hk : ins.kind with
    | block | loop | if_ =>
      all_goals
        simp only [specStepA, hk, Option.some.injEq, Prod.mk.injEq] at hs
        obtain ⟨rfl, rfl, rfl, rfl, rfl⟩ := hs
        obtain ⟨t, n1, hb'⟩ := rcoreA_removed_open s fr dl done rest c ins ht hb (by simp [hk])
        exact ⟨t, n1, mark c, hb', mark_chgA c⟩
    | else_ =>
      cases fr with
      | nil => simp [specStepA, hk] at hs
      | cons top rfr =>
        cases rfr with
        | nil => simp [specStepA, hk] at hs
        | cons below rfr =>
          simp only [specStepA, hk, Option.some.injEq, Prod.mk.injEq] at hs
          obtain ⟨rfl, rfl, rfl, rfl, rfl⟩ := hs
          exact rcoreA_removed_else s top (below :: rfr) dl done rest c ins ht hb hk
    | end_ =>
      cases fr with
      | nil => simp [specStepA, hk] at hs
      | cons top rfr =>
        obtain ⟨d, retain⟩ := dl
        simp only [specStepA, hk] at hs
        by_cases hdd : d = rfr.length
        · cases hr : retain with
          | true =>
            simp only [hdd, hr, if_true, Option.some.injEq, Prod.mk.injEq] at hs
            obtain ⟨rfl, rfl, rfl, rfl, rfl⟩ := hs
            obtain ⟨t, n1, c', hb', hc'⟩ := rcoreA_retained_end s top rfr ⟨d, retain⟩ done rest c ins hp ht hb hk hdd hr
            exact ⟨t, n1, c', hb', hc'.chgA hca⟩
          | false =>
            simp only [hdd, hr, if_true, Bool.false_eq_true, if_false, Option.some.injEq, Prod.mk.injEq] at hs
            obtain ⟨rfl, rfl, rfl, rfl, rfl⟩ := hs
            obtain ⟨t, n1, hb'⟩ := rcoreA_removed_end s top rfr ⟨d, retain⟩ done rest c ins ht hb hk (.inr hr)
            simp only [hdd, if_true] at t
            exact ⟨t, n1, mark c, hb', mark_chgA c⟩
        · simp only [hdd, if_false, Option.some.injEq, Prod.mk.injEq] at hs
          obtain ⟨rfl, rfl, rfl, rfl, rfl⟩ := hs
          obtain ⟨t, n1, hb'⟩ := rcoreA_removed_end s top rfr ⟨d, retain⟩ done rest c ins ht hb hk (.inl hdd)
          simp only [hdd, if_false] at t
          exact ⟨t, n1, mark c, hb', mark_chgA c⟩
    | br _ | brIf _ | brTable _ _ | exitLike | other =>
      all_goals
        simp only [specStepA, hk, Option.some.injEq, Prod.mk.injEq] at hs
        obtain ⟨rfl, rfl, rfl, rfl, rfl⟩ := hs
        obtain ⟨t, n1, hb'⟩ := rcoreA_removed_other s fr dl done rest c ins ht hb (by simp [hk])
        exact ⟨t, n1, mark c, hb', mark_chgA c⟩
  | none =>
    cases hba : ins.blockAlt with
    | none =>
      -- nothing is being removed and nothing starts: the plain stack machine
      have hpl := hp.plain hba
      have key : ∀ (fr1 : List Fr) (B1 A1 : List Tok), specStep fr ins = some (fr1, B1, A1) → fr' = fr1 → del' = none → B = B1 → alt = ins.alt → A = A1 →
          (let s' := rcore s done.length ins
           TiedA s' fr' del' ∧ Keep s s' ∧ ∃ c', s'.body = done ++ c' :: rest ∧ ChgA c c' B alt A) := by
        intro fr1 B1 A1 h1 e1 e2 e3 e4 e5
        subst e1 e2 e3 e4 e5
        obtain ⟨t, n1, c', hb', hc'⟩ := rcore_tied s fr done rest c ins hpl ht.tied hb fr' B A h1
        exact ⟨t.tiedA, n1, c', hb', hc'.chgA hca⟩
      cases hk : ins.kind with
      | block | loop =>
        all_goals
          simp only [specStepA, hk, hba, Option.some.injEq, Prod.mk.injEq, reduceCtorEq, if_false] at hs
          obtain ⟨h1, h2, h3, h4, h5⟩ := hs
          exact key ({ exitB := ins.blockExit, afterA := ins.semAfter } :: fr) [] ins.blockEntry
            (by simp [specStep, hk]) h1.symm h2.symm h3.symm h4.symm h5.symm
      | if_ =>
        simp only [specStepA, hk, hba, Option.some.injEq, Prod.mk.injEq, if_true] at hs
        obtain ⟨h1, h2, h3, h4, h5⟩ := hs
        exact key ({ ifExit := ins.blockExit, afterA := ins.semAfter } :: fr) [] ins.blockEntry
          (by simp [specStep, hk]) h1.symm h2.symm h3.symm h4.symm h5.symm
      | else_ =>
        cases fr with
        | nil => simp [specStepA, hk] at hs
        | cons top rfr =>
          cases rfr with
          | nil => simp [specStepA, hk] at hs
          | cons below rfr =>
            simp only [specStepA, hk, hba, Option.some.injEq, Prod.mk.injEq] at hs
            obtain ⟨h1, h2, h3, h4, h5⟩ := hs
            exact key _ _ _ (by simp [specStep, hk]) h1.symm h2.symm h3.symm h4.symm h5.symm
      | end_ =>
        cases fr with
        | nil => simp [specStepA, hk] at hs
        | cons top rfr =>
          simp only [specStepA, hk, Option.some.injEq, Prod.mk.injEq] at hs
          obtain ⟨h1, h2, h3, h4, h5⟩ := hs
          exact key _ _ _ (by simp [specStep, hk]) h1.symm h2.symm h3.symm h4.symm h5.symm
      | br _ | brIf _ | brTable _ _ | exitLike | other =>
        all_goals
          simp only [specStepA, hk, Option.some.injEq, Prod.mk.injEq] at hs
          obtain ⟨h1, h2, h3, h4, h5⟩ := hs
          exact key _ _ _ (by simp [specStep, hk]) h1.symm h2.symm h3.symm h4.symm h5.symm
    | some altT =>
      have hbs := hp.altOnly (by simp [hba])
      cases hk : ins.kind with
      | block | loop | if_ =>
        all_goals
          simp only [specStepA, hk, hba, Option.some.injEq, Prod.mk.injEq] at hs
          obtain ⟨rfl, rfl, rfl, rfl, rfl⟩ := hs
          exact rcoreA_start_open s fr done rest c ins altT hca ht hb (by simp [hk]) hba
      | else_ =>
        cases fr with
        | nil => simp [specStepA, hk] at hs
        | cons top rfr =>
          cases rfr with
          | nil => simp [specStepA, hk] at hs
          | cons below rfr =>
            simp only [specStepA, hk, hba, Option.some.injEq, Prod.mk.injEq] at hs
            obtain ⟨rfl, rfl, rfl, rfl, rfl⟩ := hs
            have := rcoreA_start_else s top (below :: rfr) done rest c ins altT hca ht hb hk hba
            simpa using this
      | end_ | br _ | brIf _ | brTable _ _ | exitLike | other =>
        all_goals simp [hk, Kind.isBlockStyle] at hbs

theorem rloopA_tied (last : Nat) : ∀ (xs : List Instr) (s : RState) (fr : List Fr) (del : Option Del) (done : List Instr) (out : List Tok),
    (∀ x ∈ xs, PlainA x) → TiedA s fr del → s.entry = [] → s.exit = [] → s.body = done ++ xs → specRunA last done.length fr del xs = some out →
    let s' := rloop last s done.length xs
    ∃ done', s'.body = done ++ done' ∧ done'.length = xs.length ∧ emitFrom last done.length done' = out ∧ s'.added = s.added
      ∧ s'.nlocals = s.nlocals := by
  intro xs
  induction xs with
  | nil =>
    intro s fr del done out _ _ _ _ hb hs
    simp only [specRunA] at hs
    split at hs
    · simp only [Option.some.injEq] at hs; subst hs
      exact ⟨[], by simpa [rloop] using hb, rfl, rfl, rfl, rfl⟩
    · cases hs
  | cons x xs ih =>
    intro s fr del done out hp ht hen hex hb hs
    simp only [specRunA] at hs
    cases h1 : specStepA fr del x with
    | none => simp [h1] at hs
    | some r =>
      obtain ⟨fr', del', B, alt, A⟩ := r
      simp only [h1] at hs
      split at hs
      · cases hs
      cases h2 : specRunA last (done.length + 1) fr' del' xs with
      | none => simp [h2] at hs
      | some outr =>
        simp only [h2, Option.some.injEq] at hs
        have hpx := hp x (List.mem_cons_self ..)
        have hstep : rstep last s done.length x = rcore s done.length x := by rw [rstep_eq, rpre_nil _ _ _ _ hen hex]
        obtain ⟨t, ⟨n1, n2, n3, n4⟩, c', hb', cb, ca, cal, ctok⟩ :=
          rcoreA_tied s fr del done xs x x hpx rfl ht hb fr' del' B alt A h1
        rw [← hstep] at t n1 n2 n3 n4 hb'
        have hb2 : (rstep last s done.length x).body = (done ++ [c']) ++ xs := by rw [hb']; simp
        have hlen : (done ++ [c']).length = done.length + 1 := by simp
        obtain ⟨d', e1, e0, e2, e3, e4⟩ := ih (rstep last s done.length x) fr' del' (done ++ [c']) outr
          (fun y hy => hp y (List.mem_cons_of_mem _ hy)) t (n3.trans hen) (n4.trans hex) hb2 (by rw [hlen]; exact h2)
        refine ⟨c' :: d', ?_, by simp [e0], ?_, ?_, ?_⟩
        · simp only [rloop]; rw [← hlen, e1]; simp
        · simp only [emitFrom, cb, ca, cal, ctok]
          rw [← hlen, e2, ← hs]
          cases alt <;> by_cases hl : done.length ≥ last <;> simp [hl]
        · simp only [rloop]; rw [← hlen, e3, n2]
        · simp only [rloop]; rw [← hlen, e4, n1]

def stripModeA := stripMode

theorem specStepA_stripMode (fr : List Fr) (del : Option Del) (i : Instr) : specStepA fr del (stripMode i) = specStepA fr del i := rfl

theorem specRunA_stripMode (last : Nat) : ∀ (xs : List Instr) (idx : Nat) (fr : List Fr) (del : Option Del),
    specRunA last idx fr del (xs.map stripMode) = specRunA last idx fr del xs := by
  intro xs
  induction xs with
  | nil => intro idx fr del; rfl
  | cons x xs ih =>
    intro idx fr del
    simp only [List.map_cons, specRunA, specStepA_stripMode]
    cases specStepA fr del x with
    | none => rfl
    | some r =>
      have : (xs.map stripMode).isEmpty = xs.isEmpty := by cases xs <;> rfl
      simp only [ih, this]; rfl

theorem plainA_modifyAt_mode (xs : List Instr) (j : Nat) (m : Option Mode) (hp : ∀ x ∈ xs, PlainA x) :
    ∀ y ∈ modifyAt xs j (fun i => { i with mode := m }), PlainA y := by
  intro y hy
  unfold modifyAt at hy
  cases h : xs[j]? with
  | none => simp only [h] at hy; exact hp y hy
  | some x =>
    simp only [h] at hy
    rcases List.mem_or_eq_of_mem_set hy with h1 | h1
    · exact hp y h1
    · have hx : x ∈ xs := List.mem_of_getElem? h
      have px := hp x hx
      subst h1
      exact ⟨px.altOnly, px.only⟩

/-- **The resolver refines the extended stack machine**: `before` / `after` anywhere, block-entry / block-exit / semantic-after on
    constructs, and block alternates on constructs — any number of each, in any combination. -/
theorem lower_eq_specA (f : Func) (hsp : f.hasSpecial = true) (hentry : f.entry = []) (hexit : f.exit = [])
    (hp : ∀ x ∈ f.body, PlainA x) (out : List Tok) (hs : specRunA (f.body.length - 1) 0 [{}] none f.body = some out) :
    lower f = (out, f.added) := by
  let body0 := modifyAt f.body (f.body.length - 1) (fun i => { i with mode := some .before })
  have hp0 : ∀ x ∈ body0, PlainA x := plainA_modifyAt_mode f.body _ _ hp
  have hs0 : specRunA (f.body.length - 1) 0 [{}] none body0 = some out := by
    rw [← specRunA_stripMode, map_stripMode_modifyAt, specRunA_stripMode]; exact hs
  have hlen0 : body0.length = f.body.length := by
    show (modifyAt f.body _ _).length = _
    unfold modifyAt; split <;> simp
  obtain ⟨d', e1, e0, e2, e3, _⟩ := rloopA_tied (f.body.length - 1) body0
    { body := body0, entry := [], exit := [], nlocals := f.nlocals } [{}] none [] out hp0 (tied_init body0 [] [] f.nlocals).tiedA rfl rfl (by simp) hs0
  simp only [List.length_nil, List.nil_append] at e1 e2 e3
  have hd' : d'.length = f.body.length := by rw [e0, hlen0]
  unfold lower resolveSpecial
  simp only [hsp, Bool.not_true, Bool.false_eq_true, if_false, hexit, hentry, List.isEmpty_nil, if_true]
  refine Prod.ext ?_ ?_
  · show emitFrom _ 0 (rloop (f.body.length - 1) { body := body0, entry := [], exit := [], nlocals := f.nlocals } 0 body0).body = out
    rw [e1, hd']; exact e2
  · show f.added + (rloop (f.body.length - 1) { body := body0, entry := [], exit := [], nlocals := f.nlocals } 0 body0).added = f.added
    rw [e3]; rfl

/-! ### the region theorem on the extended machine -/

/-- what the instructions of a removed region still contribute: their `before` and `after` lists (the code keeps those) -/
def removedToks (xs : List Instr) : List Tok := xs.flatMap (fun i => i.before ++ i.after)

def emptyFr : Fr := {}

/-- **inside a removed region** the machine only pushes and pops empty frames and emits the instructions' plain lists -/
theorem specRunA_region (last : Nat) (dl : Del) (a b : Fr) (base' : List Fr) (ha : a.ifExit = []) (hd : dl.d < base'.length + 2) :
    ∀ (xs rest : List Instr) (idx m m' : Nat), depthAfter xs m = some m' → idx + xs.length ≤ last → rest ≠ [] →
      specRunA last idx (List.replicate m emptyFr ++ a :: b :: base') (some dl) (xs ++ rest)
        = (specRunA last (idx + xs.length) (List.replicate m' emptyFr ++ a :: b :: base') (some dl) rest).map (removedToks xs ++ ·) := by
  intro xs
  induction xs with
  | nil =>
    intro rest idx m m' hdep _ _
    simp only [depthAfter, Option.some.injEq] at hdep
    subst hdep
    cases h : specRunA last idx (List.replicate m emptyFr ++ a :: b :: base') (some dl) rest <;> simp [removedToks, h]
  | cons x xs ih =>
    intro rest idx m m' hdep hl hrest
    simp only [depthAfter] at hdep
    cases h1 : depthStep x.kind m with
    | none => simp [h1] at hdep
    | some m1 =>
      simp only [h1, Option.bind_some] at hdep
      have hl' : idx + 1 + xs.length ≤ last := by simp only [List.length_cons] at hl; omega
      have hlt : ¬ idx ≥ last := by simp only [List.length_cons] at hl; omega
      have hne : (xs ++ rest).isEmpty = false := by cases xs <;> cases rest <;> simp_all
      have ihx := ih rest (idx + 1) m1 m' hdep hl' hrest
      have hstep : specStepA (List.replicate m emptyFr ++ a :: b :: base') (some dl) x
          = some (List.replicate m1 emptyFr ++ a :: b :: base', some dl, [], some [], []) := by
        cases hk : x.kind with
        | block | loop | if_ =>
          all_goals
            simp only [hk, depthStep, Option.some.injEq] at h1
            subst h1
            simp [specStepA, hk, List.replicate_succ, emptyFr]
        | else_ =>
          simp only [hk, depthStep, Option.some.injEq] at h1
          subst h1
          cases m with
          | zero =>
            have : ({ a with ifExit := [] } : Fr) = a := by cases a; simp_all
            simp [specStepA, hk, this, ha]
          | succ m =>
            cases m with
            | zero => simp [specStepA, hk, List.replicate_succ, emptyFr]
            | succ m => simp [specStepA, hk, List.replicate_succ, emptyFr]
        | end_ =>
          simp only [hk, depthStep] at h1
          split at h1
          · cases h1
          · rename_i hm0
            simp only [Option.some.injEq] at h1
            subst h1
            obtain ⟨k, rfl⟩ : ∃ k, m = k + 1 := ⟨m - 1, by omega⟩
            obtain ⟨d0, r0⟩ := dl
            have hne'' : ¬ d0 = k + (base'.length + 1 + 1) := by simp only at hd; omega
            simp only [List.replicate_succ, List.cons_append, specStepA, hk, Nat.add_sub_cancel, List.length_append, List.length_replicate,
              List.length_cons, hne'', if_false]
        | br _ | brIf _ | brTable _ _ | exitLike | other =>
          all_goals
            simp only [hk, depthStep, Option.some.injEq] at h1
            subst h1
            simp [specStepA, hk]
      have hfne : (List.replicate m1 emptyFr ++ a :: b :: base').isEmpty = false := by
        cases m1 <;> simp [List.replicate_succ]
      simp only [List.cons_append, specRunA, hstep, hfne, hne, Bool.false_and, Bool.false_eq_true, if_false, hlt]
      rw [ihx]
      have hidx : idx + 1 + xs.length = idx + (x :: xs).length := by simp only [List.length_cons]; omega
      rw [hidx]
      cases specRunA last (idx + (x :: xs).length) (List.replicate m' emptyFr ++ a :: b :: base') (some dl) rest with
      | none => rfl
      | some o => simp [removedToks, List.append_assoc]

/-- **C21 on the extended machine, `block` / `loop` / `if`.** Wherever the construct sits, whatever is pending around it: the machine
    emits the opener's `before` code, the replacement, and the plain `before` / `after` lists of the removed instructions, and goes on
    behind the matching `end` **in the state it had in front of the construct** — same frames, nothing being removed — so that all
    instrumentation outside the construct is placed exactly as if the construct had never been there. -/
theorem specRunA_alt_open (last idx : Nat) (b : Fr) (base' : List Fr) (X endI : Instr) (region post : List Instr) (alt : List Tok)
    (hk : X.kind = .block ∨ X.kind = .loop ∨ X.kind = .if_) (hx : X.blockAlt = some alt) (hreg : depthAfter region 0 = some 0)
    (hend : endI.kind = .end_) (hl : idx + region.length + 2 ≤ last) (hpost : post ≠ []) :
    specRunA last idx (b :: base') none (X :: (region ++ endI :: post))
      = (specRunA last (idx + region.length + 2) (b :: base') none post).map
          (fun o => X.before ++ altOf X alt ++ X.after ++ removedToks region ++ endI.before ++ endI.after ++ o) := by
  have hlt : ¬ idx ≥ last := by omega
  have hstepX : specStepA (b :: base') none X
      = some (emptyFr :: b :: base', some ⟨base'.length + 1, false⟩, [], some (altOf X alt), []) := by
    rcases hk with h | h | h <;> simp [specStepA, h, hx, emptyFr]
  have hne : (region ++ endI :: post).isEmpty = false := by cases region <;> simp
  simp only [specRunA, hstepX, List.isEmpty_cons, hne, Bool.false_and, Bool.false_eq_true, if_false, hlt, Option.getD_some]
  have hr := specRunA_region last ⟨base'.length + 1, false⟩ emptyFr b base' rfl (by simp) region (endI :: post) (idx + 1) 0 0 hreg
    (by omega) (by simp)
  simp only [List.replicate_zero, List.nil_append] at hr
  rw [hr]
  -- the `end` of the removed construct
  have hlt2 : ¬ idx + 1 + region.length ≥ last := by omega
  have hstepE : specStepA (emptyFr :: b :: base') (some ⟨base'.length + 1, false⟩) endI
      = some (b :: base', none, [], some [], []) := by
    simp [specStepA, hend]
  have hpne : post.isEmpty = false := by cases post with | nil => exact absurd rfl hpost | cons _ _ => rfl
  simp only [specRunA, hstepE, List.isEmpty_cons, hpne, Bool.false_and, Bool.false_eq_true, if_false, hlt2, Option.getD_some]
  have hidx : idx + 1 + region.length + 1 = idx + region.length + 2 := by omega
  rw [hidx]
  cases specRunA last (idx + region.length + 2) (b :: base') none post with
  | none => rfl
  | some o => simp [List.append_assoc]

/-- at the `end` that a removed `else` arm keeps, the machine does what it does when nothing is being removed -/
theorem specRunA_retained_end_eq (last idx : Nat) (a : Fr) (rest : List Fr) (endI : Instr) (post : List Instr) (hend : endI.kind = .end_) :
    specRunA last idx (a :: rest) (some ⟨rest.length, true⟩) (endI :: post) = specRunA last idx (a :: rest) none (endI :: post) := by
  simp [specRunA, specStepA, hend]

/-- **C21 on the extended machine, `else`.** What the `if` left pending for its `else` goes in front, the replacement takes the place
    of the `else`, the arm contributes only its plain lists, and the `end` of the `if` is handled as if nothing had been removed (it
    closes the frame of the `if`, with the if-exit code already placed). -/
theorem specRunA_alt_else (last idx : Nat) (top b : Fr) (base' : List Fr) (X endI : Instr) (region post : List Instr) (alt : List Tok)
    (hk : X.kind = .else_) (hx : X.blockAlt = some alt) (hreg : depthAfter region 0 = some 0)
    (hend : endI.kind = .end_) (hl : idx + region.length + 1 ≤ last) :
    specRunA last idx (top :: b :: base') none (X :: (region ++ endI :: post))
      = (specRunA last (idx + region.length + 1) ({ top with ifExit := [] } :: b :: base') none (endI :: post)).map
          (fun o => X.before ++ top.ifExit ++ altOf X alt ++ X.after ++ removedToks region ++ o) := by
  generalize hR : specRunA last (idx + region.length + 1) ({ top with ifExit := [] } :: b :: base') none (endI :: post) = R
  have hlt : ¬ idx ≥ last := by omega
  have hstepX : specStepA (top :: b :: base') none X
      = some ({ top with ifExit := [] } :: b :: base', some ⟨base'.length + 1, true⟩, top.ifExit, some (altOf X alt), []) := by
    simp [specStepA, hk, hx]
  have hne : (region ++ endI :: post).isEmpty = false := by cases region <;> simp
  simp only [specRunA, hstepX, List.isEmpty_cons, hne, Bool.false_and, Bool.false_eq_true, if_false, hlt, Option.getD_some]
  have hr := specRunA_region last ⟨base'.length + 1, true⟩ { top with ifExit := [] } b base' rfl (by simp) region (endI :: post) (idx + 1) 0 0 hreg
    (by omega) (by simp)
  simp only [List.replicate_zero, List.nil_append] at hr
  rw [hr]
  have := specRunA_retained_end_eq last (idx + 1 + region.length) { top with ifExit := [] } (b :: base') endI post hend
  simp only [List.length_cons] at this
  rw [this]
  have hidx : idx + 1 + region.length = idx + region.length + 1 := by omega
  rw [hidx, hR]
  cases R with
  | none => rfl
  | some o => simp [List.append_assoc]

end Orca.Lower
