import Orca.Lemmas.StackAlt
/-!
The stack machine completed: **function entry / exit code** and **semantic-after probes on branches** (the flag scheme) join the
block-level probes and block alternates of Lemmas/StackSpec.lean and Lemmas/StackAlt.lean. `specRunF` is the whole of
`resolve_special_instrumentation` + emission as a machine over a stack of frames; `lower_eq_specF` proves that the resolver refines it
for **every** plan the injection API can build from `before` / `after` and the special modes (no instruction-level alternates).
-/
namespace Orca.Lower

/-! ### flagged bodies in the table of `after[end]` -/

/-- append one flagged body to the entry of key `k` -/
def addFlag (tbl : List (Nat × ToInject)) (k : Nat) (e : List Tok × Nat) : List (Nat × ToInject) :=
  setInj tbl k { getInj tbl k with flagged := (getInj tbl k).flagged ++ [e] }

theorem addFlag_flagged (tbl : List (Nat × ToInject)) (k j : Nat) (e : List Tok × Nat) :
    (getInj (addFlag tbl k e) j).flagged = (getInj tbl j).flagged ++ (if j = k then [e] else []) := by
  unfold addFlag
  by_cases hj : j = k
  · subst hj; rw [getInj_setInj_self]; simp
  · rw [getInj_setInj_other _ _ _ _ hj]; simp [hj]

theorem addFlag_flat (tbl : List (Nat × ToInject)) (k j : Nat) (e : List Tok × Nat) :
    flat (getInj (addFlag tbl k e) j) = flat (getInj tbl j) := by
  unfold addFlag
  by_cases hj : j = k
  · subst hj; rw [getInj_setInj_self]; rfl
  · rw [getInj_setInj_other _ _ _ _ hj]

/-- the frame with block id `k` gets one more flagged body -/
def parkFr (fr : List Fr) (k : Nat) (e : List Tok × Nat) : List Fr :=
  (fr.reverse.modify k (fun f => { f with afterFl := f.afterFl ++ [e] })).reverse

theorem parkFr_length (fr : List Fr) (k : Nat) (e : List Tok × Nat) : (parkFr fr k e).length = fr.length := by
  simp [parkFr, List.length_modify]

theorem frAt_parkFr (fr : List Fr) (k j : Nat) (e : List Tok × Nat) (hk : k < fr.length) :
    frAt (parkFr fr k e) j = if j = k then { frAt fr k with afterFl := (frAt fr k).afterFl ++ [e] } else frAt fr j := by
  unfold frAt parkFr
  rw [List.reverse_reverse, List.getElem?_modify]
  by_cases hj : j = k
  · subst hj
    have : j < fr.reverse.length := by simpa using hk
    simp [List.getElem?_eq_getElem this]
  · have : ¬ k = j := fun h => hj h.symm
    simp only [this, hj, if_false]
    cases fr.reverse[j]? <;> rfl

/-- table and frames stay in step when a flagged body is parked -/
theorem park_agree (tbl : List (Nat × ToInject)) (fr : List Fr) (k : Nat) (e : List Tok × Nat) (hk : k < fr.length)
    (h3 : ∀ j, flat (getInj tbl j) = (frAt fr j).afterA) (h3f : ∀ j, (getInj tbl j).flagged = (frAt fr j).afterFl) :
    (∀ j, flat (getInj (addFlag tbl k e) j) = (frAt (parkFr fr k e) j).afterA)
    ∧ (∀ j, (getInj (addFlag tbl k e) j).flagged = (frAt (parkFr fr k e) j).afterFl)
    ∧ (∀ j, (frAt (parkFr fr k e) j).ifExit = (frAt fr j).ifExit) ∧ (∀ j, (frAt (parkFr fr k e) j).exitB = (frAt fr j).exitB) := by
  refine ⟨fun j => ?_, fun j => ?_, fun j => ?_, fun j => ?_⟩
  · rw [addFlag_flat, h3, frAt_parkFr _ _ _ _ hk]; by_cases hj : j = k <;> simp [hj]
  · rw [addFlag_flagged, h3f, frAt_parkFr _ _ _ _ hk]; by_cases hj : j = k <;> simp [hj]
  · rw [frAt_parkFr _ _ _ _ hk]; by_cases hj : j = k <;> simp [hj]
  · rw [frAt_parkFr _ _ _ _ hk]; by_cases hj : j = k <;> simp [hj]

def branchTargets : Kind → List Nat
  | .br d => [d]
  | .brIf d => [d]
  | .brTable ts d => ts ++ [d]
  | _ => []

def parkAllT (tbl : List (Nat × ToInject)) (topId : Nat) (e : List Tok × Nat) (ts : List Nat) : List (Nat × ToInject) :=
  ts.foldl (fun t d => addFlag t (topId - d) e) tbl

def parkS (e : List Tok × Nat) (s : RState) (t : Nat) : RState :=
  { s with onEndAfter := addFlag s.onEndAfter (top s.stack - t) e }

theorem foldl_park (e : List Tok × Nat) : ∀ (ts : List Nat) (s : RState),
    ts.foldl (parkS e) s = { s with onEndAfter := parkAllT s.onEndAfter (top s.stack) e ts } := by
  intro ts
  induction ts with
  | nil => intro s; rfl
  | cons t ts ih =>
    intro s
    simp only [List.foldl_cons, ih, parkAllT]
    rfl

theorem planSpecial_branch (s : RState) (done rest : List Instr) (c ins : Instr) (hk : ins.kind.isBranching = true)
    (hs : ins.semAfter ≠ []) (he : ins.blockEntry = []) (hx : ins.blockExit = []) (hb : s.body = done ++ c :: rest) :
    let s' := planSpecial s done.length ins
    (∃ c', s'.body = done ++ c' :: rest
      ∧ Chg c c' [tConst 1, tLocalSet s.nlocals]
          ([tConst 0, tLocalSet s.nlocals] ++ (match ins.kind with | .brIf _ => ins.semAfter | _ => [])))
    ∧ s'.onEndAfter = parkAllT s.onEndAfter (top s.stack) (ins.semAfter, s.nlocals) (branchTargets ins.kind)
    ∧ s'.nlocals = s.nlocals + 1 ∧ s'.added = s.added + 1
    ∧ s'.stack = s.stack ∧ s'.deleteBlock = s.deleteBlock ∧ s'.retainEnd = s.retainEnd ∧ s'.entry = s.entry ∧ s'.exit = s.exit
    ∧ s'.onElseOrEnd = s.onElseOrEnd ∧ s'.onEndBefore = s.onEndBefore := by
  have hi : ins.hasInstr = true := hasInstr_of_special ins (.inr (.inr (by cases h : ins.semAfter <;> simp_all)))
  have hse : ins.semAfter.isEmpty = false := by cases h : ins.semAfter <;> simp_all
  cases hkk : ins.kind <;> simp only [hkk, Kind.isBranching, Bool.false_eq_true] at hk
  · -- br
    simp only [planSpecial, hi, he, hx, hse, hkk, Bool.not_true, Bool.false_eq_true, if_false, List.isEmpty_nil, if_true,
      hb, addBefore, addAfter, modifyAt_mid]
    exact ⟨⟨_, rfl, rfl, rfl, rfl, rfl⟩, rfl, trivial, trivial, trivial, trivial, trivial, trivial, trivial, trivial, trivial⟩
  · -- br_if
    simp only [planSpecial, hi, he, hx, hse, hkk, Bool.not_true, Bool.false_eq_true, if_false, List.isEmpty_nil, if_true,
      hb, addBefore, addAfter, modifyAt_mid]
    exact ⟨⟨_, rfl, rfl, rfl, rfl, rfl⟩, rfl, trivial, trivial, trivial, trivial, trivial, trivial, trivial, trivial, trivial⟩
  · -- br_table
    rename_i ts d
    have e : planSpecial s done.length ins =
        (let s1 : RState := { s with body := addAfter (addBefore s.body done.length [tConst 1, tLocalSet s.nlocals]) done.length
                                        ([tConst 0, tLocalSet s.nlocals] ++ []), nlocals := s.nlocals + 1, added := s.added + 1 }
         let s2 := parkS (ins.semAfter, s.nlocals) (ts.foldl (parkS (ins.semAfter, s.nlocals)) s1) d
         { s2 with body := modifyAt s2.body done.length (fun i => { i with semAfter := [] }) }) := by
      simp only [planSpecial, hi, he, hx, hse, hkk, Bool.not_true, Bool.false_eq_true, if_false, List.isEmpty_nil, if_true]
      rfl
    rw [e]
    simp only [foldl_park, parkS, hb, addBefore, addAfter, modifyAt_mid]
    refine ⟨⟨_, rfl, rfl, rfl, rfl, rfl⟩, ?_, trivial, trivial, trivial, trivial, trivial, trivial, trivial, trivial, trivial⟩
    simp [parkAllT, branchTargets, List.foldl_append]

def parkAllF (fr : List Fr) (topId : Nat) (e : List Tok × Nat) (ts : List Nat) : List Fr :=
  ts.foldl (fun f d => parkFr f (topId - d) e) fr

/-- tables and frames stay in step while a branch parks its body at each of its targets -/
theorem parkAll_agree (topId : Nat) (e : List Tok × Nat) : ∀ (ts : List Nat) (tbl : List (Nat × ToInject)) (fr : List Fr),
    topId < fr.length →
    (∀ j, flat (getInj tbl j) = (frAt fr j).afterA) → (∀ j, (getInj tbl j).flagged = (frAt fr j).afterFl) →
    (∀ j, flat (getInj (parkAllT tbl topId e ts) j) = (frAt (parkAllF fr topId e ts) j).afterA)
    ∧ (∀ j, (getInj (parkAllT tbl topId e ts) j).flagged = (frAt (parkAllF fr topId e ts) j).afterFl)
    ∧ (∀ j, (frAt (parkAllF fr topId e ts) j).ifExit = (frAt fr j).ifExit)
    ∧ (∀ j, (frAt (parkAllF fr topId e ts) j).exitB = (frAt fr j).exitB)
    ∧ (parkAllF fr topId e ts).length = fr.length := by
  intro ts
  induction ts with
  | nil => intro tbl fr _ h3 h3f; exact ⟨h3, h3f, fun _ => rfl, fun _ => rfl, rfl⟩
  | cons d ts ih =>
    intro tbl fr hl h3 h3f
    have hk : topId - d < fr.length := by omega
    obtain ⟨a1, a2, a3, a4⟩ := park_agree tbl fr (topId - d) e hk h3 h3f
    have hl' : topId < (parkFr fr (topId - d) e).length := by rw [parkFr_length]; exact hl
    obtain ⟨b1, b2, b3, b4, b5⟩ := ih (addFlag tbl (topId - d) e) (parkFr fr (topId - d) e) hl' a1 a2
    refine ⟨b1, b2, fun j => ?_, fun j => ?_, ?_⟩
    · exact (b3 j).trans (a3 j)
    · exact (b4 j).trans (a4 j)
    · exact b5.trans (parkFr_length _ _ _)

/-- **a branch with a semantic-after probe** gets a flag local: set in front of the branch, cleared behind it; the body is parked, guarded
    by the flag, at every construct the branch may leave to (for `br_if` it also runs inline, behind the branch) -/
theorem rcore_branch (s : RState) (fr : List Fr) (done rest : List Instr) (c ins : Instr) (ht : Tied s fr) (hfr : fr ≠ [])
    (hk : ins.kind.isBranching = true) (hs : ins.semAfter ≠ []) (he : ins.blockEntry = []) (hx : ins.blockExit = [])
    (hb : s.body = done ++ c :: rest) :
    let s' := rcore s done.length ins
    Tied s' (parkAllF fr (fr.length - 1) (ins.semAfter, s.nlocals) (branchTargets ins.kind))
    ∧ s'.nlocals = s.nlocals + 1 ∧ s'.added = s.added + 1 ∧ s'.entry = s.entry ∧ s'.exit = s.exit
    ∧ ∃ c', s'.body = done ++ c' :: rest
        ∧ Chg c c' [tConst 1, tLocalSet s.nlocals]
            ([tConst 0, tLocalSet s.nlocals] ++ (match ins.kind with | .brIf _ => ins.semAfter | _ => [])) := by
  have hred : rcore s done.length ins = planSpecial s done.length ins := by
    cases hkk : ins.kind <;> simp_all [rcore, ht.del, Kind.isBranching]
  simp only [hred]
  obtain ⟨hc, p1, p2, p3, p4, p5, _, p7, p8, p9, p10⟩ := planSpecial_branch s done rest c ins hk hs he hx hb
  obtain ⟨n, hn⟩ : ∃ n, fr.length = n + 1 := by
    cases fr with
    | nil => exact absurd rfl hfr
    | cons a l => exact ⟨l.length, rfl⟩
  have htop : top s.stack = fr.length - 1 := by rw [ht.stack, hn, top_range_succ]; rfl
  rw [htop] at p1
  obtain ⟨b1, b2, b3, b4, b5⟩ := parkAll_agree (fr.length - 1) (ins.semAfter, s.nlocals) (branchTargets ins.kind) s.onEndAfter fr
    (by omega) ht.t3 ht.t3f
  refine ⟨⟨p5.trans ht.del, by rw [p4, ht.stack, b5], ?_, ?_, ?_, ?_, ?_, ?_⟩, p2, p3, p7, p8, hc⟩
  · intro k; rw [p9]; exact ht.f1 k
  · intro k; rw [p10]; exact ht.f2 k
  · intro k; rw [p9, ht.t1, b3]
  · intro k; rw [p10, ht.t2, b4]
  · intro k; rw [p1]; exact b1 k
  · intro k; rw [p1]; exact b2 k


/-! ### the function-level part -/

/-- function-level code in front of instruction `idx`: the entry code (followed by the opener of the wrapper block when there is exit
    code) in front of instruction 0; the exit code in front of every instruction that leaves the function, and — behind the `end` that
    closes the wrapper — in front of the final `end` -/
def fnPre (last : Nat) (E X : List Tok) (idx : Nat) (i : Instr) : List Tok :=
  (if idx = 0 then E else []) ++
  (if X.isEmpty then [] else if i.kind = .exitLike then X else if idx = last then tEnd :: X else [])

theorem addBefore_nil (b : List Instr) (done rest : List Instr) (c : Instr) (hb : b = done ++ c :: rest) (ts : List Tok) :
    addBefore b done.length ts = done ++ { c with mode := some .before, before := c.before ++ ts } :: rest := by
  rw [hb, addBefore, modifyAt_mid]

theorem rpre_spec (last : Nat) (s : RState) (done rest : List Instr) (c ins : Instr) (E X : List Tok)
    (hb : s.body = done ++ c :: rest) (hE : s.entry = if done.length = 0 then E else []) (hX : s.exit = X) :
    ∃ c' ex, rpre last s done.length ins = { s with body := done ++ c' :: rest, entry := [], exit := ex }
      ∧ Chg c c' (fnPre last E X done.length ins) [] ∧ (done.length < last → ex = X) := by
  cases done with
  | nil =>
    simp only [List.length_nil, if_true] at hE
    simp only [List.nil_append] at hb
    by_cases hEe : E = []
    · -- no entry code
      subst hEe
      by_cases hXe : X = []
      · subst hXe
        refine ⟨c, [], ?_, ?_, fun _ => rfl⟩
        · simp [rpre, hE, hX, hb]
          all_goals (cases s; simp_all)
        · simp [fnPre, Chg]
      · have hXi : X.isEmpty = false := by cases X <;> simp_all
        by_cases hx : ins.kind = .exitLike
        · refine ⟨{ c with mode := some .before, before := c.before ++ X }, X, ?_, ?_, fun _ => rfl⟩
          · simp [rpre, hE, hX, hb, hXi, hx, addBefore, modifyAt]
            all_goals (cases s; simp_all)
          · simp [fnPre, Chg, hXi, hx]
        · have hx' : (ins.kind == Kind.exitLike) = false := by simpa using hx
          by_cases hl : 0 = last
          · refine ⟨{ c with mode := some .before, before := c.before ++ (tEnd :: X) }, [], ?_, ?_, fun h => by omega⟩
            · simp [rpre, hE, hX, hb, hXi, hx', ← hl, addBefore, modifyAt]
              all_goals (cases s; simp_all)
            · simp [fnPre, Chg, hXi, hx, ← hl]
          · have hl' : (0 == last) = false := by simpa using hl
            refine ⟨c, X, ?_, ?_, fun _ => rfl⟩
            · simp [rpre, hE, hX, hb, hXi, hx', hl']
              all_goals (cases s; simp_all)
            · simp [fnPre, Chg, hXi, hx, hl]
    · have hEi : E.isEmpty = false := by cases E <;> simp_all
      by_cases hXe : X = []
      · subst hXe
        refine ⟨{ c with mode := some .before, before := c.before ++ E }, [], ?_, ?_, fun _ => rfl⟩
        · simp [rpre, hE, hX, hb, hEi, addBefore, modifyAt]
          all_goals (cases s; simp_all)
        · simp [fnPre, Chg]
      · have hXi : X.isEmpty = false := by cases X <;> simp_all
        by_cases hx : ins.kind = .exitLike
        · refine ⟨{ c with mode := some .before, before := c.before ++ E ++ X }, X, ?_, ?_, fun _ => rfl⟩
          · simp [rpre, hE, hX, hb, hEi, hXi, hx, addBefore, modifyAt]
          · simp [fnPre, Chg, hXi, hx]
        · have hx' : (ins.kind == Kind.exitLike) = false := by simpa using hx
          by_cases hl : 0 = last
          · refine ⟨{ c with mode := some .before, before := c.before ++ E ++ (tEnd :: X) }, [], ?_, ?_, fun h => by omega⟩
            · simp [rpre, hE, hX, hb, hEi, hXi, hx', ← hl, addBefore, modifyAt]
            · simp [fnPre, Chg, hXi, hx, ← hl]
          · have hl' : (0 == last) = false := by simpa using hl
            refine ⟨{ c with mode := some .before, before := c.before ++ E }, X, ?_, ?_, fun _ => rfl⟩
            · simp [rpre, hE, hX, hb, hEi, hXi, hx', hl', addBefore, modifyAt]
            · simp [fnPre, Chg, hXi, hx, hl]
  | cons d ds =>
    have hne : ¬ (d :: ds).length = 0 := by simp
    have hne' : ((d :: ds).length == 0) = false := by simp
    simp only [hne, if_false] at hE
    by_cases hXe : X = []
    · subst hXe
      refine ⟨c, [], ?_, ?_, fun _ => rfl⟩
      · simp only [rpre, hE, hX, List.isEmpty_nil, Bool.not_true, Bool.false_and, Bool.false_eq_true, if_false, if_true, hb]
        all_goals (cases s; simp_all)
      · simp [fnPre, Chg]
    · have hXi : X.isEmpty = false := by cases X <;> simp_all
      by_cases hx : ins.kind = .exitLike
      · refine ⟨{ c with mode := some .before, before := c.before ++ X }, X, ?_, ?_, fun _ => rfl⟩
        · simp only [rpre, hE, hX, List.isEmpty_nil, Bool.not_true, Bool.false_and, Bool.false_eq_true, if_false, hXi, hx, beq_self_eq_true,
            if_true, addBefore_nil _ _ _ _ hb]
          all_goals (cases s; simp_all)
        · simp [fnPre, Chg, hXi, hx]
      · have hx' : (ins.kind == Kind.exitLike) = false := by simpa using hx
        by_cases hl : (d :: ds).length = last
        · refine ⟨{ c with mode := some .before, before := c.before ++ (tEnd :: X) }, [], ?_, ?_, fun h => by omega⟩
          · simp only [rpre, hE, hX, List.isEmpty_nil, Bool.not_true, Bool.false_and, Bool.false_eq_true, if_false, hXi, hx', hl,
              beq_self_eq_true, if_true]
            rw [← hl, addBefore_nil _ _ _ _ hb]
            cases s; simp_all [tEnd]
          · simp only [List.length_cons] at hl; simp [fnPre, Chg, hXi, hx, hl]; intro h; omega
        · have hl' : ((d :: ds).length == last) = false := by simpa using hl
          refine ⟨c, X, ?_, ?_, fun _ => rfl⟩
          · simp only [rpre, hE, hX, List.isEmpty_nil, Bool.not_true, Bool.false_and, Bool.false_eq_true, if_false, hXi, hx', hl']
            all_goals (cases s; simp_all)
          · simp only [List.length_cons] at hl; simp [fnPre, Chg, hXi, hx, hl]


/-! ### the complete machine -/

/-- the scope: everything the injection API accepts — block-level lists and block alternates only on
    `block` / `loop` / `if` / `else`, semantic-after also on branches -/
structure PlainF (i : Instr) : Prop where
  altOnly : i.blockAlt.isSome = true → i.kind.isBlockStyle = true
  only : i.kind.isBlockStyle = false → i.blockEntry = [] ∧ i.blockExit = []
  semOnly : i.kind.isBlockStyle = false → i.kind.isBranching = false → i.semAfter = []

/-- a branch that carries a semantic-after probe -/
def flaggedBranch (i : Instr) : Bool := i.kind.isBranching && !i.semAfter.isEmpty

theorem branching_not_blockStyle {k : Kind} (h : k.isBranching = true) : k.isBlockStyle = false := by
  cases k <;> simp_all [Kind.isBranching, Kind.isBlockStyle]

theorem PlainF.plainA {i : Instr} (h : PlainF i) (hf : flaggedBranch i = false) : PlainA i := by
  refine ⟨h.altOnly, fun hb => ?_⟩
  obtain ⟨h1, h2⟩ := h.only hb
  refine ⟨?_, h1, h2⟩
  cases hbr : i.kind.isBranching with
  | false => exact h.semOnly hb hbr
  | true =>
    simp only [flaggedBranch, hbr, Bool.true_and, Bool.not_eq_false'] at hf
    exact List.isEmpty_iff.mp hf

/-- one instruction of the complete machine: frames, removal state, next free local, code in front (behind the instruction's `before`
    list and the function-level code), what stands in place of the token, code behind (behind the instruction's `after` list) -/
def specStepF (fr : List Fr) (del : Option Del) (nl : Nat) (i : Instr) :
    Option (List Fr × Option Del × Nat × List Tok × Option (List Tok) × List Tok) :=
  if flaggedBranch i then
    match del with
    | some _ => some (fr, del, nl, [], some [], [])
    | none =>
      if fr.isEmpty then none
      else
        some (parkAllF fr (fr.length - 1) (i.semAfter, nl) (branchTargets i.kind), none, nl + 1, [tConst 1, tLocalSet nl], i.alt,
          [tConst 0, tLocalSet nl] ++ (match i.kind with | .brIf _ => i.semAfter | _ => []))
  else (specStepA fr del i).map (fun r => (r.1, r.2.1, nl, r.2.2.1, r.2.2.2.1, r.2.2.2.2))

/-- **the encoded function according to the complete machine**, and the first local index the lowering did not use -/
def specRunF (last : Nat) (E X : List Tok) : Nat → List Fr → Option Del → Nat → List Instr → Option (List Tok × Nat)
  | _, fr, _, nl, [] => if fr.isEmpty then some ([], nl) else none
  | idx, fr, del, nl, i :: is =>
    match specStepF fr del nl i with
    | none => none
    | some (fr', del', nl', b, alt, a) =>
      if fr'.isEmpty && !is.isEmpty then none
      else
        match specRunF last E X (idx + 1) fr' del' nl' is with
        | none => none
        | some (rest, nlf) =>
          some (i.before ++ fnPre last E X idx i ++ b ++ (if idx ≥ last then [i.tok] else alt.getD [i.tok])
                 ++ (if idx ≥ last then [] else i.after ++ a) ++ rest, nlf)

theorem TiedA.congr {s s' : RState} {fr : List Fr} {del : Option Del} (h : TiedA s fr del) (h1 : s'.stack = s.stack)
    (h2 : s'.deleteBlock = s.deleteBlock) (h3 : s'.retainEnd = s.retainEnd) (h4 : s'.onElseOrEnd = s.onElseOrEnd)
    (h5 : s'.onEndBefore = s.onEndBefore) (h6 : s'.onEndAfter = s.onEndAfter) : TiedA s' fr del :=
  ⟨⟨h1.trans h.tabs.stack, by rw [h4]; exact h.tabs.f1, by rw [h5]; exact h.tabs.f2, by rw [h4]; exact h.tabs.t1,
     by rw [h5]; exact h.tabs.t2, by rw [h6]; exact h.tabs.t3, by rw [h6]; exact h.tabs.t3f⟩,
   h2.trans h.hdel, fun dl hd => by rw [h3]; exact h.inv dl hd⟩

/-- **one step of the core is one step of the complete machine** -/
theorem rcoreF_tied (s : RState) (fr : List Fr) (del : Option Del) (done rest : List Instr) (c ins : Instr) (hp : PlainF ins)
    (hca : c.alt = ins.alt) (ht : TiedA s fr del) (hb : s.body = done ++ c :: rest) (fr' : List Fr) (del' : Option Del) (nl' : Nat)
    (B : List Tok) (alt : Option (List Tok)) (A : List Tok) (hs : specStepF fr del s.nlocals ins = some (fr', del', nl', B, alt, A)) :
    let s' := rcore s done.length ins
    TiedA s' fr' del' ∧ s'.nlocals = nl' ∧ s'.added + s.nlocals = s.added + nl' ∧ s'.entry = s.entry ∧ s'.exit = s.exit
      ∧ ∃ c', s'.body = done ++ c' :: rest ∧ ChgA c c' B alt A := by
  cases hf : flaggedBranch ins with
  | false =>
    simp only [specStepF, hf, Bool.false_eq_true, if_false, Option.map_eq_some_iff] at hs
    obtain ⟨r, hr, he⟩ := hs
    obtain ⟨r1, r2, r3, r4, r5⟩ := r
    simp only [Prod.mk.injEq] at he
    obtain ⟨rfl, rfl, rfl, rfl, rfl, rfl⟩ := he
    obtain ⟨t, ⟨n1, n2, n3, n4⟩, hc⟩ := rcoreA_tied s fr del done rest c ins (hp.plainA hf) hca ht hb _ _ _ _ _ hr
    exact ⟨t, n1, by rw [n2], n3, n4, hc⟩
  | true =>
    have hbr : ins.kind.isBranching = true := by simp only [flaggedBranch, Bool.and_eq_true] at hf; exact hf.1
    have hsem : ins.semAfter ≠ [] := by
      simp only [flaggedBranch, Bool.and_eq_true, Bool.not_eq_true'] at hf
      intro e; rw [e] at hf; simp at hf
    obtain ⟨he, hx⟩ := hp.only (branching_not_blockStyle hbr)
    cases del with
    | some dl =>
      simp only [specStepF, hf, if_true, Option.some.injEq, Prod.mk.injEq] at hs
      obtain ⟨rfl, rfl, rfl, rfl, rfl, rfl⟩ := hs
      have hk : ins.kind ≠ .block ∧ ins.kind ≠ .loop ∧ ins.kind ≠ .if_ ∧ ins.kind ≠ .else_ ∧ ins.kind ≠ .end_ := by
        cases hkk : ins.kind <;> simp_all [Kind.isBranching]
      obtain ⟨t, ⟨n1, n2, n3, n4⟩, hb'⟩ := rcoreA_removed_other s fr dl done rest c ins ht hb hk
      exact ⟨t, n1, by rw [n2], n3, n4, mark c, hb', mark_chgA c⟩
    | none =>
      cases hfe : fr.isEmpty with
      | true => simp [specStepF, hf, hfe] at hs
      | false =>
        simp only [specStepF, hf, hfe, if_true, Bool.false_eq_true, if_false, Option.some.injEq, Prod.mk.injEq] at hs
        obtain ⟨rfl, rfl, rfl, rfl, rfl, rfl⟩ := hs
        have hfr : fr ≠ [] := by intro e; rw [e] at hfe; simp at hfe
        obtain ⟨t, n1, n2, n3, n4, c', hb', hc'⟩ := rcore_branch s fr done rest c ins ht.tied hfr hbr hsem he hx hb
        exact ⟨t.tiedA, n1, by rw [n2]; omega, n3, n4, c', hb', hc'.chgA hca⟩


/-- **the whole loop**, function-level code included -/
theorem rloopF_tied (last : Nat) (E X : List Tok) : ∀ (xs : List Instr) (s : RState) (fr : List Fr) (del : Option Del) (done : List Instr)
    (out : List Tok) (nlf : Nat),
    (∀ x ∈ xs, PlainF x) → TiedA s fr del → s.entry = (if done.length = 0 then E else []) → (xs ≠ [] → s.exit = X) →
    s.body = done ++ xs → done.length + xs.length ≤ last + 1 → specRunF last E X done.length fr del s.nlocals xs = some (out, nlf) →
    let s' := rloop last s done.length xs
    ∃ done', s'.body = done ++ done' ∧ done'.length = xs.length ∧ emitFrom last done.length done' = out ∧ s'.nlocals = nlf
      ∧ s'.added + s.nlocals = s.added + nlf := by
  intro xs
  induction xs with
  | nil =>
    intro s fr del done out nlf _ _ _ _ hb _ hs
    simp only [specRunF] at hs
    split at hs
    · simp only [Option.some.injEq, Prod.mk.injEq] at hs
      obtain ⟨rfl, rfl⟩ := hs
      exact ⟨[], by simpa [rloop] using hb, rfl, rfl, rfl, rfl⟩
    · cases hs
  | cons x xs ih =>
    intro s fr del done out nlf hp ht hen hex hb hlen hs
    simp only [specRunF] at hs
    cases h1 : specStepF fr del s.nlocals x with
    | none => simp [h1] at hs
    | some r =>
      obtain ⟨fr', del', nl', B, alt, A⟩ := r
      simp only [h1] at hs
      split at hs
      · cases hs
      cases h2 : specRunF last E X (done.length + 1) fr' del' nl' xs with
      | none => simp [h2] at hs
      | some r2 =>
        obtain ⟨outr, nlr⟩ := r2
        simp only [h2, Option.some.injEq, Prod.mk.injEq] at hs
        obtain ⟨hs, rfl⟩ := hs
        have hpx := hp x (List.mem_cons_self ..)
        -- the function-level part
        obtain ⟨c1, ex, hpre, hc1, hex1⟩ := rpre_spec last s done xs x x E X hb hen (hex (by simp))
        have ht1 : TiedA (rpre last s done.length x) fr del := by rw [hpre]; exact ht.congr rfl rfl rfl rfl rfl rfl
        have hb1 : (rpre last s done.length x).body = done ++ c1 :: xs := by rw [hpre]
        have hnl1 : (rpre last s done.length x).nlocals = s.nlocals := by rw [hpre]
        have hadd1 : (rpre last s done.length x).added = s.added := by rw [hpre]
        have hen1 : (rpre last s done.length x).entry = [] := by rw [hpre]
        have hex1' : (rpre last s done.length x).exit = ex := by rw [hpre]
        -- the core
        obtain ⟨t, n1, n2, n3, n4, c', hb', cb, ca, cal, ctok⟩ :=
          rcoreF_tied (rpre last s done.length x) fr del done xs c1 x hpx hc1.2.2.1 ht1 hb1 fr' del' nl' B alt A
            (by rw [hnl1]; exact h1)
        rw [← rstep_eq] at t n1 n2 n3 n4 hb'
        have hb2 : (rstep last s done.length x).body = (done ++ [c']) ++ xs := by rw [hb']; simp
        have hlenc : (done ++ [c']).length = done.length + 1 := by simp
        have hlen' : (done ++ [c']).length + xs.length ≤ last + 1 := by rw [hlenc]; simp only [List.length_cons] at hlen; omega
        obtain ⟨d', e1, e0, e2, e3, e4⟩ := ih (rstep last s done.length x) fr' del' (done ++ [c']) outr nlr
          (fun y hy => hp y (List.mem_cons_of_mem _ hy)) t
          (by rw [n3, hen1, hlenc]; simp)
          (fun hne => by
            rw [n4, hex1']
            apply hex1
            have : xs.length ≥ 1 := List.length_pos_iff.mpr hne
            simp only [List.length_cons] at hlen; omega)
          hb2 hlen' (by rw [hlenc, n1]; exact h2)
        refine ⟨c' :: d', ?_, by simp [e0], ?_, ?_, ?_⟩
        · simp only [rloop]; rw [← hlenc, e1]; simp
        · simp only [emitFrom, cb, ca, cal, ctok, hc1.1, hc1.2.1, hc1.2.2.2]
          rw [← hlenc, e2, ← hs]
          cases alt <;> by_cases hl : done.length ≥ last <;> simp [hl]
        · simp only [rloop]; rw [← hlenc, e3]
        · simp only [rloop]; rw [← hlenc]
          rw [hnl1, hadd1] at n2
          rw [n1] at e4
          omega

theorem plainF_modifyAt_mode (xs : List Instr) (j : Nat) (m : Option Mode) (hp : ∀ x ∈ xs, PlainF x) :
    ∀ y ∈ modifyAt xs j (fun i => { i with mode := m }), PlainF y := by
  intro y hy
  unfold modifyAt at hy
  cases h : xs[j]? with
  | none => simp only [h] at hy; exact hp y hy
  | some x =>
    simp only [h] at hy
    rcases List.mem_or_eq_of_mem_set hy with h1 | h1
    · exact hp y h1
    · have hx : x ∈ xs := List.mem_of_getElem? h
      have px := hp x hx
      subst h1
      exact ⟨px.altOnly, px.only, px.semOnly⟩

theorem specStepF_stripMode (fr : List Fr) (del : Option Del) (nl : Nat) (i : Instr) :
    specStepF fr del nl (stripMode i) = specStepF fr del nl i := rfl

theorem specRunF_stripMode (last : Nat) (E X : List Tok) : ∀ (xs : List Instr) (idx : Nat) (fr : List Fr) (del : Option Del) (nl : Nat),
    specRunF last E X idx fr del nl (xs.map stripMode) = specRunF last E X idx fr del nl xs := by
  intro xs
  induction xs with
  | nil => intro idx fr del nl; rfl
  | cons x xs ih =>
    intro idx fr del nl
    simp only [List.map_cons, specRunF, specStepF_stripMode]
    cases specStepF fr del nl x with
    | none => rfl
    | some r =>
      have : (xs.map stripMode).isEmpty = xs.isEmpty := by cases xs <;> rfl
      simp only [ih, this]; rfl

/-- the entry code the resolver works with: when there is exit code, the opener of the wrapper block follows the entry code -/
def entryToks (f : Func) : List Tok := if f.exit.isEmpty then f.entry else f.entry ++ [tWrapper]

/-- **The resolver refines the complete machine.** For every function and every plan of `before` / `after` code anywhere, block-entry /
    block-exit / semantic-after probes and block alternates on any constructs, semantic-after probes on any branches, and function
    entry / exit code — any number of each, in any combination, nested in any way: the encoded body is the one `specRunF` gives, and the
    lowering adds exactly the flag locals the machine counts. -/
theorem lower_eq_specF (f : Func) (hsp : f.hasSpecial = true) (hp : ∀ x ∈ f.body, PlainF x) (out : List Tok) (nlf : Nat)
    (hs : specRunF (f.body.length - 1) (entryToks f) f.exit 0 [{}] none f.nlocals f.body = some (out, nlf)) :
    lower f = (out, f.added + (nlf - f.nlocals)) := by
  let body0 := modifyAt f.body (f.body.length - 1) (fun i => { i with mode := some .before })
  have hp0 : ∀ x ∈ body0, PlainF x := plainF_modifyAt_mode f.body _ _ hp
  have hs0 : specRunF (f.body.length - 1) (entryToks f) f.exit 0 [{}] none f.nlocals body0 = some (out, nlf) := by
    rw [← specRunF_stripMode, map_stripMode_modifyAt, specRunF_stripMode]; exact hs
  have hlen0 : body0.length = f.body.length := by
    show (modifyAt f.body _ _).length = _
    unfold modifyAt; split <;> simp
  obtain ⟨d', e1, e0, e2, e3, e4⟩ := rloopF_tied (f.body.length - 1) (entryToks f) f.exit body0
    { body := body0, entry := entryToks f, exit := f.exit, nlocals := f.nlocals } [{}] none [] out nlf hp0
    (tied_init body0 (entryToks f) f.exit f.nlocals).tiedA (by simp) (fun _ => rfl) (by simp)
    (by simp only [List.length_nil, hlen0]; omega) hs0
  simp only [List.length_nil, List.nil_append] at e1 e2 e3 e4
  have hd' : d'.length = f.body.length := by rw [e0, hlen0]
  unfold lower resolveSpecial
  simp only [hsp, Bool.not_true, Bool.false_eq_true, if_false]
  refine Prod.ext ?_ ?_
  · show emitFrom ((rloop (f.body.length - 1) { body := body0, entry := entryToks f, exit := f.exit, nlocals := f.nlocals } 0 body0).body.length - 1) 0
      (rloop (f.body.length - 1) { body := body0, entry := entryToks f, exit := f.exit, nlocals := f.nlocals } 0 body0).body = out
    rw [e1, hd']; exact e2
  · show f.added + (rloop (f.body.length - 1) { body := body0, entry := entryToks f, exit := f.exit, nlocals := f.nlocals } 0 body0).added
      = f.added + (nlf - f.nlocals)
    have : (rloop (f.body.length - 1) { body := body0, entry := entryToks f, exit := f.exit, nlocals := f.nlocals } 0 body0).added + f.nlocals
        = 0 + nlf := e4
    omega

/-- **function-level code always comes out**: in what the complete machine emits for a non-empty body, every token of the entry code
    (when the run starts at instruction 0) and every token of the exit code (in front of the final `end` at the latest) is present -/
theorem specRunF_keeps_fn (last : Nat) (E X : List Tok) : ∀ (xs : List Instr) (idx : Nat) (fr : List Fr) (del : Option Del) (nl : Nat)
    (out : List Tok) (nlf : Nat), specRunF last E X idx fr del nl xs = some (out, nlf) → idx + xs.length = last + 1 → xs ≠ [] →
    (∀ t ∈ X, t ∈ out) ∧ (idx = 0 → ∀ t ∈ E, t ∈ out) := by
  intro xs
  induction xs with
  | nil => intro _ _ _ _ _ _ _ _ h; exact absurd rfl h
  | cons x xs ih =>
    intro idx fr del nl out nlf hs hl _
    simp only [specRunF] at hs
    cases h1 : specStepF fr del nl x with
    | none => simp [h1] at hs
    | some r =>
      obtain ⟨fr', del', nl', B, alt, A⟩ := r
      simp only [h1] at hs
      split at hs
      · cases hs
      cases h2 : specRunF last E X (idx + 1) fr' del' nl' xs with
      | none => simp [h2] at hs
      | some r2 =>
        obtain ⟨outr, nlr⟩ := r2
        simp only [h2, Option.some.injEq, Prod.mk.injEq] at hs
        obtain ⟨hs, _⟩ := hs
        have inP : ∀ t ∈ fnPre last E X idx x, t ∈ out := by intro t ht; rw [← hs]; simp [ht]
        have inR : ∀ t ∈ outr, t ∈ out := by intro t ht; rw [← hs]; simp [ht]
        refine ⟨fun t ht => ?_, fun h0 t ht => inP t (by simp [fnPre, h0, ht])⟩
        by_cases hx : xs = []
        · -- the last instruction
          subst hx
          have hlast : idx = last := by simp at hl; omega
          have hXi : X.isEmpty = false := by cases X <;> simp_all
          apply inP
          by_cases hk : x.kind = .exitLike <;> simp [fnPre, hXi, hk, hlast, ht]
        · exact inR t ((ih (idx + 1) fr' del' nl' outr nlr h2 (by simp only [List.length_cons] at hl; omega) hx).1 t ht)

/-- **no function-level probe is lost, for any plan**: whatever else is injected into the function — block-level probes, alternates,
    semantic-after probes on branches —, every token of the function-entry code and of the function-exit code is in the encoded body -/
theorem lower_keeps_fn (f : Func) (hsp : f.hasSpecial = true) (hp : ∀ x ∈ f.body, PlainF x) (out : List Tok) (nlf : Nat)
    (hne : f.body ≠ [])
    (hs : specRunF (f.body.length - 1) (entryToks f) f.exit 0 [{}] none f.nlocals f.body = some (out, nlf)) :
    (∀ t ∈ f.entry, t ∈ (lower f).1) ∧ (∀ t ∈ f.exit, t ∈ (lower f).1) := by
  rw [lower_eq_specF f hsp hp out nlf hs]
  have hl : 0 + f.body.length = f.body.length - 1 + 1 := by
    have : f.body.length ≥ 1 := List.length_pos_iff.mpr hne
    omega
  obtain ⟨k1, k2⟩ := specRunF_keeps_fn (f.body.length - 1) (entryToks f) f.exit f.body 0 [{}] none f.nlocals out nlf hs hl hne
  refine ⟨fun t ht => k2 rfl t ?_, k1⟩
  unfold entryToks
  split <;> simp [ht]

/-! ### nothing is lost on the complete machine (plans without block alternates) -/

theorem mem_chain (fl : List (List Tok × Nat)) : ∀ (first : Bool) (e : List Tok × Nat) (t : Tok), e ∈ fl → t ∈ e.1 →
    t ∈ resolveBodies.chain fl first := by
  induction fl with
  | nil => intro _ _ _ h; cases h
  | cons a fl ih =>
    intro first e t he ht
    obtain ⟨body, flg⟩ := a
    rcases List.mem_cons.mp he with rfl | he
    · cases first <;> simp [resolveBodies.chain, ht]
    · have := ih false e t he ht
      cases first <;> simp [resolveBodies.chain, this]

theorem mem_chainToks (fl : List (List Tok × Nat)) (e : List Tok × Nat) (t : Tok) (he : e ∈ fl) (ht : t ∈ e.1) : t ∈ chainToks fl := by
  unfold chainToks
  exact List.mem_append_left _ (mem_chain fl true e t he ht)

theorem mem_endAfter (f : Fr) (t : Tok) (h : t ∈ f.afterA ∨ ∃ e ∈ f.afterFl, t ∈ e.1) : t ∈ endAfter f := by
  unfold endAfter
  rcases h with h | ⟨e, he, ht⟩
  · exact List.mem_append_right _ h
  · exact List.mem_append_left _ (mem_chainToks _ e t he ht)

/-- what parking a branch's body does to the frames, by block id -/
theorem parkAllF_spec (topId : Nat) (e : List Tok × Nat) : ∀ (ts : List Nat) (fr : List Fr), topId < fr.length →
    (parkAllF fr topId e ts).length = fr.length
    ∧ (∀ k, (frAt (parkAllF fr topId e ts) k).ifExit = (frAt fr k).ifExit ∧ (frAt (parkAllF fr topId e ts) k).exitB = (frAt fr k).exitB
        ∧ (frAt (parkAllF fr topId e ts) k).afterA = (frAt fr k).afterA)
    ∧ (∀ k e', e' ∈ (frAt fr k).afterFl → e' ∈ (frAt (parkAllF fr topId e ts) k).afterFl)
    ∧ (∀ t ∈ ts, e ∈ (frAt (parkAllF fr topId e ts) (topId - t)).afterFl) := by
  intro ts
  induction ts with
  | nil => intro fr _; exact ⟨rfl, fun _ => ⟨rfl, rfl, rfl⟩, fun _ _ h => h, fun _ h => by cases h⟩
  | cons d ts ih =>
    intro fr hl
    have hk : topId - d < fr.length := by omega
    have hl' : topId < (parkFr fr (topId - d) e).length := by rw [parkFr_length]; exact hl
    obtain ⟨a1, a2, a3, a4⟩ := ih (parkFr fr (topId - d) e) hl'
    have step : ∀ k, frAt (parkFr fr (topId - d) e) k
        = if k = topId - d then { frAt fr (topId - d) with afterFl := (frAt fr (topId - d)).afterFl ++ [e] } else frAt fr k :=
      fun k => frAt_parkFr fr (topId - d) k e hk
    refine ⟨a1.trans (parkFr_length _ _ _), fun k => ?_, fun k e' he' => ?_, fun t ht => ?_⟩
    · obtain ⟨b1, b2, b3⟩ := a2 k
      refine ⟨b1.trans ?_, b2.trans ?_, b3.trans ?_⟩ <;> rw [step k] <;> by_cases hkk : k = topId - d <;> simp [hkk]
    · apply a3 k e'
      rw [step k]
      by_cases hkk : k = topId - d
      · subst hkk; simp [he']
      · simpa [hkk] using he'
    · rcases List.mem_cons.mp ht with rfl | ht
      · apply a3
        rw [step]; simp
      · exact a4 t ht

theorem dropLast_eq_rev (fr : List Fr) : fr.dropLast = (fr.reverse.tail).reverse := by
  rw [List.tail_reverse, List.reverse_reverse]

theorem frAt_succ (fr : List Fr) (j : Nat) : frAt fr (j + 1) = (fr.reverse.tail[j]?).getD {} := by
  unfold frAt
  rw [List.getElem?_tail]

theorem frAt_mem_dropLast (fr : List Fr) (k : Nat) (h1 : 1 ≤ k) (h2 : k < fr.length) : frAt fr k ∈ fr.dropLast := by
  obtain ⟨j, rfl⟩ : ∃ j, k = j + 1 := ⟨k - 1, by omega⟩
  rw [frAt_succ, dropLast_eq_rev, List.mem_reverse]
  have hl : j < fr.reverse.tail.length := by simp; omega
  rw [List.getElem?_eq_getElem hl]
  exact List.getElem_mem _

theorem mem_dropLast_frAt (fr : List Fr) (f : Fr) (h : f ∈ fr.dropLast) : ∃ k, 1 ≤ k ∧ k < fr.length ∧ frAt fr k = f := by
  rw [dropLast_eq_rev, List.mem_reverse] at h
  obtain ⟨j, hj, rfl⟩ := List.getElem_of_mem h
  have hlen : fr.reverse.tail.length = fr.length - 1 := by simp
  refine ⟨j + 1, by omega, by omega, ?_⟩
  rw [frAt_succ, List.getElem?_eq_getElem hj]
  rfl


def depthNext (k : Kind) (d : Nat) : Nat :=
  match k with
  | .block | .loop | .if_ => d + 1
  | .end_ => d - 1
  | _ => d

/-- what the encoded function must contain of one instruction's instrumentation, at nesting depth `d` (number of open constructs): its
    `before` code; on a construct its block-entry, block-exit and semantic-after code; on a branch its semantic-after code — unless every
    target of the branch is the function's own label and the branch is not a conditional one (finding F15) -/
def keptOne (d : Nat) (x : Instr) (out : List Tok) : Prop :=
  (∀ t ∈ x.before, t ∈ out)
  ∧ (x.kind.isBlockStyle = true → ∀ t, t ∈ x.blockEntry ∨ t ∈ x.blockExit ∨ t ∈ x.semAfter → t ∈ out)
  ∧ (flaggedBranch x = true → ((∃ n, x.kind = .brIf n) ∨ ∃ t ∈ branchTargets x.kind, t < d) → ∀ t ∈ x.semAfter, t ∈ out)

def KeptAll : Nat → List Instr → List Tok → Prop
  | _, [], _ => True
  | d, x :: xs, out => keptOne d x out ∧ KeptAll (depthNext x.kind d) xs out

theorem keptOne_mono {d : Nat} {x : Instr} {o o' : List Tok} (h : keptOne d x o) (hs : ∀ t ∈ o, t ∈ o') : keptOne d x o' :=
  ⟨fun t ht => hs t (h.1 t ht), fun hb t ht => hs t (h.2.1 hb t ht), fun hf hc t ht => hs t (h.2.2 hf hc t ht)⟩

theorem KeptAll_mono : ∀ (xs : List Instr) (d : Nat) (o o' : List Tok), KeptAll d xs o → (∀ t ∈ o, t ∈ o') → KeptAll d xs o' := by
  intro xs
  induction xs with
  | nil => intro _ _ _ _ _; trivial
  | cons x xs ih => intro d o o' h hs; exact ⟨keptOne_mono h.1 hs, ih _ o o' h.2 hs⟩

/-- without a block alternate and outside a removed region, the extended machine steps like the plain one -/
theorem specStepA_plain (fr : List Fr) (x : Instr) (hba : x.blockAlt = none) :
    specStepA fr none x = (specStep fr x).map (fun r => (r.1, none, r.2.1, x.alt, r.2.2)) := by
  cases hk : x.kind with
  | block | loop | if_ => simp [specStepA, specStep, hk, hba]
  | else_ =>
    cases fr with
    | nil => simp [specStepA, specStep, hk]
    | cons top rfr =>
      cases rfr with
      | nil => simp [specStepA, specStep, hk]
      | cons below rest => simp [specStepA, specStep, hk, hba]
  | end_ =>
    cases fr with
    | nil => simp [specStepA, specStep, hk]
    | cons top rfr => simp [specStepA, specStep, hk]
  | br _ | brIf _ | brTable _ _ | exitLike | other => simp [specStepA, specStep, hk]


/-- **every probe the complete machine is given comes out**, for plans without block alternates: what waits in the frames (the function
    body's own frame excepted for code behind its `end`), and of the instructions still to come everything `keptOne` lists -/
theorem specRunF_keeps (last : Nat) (E X : List Tok) : ∀ (xs : List Instr) (idx : Nat) (fr : List Fr) (nl : Nat) (out : List Tok) (nlf : Nat),
    specRunF last E X idx fr none nl xs = some (out, nlf) → (∀ x ∈ xs, x.blockAlt = none) → idx + xs.length ≤ last + 1 →
    fr ≠ [] ∨ xs = [] →
    (∀ k, k < fr.length → ∀ t, t ∈ (frAt fr k).ifExit ∨ t ∈ (frAt fr k).exitB → t ∈ out)
    ∧ (∀ k, 1 ≤ k → k < fr.length → ∀ t, (t ∈ (frAt fr k).afterA ∨ ∃ e ∈ (frAt fr k).afterFl, t ∈ e.1) → t ∈ out)
    ∧ KeptAll (fr.length - 1) xs out := by
  intro xs
  induction xs with
  | nil =>
    intro idx fr nl out nlf hs _ _ _
    simp only [specRunF] at hs
    split at hs
    · rename_i he
      have : fr = [] := List.isEmpty_iff.mp he
      subst this
      exact ⟨fun k hk => by simp at hk, fun k _ hk => by simp at hk, trivial⟩
    · cases hs
  | cons x xs ih =>
    intro idx fr nl out nlf hs hna hl hfr
    have hfr' : fr ≠ [] := by rcases hfr with h | h; exact h; cases h
    have hn1 : 1 ≤ fr.length := List.length_pos_iff.mpr hfr'
    have hbax : x.blockAlt = none := hna x (List.mem_cons_self ..)
    simp only [specRunF] at hs
    cases h1 : specStepF fr none nl x with
    | none => simp [h1] at hs
    | some r =>
      obtain ⟨fr', del', nl', B, alt, A⟩ := r
      simp only [h1] at hs
      split at hs
      · cases hs
      rename_i hguard
      cases h2 : specRunF last E X (idx + 1) fr' del' nl' xs with
      | none => simp [h2] at hs
      | some r2 =>
        obtain ⟨outr, nlr⟩ := r2
        simp only [h2, Option.some.injEq, Prod.mk.injEq] at hs
        obtain ⟨hs, _⟩ := hs
        have hguard' : fr' ≠ [] ∨ xs = [] := by
          by_cases hx : xs = []
          · exact .inr hx
          · left; intro e; subst e
            have : xs.isEmpty = false := by cases xs with | nil => exact absurd rfl hx | cons _ _ => rfl
            simp [this] at hguard
        have hl' : idx + 1 + xs.length ≤ last + 1 := by simp only [List.length_cons] at hl; omega
        have hna' : ∀ y ∈ xs, y.blockAlt = none := fun y hy => hna y (List.mem_cons_of_mem _ hy)
        have inX : ∀ t ∈ x.before, t ∈ out := by intro t ht; rw [← hs]; simp [ht]
        have inB : ∀ t ∈ B, t ∈ out := by intro t ht; rw [← hs]; simp [ht]
        have inR : ∀ t ∈ outr, t ∈ out := by intro t ht; rw [← hs]; simp [ht]
        have inA : xs ≠ [] → ∀ t ∈ A, t ∈ out := by
          intro hx t ht
          have hlt : ¬ idx ≥ last := by
            have : xs.length ≥ 1 := List.length_pos_iff.mpr hx
            simp only [List.length_cons] at hl; omega
          rw [← hs]; simp [hlt, ht]
        -- more than the function's own frame is open: this is not the last instruction
        have hxs_of : fr'.length ≥ 1 → xs ≠ [] := by
          intro hge e; subst e
          simp only [specRunF] at h2
          split at h2
          · rename_i he
            have : fr' = [] := List.isEmpty_iff.mp he
            rw [this] at hge; simp at hge
          · cases h2
        cases hf : flaggedBranch x with
        | true =>
          -- a branch with a semantic-after probe
          have hbr : x.kind.isBranching = true := by simp only [flaggedBranch, Bool.and_eq_true] at hf; exact hf.1
          have hfe : fr.isEmpty = false := by cases fr with | nil => exact absurd rfl hfr' | cons _ _ => rfl
          simp only [specStepF, hf, hfe, if_true, Bool.false_eq_true, if_false, Option.some.injEq, Prod.mk.injEq] at h1
          obtain ⟨rfl, rfl, rfl, rfl, rfl, rfl⟩ := h1
          obtain ⟨p1, p2, p3, p4⟩ := parkAllF_spec (fr.length - 1) (x.semAfter, nl) (branchTargets x.kind) fr (by omega)
          obtain ⟨k1, k2, k3⟩ := ih (idx + 1) _ (nl + 1) outr nlr h2 hna' hl' hguard'
          rw [p1] at k1 k2 k3
          have hxs : xs ≠ [] := hxs_of (by rw [p1]; exact hn1)
          refine ⟨fun k hk t ht => inR t (k1 k hk t (by rw [(p2 k).1, (p2 k).2.1]; exact ht)), fun k hk1 hk t ht => ?_, ?_, ?_⟩
          · apply inR t
            apply k2 k hk1 hk t
            rcases ht with ht | ⟨e, he, ht⟩
            · left; rw [(p2 k).2.2]; exact ht
            · right; exact ⟨e, p3 k e he, ht⟩
          · refine ⟨inX, fun hb => ?_, fun _ hc t ht => ?_⟩
            · rw [branching_not_blockStyle hbr] at hb; cases hb
            · rcases hc with ⟨n, hn⟩ | ⟨d, hd, hlt⟩
              · exact inA hxs t (by simp [hn, ht])
              · have hkey : 1 ≤ fr.length - 1 - d ∧ fr.length - 1 - d < fr.length := by omega
                exact inR t (k2 _ hkey.1 hkey.2 t (.inr ⟨(x.semAfter, nl), p4 d hd, ht⟩))
          · have hd : depthNext x.kind (fr.length - 1) = fr.length - 1 := by
              cases hk : x.kind <;> simp_all [depthNext, Kind.isBranching]
            rw [hd]
            exact KeptAll_mono xs _ outr out k3 inR
        | false =>
          simp only [specStepF, hf, Bool.false_eq_true, if_false, specStepA_plain fr x hbax, Option.map_map, Option.map_eq_some_iff] at h1
          obtain ⟨r, hr, he⟩ := h1
          obtain ⟨r1, r2, r3⟩ := r
          simp only [Function.comp, Prod.mk.injEq] at he
          obtain ⟨rfl, rfl, rfl, rfl, rfl, rfl⟩ := he
          obtain ⟨k1, k2, k3⟩ := ih (idx + 1) r1 nl outr nlr h2 hna' hl' hguard'
          have nof : flaggedBranch x = true → False := by rw [hf]; intro h; cases h
          cases hk : x.kind with
          | block | loop | if_ =>
            all_goals
              simp only [specStep, hk, Option.some.injEq, Prod.mk.injEq] at hr
              obtain ⟨rfl, rfl, rfl⟩ := hr
              have hxs : xs ≠ [] := hxs_of (by simp)
              simp only [List.length_cons] at k1 k2 k3
              have hsame : ∀ (f : Fr) k, k < fr.length → frAt (f :: fr) k = frAt fr k := fun f k hk' => frAt_cons_lt f fr k hk'
              refine ⟨fun k hk' t ht => inR t (k1 k (by omega) t (by rw [hsame _ k hk']; exact ht)),
                fun k hk1 hk' t ht => inR t (k2 k hk1 (by omega) t (by rw [hsame _ k hk']; exact ht)), ?_, ?_⟩
              · refine ⟨inX, fun _ t ht => ?_, fun h => (nof h).elim⟩
                rcases ht with ht | ht | ht
                · exact inA hxs t ht
                · exact inR t (k1 fr.length (by omega) t (by rw [frAt_cons_top]; simp [ht]))
                · exact inR t (k2 fr.length hn1 (by omega) t (by rw [frAt_cons_top]; simp [ht]))
              · have hd : depthNext x.kind (fr.length - 1) = fr.length + 1 - 1 := by simp [hk, depthNext]; omega
                rw [hd]
                exact KeptAll_mono xs _ outr out k3 inR
          | else_ =>
            cases fr with
            | nil => exact absurd rfl hfr'
            | cons top rfr =>
              cases rfr with
              | nil => simp [specStep, hk] at hr
              | cons below rest =>
                simp only [specStep, hk, Option.some.injEq, Prod.mk.injEq] at hr
                obtain ⟨rfl, rfl, rfl⟩ := hr
                have hxs : xs ≠ [] := hxs_of (by simp)
                simp only [List.length_cons] at k1 k2 k3 ⊢
                have htop : ∀ f : Fr, frAt (f :: below :: rest) (rest.length + 1) = f := fun f => by
                  have := frAt_cons_top f (below :: rest); simpa using this
                have hsame : ∀ (f g : Fr) k, k < rest.length + 1 → frAt (f :: below :: rest) k = frAt (g :: below :: rest) k := by
                  intro f g k hk'
                  rw [frAt_cons_lt f (below :: rest) k (by simpa using hk'), frAt_cons_lt g (below :: rest) k (by simpa using hk')]
                refine ⟨fun k hk' t ht => ?_, fun k hk1 hk' t ht => ?_, ?_, ?_⟩
                · by_cases hkk : k = rest.length + 1
                  · subst hkk
                    rw [htop] at ht
                    rcases ht with ht | ht
                    · exact inB t ht
                    · exact inR t (k1 _ (by omega) t (by rw [htop]; simp [ht]))
                  · exact inR t (k1 k hk' t (by rw [hsame _ top k (by omega)]; exact ht))
                · by_cases hkk : k = rest.length + 1
                  · subst hkk
                    rw [htop] at ht
                    apply inR t
                    apply k2 _ hk1 (by omega) t
                    rw [htop]
                    rcases ht with ht | ht
                    · left; simp [ht]
                    · right; exact ht
                  · exact inR t (k2 k hk1 hk' t (by rw [hsame _ top k (by omega)]; exact ht))
                · refine ⟨inX, fun _ t ht => ?_, fun h => (nof h).elim⟩
                  rcases ht with ht | ht | ht
                  · exact inA hxs t ht
                  · exact inR t (k1 (rest.length + 1) (by omega) t (by rw [htop]; simp [ht]))
                  · exact inR t (k2 (rest.length + 1) (by omega) (by omega) t (by rw [htop]; simp [ht]))
                · have hd : depthNext x.kind (rest.length + 1 + 1 - 1) = rest.length + 1 + 1 - 1 := by simp [hk, depthNext]
                  rw [hd]
                  exact KeptAll_mono xs _ outr out k3 inR
          | end_ =>
            cases fr with
            | nil => exact absurd rfl hfr'
            | cons top rest =>
              simp only [specStep, hk, Option.some.injEq, Prod.mk.injEq] at hr
              obtain ⟨rfl, rfl, rfl⟩ := hr
              simp only [List.length_cons] at ⊢
              have htop : frAt (top :: rest) rest.length = top := frAt_cons_top top rest
              have hsame : ∀ k, k < rest.length → frAt (top :: rest) k = frAt rest k := fun k hk' => frAt_cons_lt top rest k hk'
              refine ⟨fun k hk' t ht => ?_, fun k hk1 hk' t ht => ?_, ?_, ?_⟩
              · by_cases hkk : k = rest.length
                · subst hkk; rw [htop] at ht
                  exact inB t (by rcases ht with ht | ht <;> simp [ht])
                · exact inR t (k1 k (by omega) t (by rw [← hsame k (by omega)]; exact ht))
              · by_cases hkk : k = rest.length
                · subst hkk; rw [htop] at ht
                  have hxs : xs ≠ [] := hxs_of (by omega)
                  exact inA hxs t (mem_endAfter top t ht)
                · exact inR t (k2 k hk1 (by omega) t (by rw [← hsame k (by omega)]; exact ht))
              · exact ⟨inX, fun hb => by simp [hk, Kind.isBlockStyle] at hb, fun h => (nof h).elim⟩
              · have hd : depthNext x.kind (rest.length + 1 - 1) = rest.length - 1 := by simp [hk, depthNext]
                rw [hd]
                exact KeptAll_mono xs _ outr out k3 inR
          | br _ | brIf _ | brTable _ _ | exitLike | other =>
            all_goals
              simp only [specStep, hk, Option.some.injEq, Prod.mk.injEq] at hr
              obtain ⟨rfl, rfl, rfl⟩ := hr
              refine ⟨fun k hk' t ht => inR t (k1 k hk' t ht), fun k hk1 hk' t ht => inR t (k2 k hk1 hk' t ht), ?_, ?_⟩
              · exact ⟨inX, fun hb => by simp [hk, Kind.isBlockStyle] at hb, fun h => (nof h).elim⟩
              · have hd : depthNext x.kind (fr.length - 1) = fr.length - 1 := by simp [hk, depthNext]
                rw [hd]
                exact KeptAll_mono xs _ outr out k3 inR

/-- **Nothing is lost, for any plan without block alternates** — `before` code; block-entry, block-exit and semantic-after code on
    constructs; semantic-after code on branches, the only exception being an unconditional branch (or `br_table`) all of whose targets
    are the function's own label (finding F15); together with `lower_keeps_fn` (function entry / exit code): the positive half of C22
    for every such plan. -/
theorem lower_keeps_all_F (f : Func) (hsp : f.hasSpecial = true) (hp : ∀ x ∈ f.body, PlainF x) (hna : ∀ x ∈ f.body, x.blockAlt = none)
    (out : List Tok) (nlf : Nat)
    (hs : specRunF (f.body.length - 1) (entryToks f) f.exit 0 [{}] none f.nlocals f.body = some (out, nlf)) :
    KeptAll 0 f.body (lower f).1 := by
  rw [lower_eq_specF f hsp hp out nlf hs]
  exact (specRunF_keeps (f.body.length - 1) (entryToks f) f.exit f.body 0 [{}] f.nlocals out nlf hs hna (by omega) (.inl (by simp))).2.2

/-! ### the machine is total on well-nested bodies -/

/-- well-nestedness of a flat body, counted on the number of open frames (the function body's own frame included): every `else` sits in
    a construct, every `end` closes something, the function body's frame is closed by the last instruction and by no earlier one -/
def okNest : Nat → List Instr → Bool
  | n, [] => n == 0
  | n, i :: is =>
    match i.kind with
    | .block | .loop | .if_ => okNest (n + 1) is
    | .else_ => decide (2 ≤ n) && okNest n is
    | .end_ => decide (1 ≤ n) && (decide (2 ≤ n) || is.isEmpty) && okNest (n - 1) is
    | _ => (decide (1 ≤ n) || (is.isEmpty && !flaggedBranch i)) && okNest n is

theorem specStepA_some (fr : List Fr) (del : Option Del) (i : Instr)
    (h : match i.kind with | .else_ => 2 ≤ fr.length | .end_ => 1 ≤ fr.length | _ => True) :
    ∃ fr' del' b alt a, specStepA fr del i = some (fr', del', b, alt, a)
      ∧ fr'.length = (match i.kind with | .block | .loop | .if_ => fr.length + 1 | .end_ => fr.length - 1 | _ => fr.length) := by
  cases hk : i.kind with
  | block | loop | if_ =>
    all_goals
      cases del with
      | some d => (simp only [specStepA, hk]; exact ⟨_, _, _, _, _, rfl, by simp⟩)
      | none =>
        cases hb : i.blockAlt with
        | some a => (simp only [specStepA, hk, hb]; exact ⟨_, _, _, _, _, rfl, by simp⟩)
        | none => (simp only [specStepA, hk, hb]; exact ⟨_, _, _, _, _, rfl, by simp⟩)
  | else_ =>
    simp only [hk] at h
    match fr, h with
    | top :: below :: rest, _ =>
      cases del with
      | some d => (simp only [specStepA, hk]; exact ⟨_, _, _, _, _, rfl, by simp⟩)
      | none =>
        cases hb : i.blockAlt with
        | some a => (simp only [specStepA, hk, hb]; exact ⟨_, _, _, _, _, rfl, by simp⟩)
        | none => (simp only [specStepA, hk, hb]; exact ⟨_, _, _, _, _, rfl, by simp⟩)
  | end_ =>
    simp only [hk] at h
    match fr, h with
    | top :: rest, _ =>
      cases del with
      | none => (simp only [specStepA, hk]; exact ⟨_, _, _, _, _, rfl, by simp⟩)
      | some dl =>
        obtain ⟨d, r⟩ := dl
        by_cases hd : d = rest.length
        · cases r with
          | true => (simp only [specStepA, hk, hd, if_true]; exact ⟨_, _, _, _, _, rfl, by simp⟩)
          | false => (simp only [specStepA, hk, hd, if_true, Bool.false_eq_true, if_false]; exact ⟨_, _, _, _, _, rfl, by simp⟩)
        · (simp only [specStepA, hk, hd, if_false]; exact ⟨_, _, _, _, _, rfl, by simp⟩)
  | br _ | brIf _ | brTable _ _ | exitLike | other =>
    all_goals
      cases del with
      | some d => (simp only [specStepA, hk]; exact ⟨_, _, _, _, _, rfl, by simp⟩)
      | none => (simp only [specStepA, hk]; exact ⟨_, _, _, _, _, rfl, by simp⟩)

/-- **the complete machine accepts every well-nested body** — with any plan, in any removal state: the hypothesis `specRunF … = some _`
    of the refinement theorems is exactly well-nestedness -/
theorem specRunF_total (last : Nat) (E X : List Tok) : ∀ (xs : List Instr) (idx : Nat) (fr : List Fr) (del : Option Del) (nl : Nat),
    okNest fr.length xs = true → ∃ r, specRunF last E X idx fr del nl xs = some r := by
  intro xs
  induction xs with
  | nil =>
    intro idx fr del nl h
    simp only [okNest, beq_iff_eq] at h
    have : fr = [] := List.length_eq_zero_iff.mp h
    subst this
    exact ⟨_, rfl⟩
  | cons x xs ih =>
    intro idx fr del nl h
    -- one step
    have hstep : ∃ fr' del' nl' b alt a, specStepF fr del nl x = some (fr', del', nl', b, alt, a)
        ∧ okNest fr'.length xs = true ∧ (fr'.isEmpty && !xs.isEmpty) = false := by
      cases hf : flaggedBranch x with
      | true =>
        have hbr : x.kind.isBranching = true := by simp only [flaggedBranch, Bool.and_eq_true] at hf; exact hf.1
        have hk : okNest fr.length (x :: xs) = ((decide (1 ≤ fr.length) || (xs.isEmpty && !flaggedBranch x)) && okNest fr.length xs) := by
          cases hkk : x.kind <;> simp_all [okNest, Kind.isBranching]
        rw [hk, hf] at h
        simp only [Bool.not_true, Bool.and_false, Bool.or_false, Bool.and_eq_true, decide_eq_true_eq] at h
        have hfe : fr.isEmpty = false := by cases fr with | nil => simp at h | cons _ _ => rfl
        cases del with
        | some d =>
          refine ⟨fr, some d, nl, [], some [], [], by simp [specStepF, hf], h.2, by simp [hfe]⟩
        | none =>
          have hlen := (parkAllF_spec (fr.length - 1) (x.semAfter, nl) (branchTargets x.kind) fr (by omega)).1
          refine ⟨parkAllF fr (fr.length - 1) (x.semAfter, nl) (branchTargets x.kind), none, nl + 1, [tConst 1, tLocalSet nl], x.alt,
            [tConst 0, tLocalSet nl] ++ (match x.kind with | .brIf _ => x.semAfter | _ => []), ?_, by rw [hlen]; exact h.2, ?_⟩
          · simp only [specStepF, hf, hfe, if_true, Bool.false_eq_true, if_false]
            all_goals (cases x.kind <;> rfl)
          · have : (parkAllF fr (fr.length - 1) (x.semAfter, nl) (branchTargets x.kind)).isEmpty = false := by
              cases hp : parkAllF fr (fr.length - 1) (x.semAfter, nl) (branchTargets x.kind) with
              | nil => rw [hp] at hlen; simp at hlen; omega
              | cons _ _ => rfl
            simp [this]
      | false =>
        have hreq : (match x.kind with | .else_ => 2 ≤ fr.length | .end_ => 1 ≤ fr.length | _ => True) := by
          cases hkk : x.kind <;> simp_all [okNest]
        obtain ⟨fr', del', b, alt, a, hs, hlen⟩ := specStepA_some fr del x hreq
        have hnf : ¬ (flaggedBranch x = true) := by rw [hf]; simp
        have hfacts : okNest fr'.length xs = true ∧ (1 ≤ fr'.length ∨ xs.isEmpty = true) := by
          cases hkk : x.kind with
          | block | loop | if_ =>
            all_goals
              simp only [okNest, hkk] at h
              simp only [hkk] at hlen
              rw [hlen]; exact ⟨h, .inl (by omega)⟩
          | else_ =>
            simp only [okNest, hkk, Bool.and_eq_true, decide_eq_true_eq] at h
            simp only [hkk] at hlen
            rw [hlen]; exact ⟨h.2, .inl (by omega)⟩
          | end_ =>
            simp only [okNest, hkk, Bool.and_eq_true, Bool.or_eq_true, decide_eq_true_eq] at h
            simp only [hkk] at hlen
            rw [hlen]
            refine ⟨h.2, ?_⟩
            rcases h.1.2 with h2 | h2
            · exact .inl (by omega)
            · exact .inr h2
          | br _ | brIf _ | brTable _ _ | exitLike | other =>
            all_goals
              simp only [okNest, hkk, hf, Bool.not_false, Bool.and_true, Bool.and_eq_true, Bool.or_eq_true, decide_eq_true_eq] at h
              simp only [hkk] at hlen
              rw [hlen]
              exact ⟨h.2, h.1⟩
        refine ⟨fr', del', nl, b, alt, a, by simp [specStepF, hf, hs], hfacts.1, ?_⟩
        rcases hfacts.2 with h1 | h1
        · have : fr'.isEmpty = false := by cases fr' with | nil => simp at h1 | cons _ _ => rfl
          simp [this]
        · simp [h1]
    obtain ⟨fr', del', nl', b, alt, a, hs, hok, hg⟩ := hstep
    obtain ⟨r, hr⟩ := ih (idx + 1) fr' del' nl' hok
    obtain ⟨o, n⟩ := r
    refine ⟨(x.before ++ fnPre last E X idx x ++ b ++ (if idx ≥ last then [x.tok] else alt.getD [x.tok])
      ++ (if idx ≥ last then [] else x.after ++ a) ++ o, n), ?_⟩
    simp only [specRunF, hs, hg, Bool.false_eq_true, if_false, hr]

/-- **for every well-nested body and every plan in scope the encoded function is the machine's output** — no side condition left -/
theorem lower_is_machine (f : Func) (hsp : f.hasSpecial = true) (hp : ∀ x ∈ f.body, PlainF x) (hn : okNest 1 f.body = true) :
    ∃ out nlf, specRunF (f.body.length - 1) (entryToks f) f.exit 0 [{}] none f.nlocals f.body = some (out, nlf)
      ∧ lower f = (out, f.added + (nlf - f.nlocals)) := by
  obtain ⟨⟨out, nlf⟩, hr⟩ := specRunF_total (f.body.length - 1) (entryToks f) f.exit f.body 0 [{}] none f.nlocals hn
  exact ⟨out, nlf, hr, lower_eq_specF f hsp hp out nlf hr⟩

end Orca.Lower
