import Orca.Lemmas.Encode

namespace Orca.Edit
open Orca.Reindex

/-! ### what the individual operations do to the vectors (ids are positions until the first encode) -/

theorem setItem_get (l : List Item) (i : Nat) (f : Item → Item) (x : Item) (h : l[i]? = some x) :
    (setItem l i f)[i]? = some (f x) ∧ (∀ j, j ≠ i → (setItem l i f)[j]? = l[j]?) ∧ (setItem l i f).length = l.length := by
  have hlt : i < l.length := by
    rcases Nat.lt_or_ge i l.length with h' | h'
    · exact h'
    · simp [List.getElem?_eq_none h'] at h
  simp only [setItem, h]
  refine ⟨by simp [hlt], ?_, by simp⟩
  intro j hj
  exact List.getElem?_set_ne (Ne.symm hj)

/-- C11: converting the local function with id `id` makes that id designate a new imported entity `uid`, whose import
    entry is appended to the import list; every other function keeps its id and identity -/
theorem localToImport_spec (s : St) (id uid : Nat) (x : Item) (hx : s.f.items[id]? = some x) (hloc : x.imp = false) :
    let r := localToImport s id uid
    r.2 = Ret.bool true
    ∧ r.1.f.items[id]? = some { id := id, imp := true, del := false, uid := uid, impId := s.imports.length }
    ∧ (∀ j, j ≠ id → r.1.f.items[j]? = s.f.items[j]?)
    ∧ r.1.imports = s.imports ++ [{ sp := some Sp.F, del := false, uid := uid }]
    ∧ r.1.f.items.length = s.f.items.length := by
  simp only [localToImport, hx, hloc, Bool.false_eq_true, if_false]
  -- the deletion step marks the item, which is local, so the import list is untouched
  have hset := setItem_get s.f.items id (fun (it : Item) => { it with del := true }) x hx
  have hd : deleteEntity s Sp.F id
      = ((s.setSpace Sp.F { s.f with items := setItem s.f.items id (fun (it : Item) => { it with del := true }), recalc := true }), Ret.unit) := by
    simp only [deleteEntity, St.space, hset.1, hloc, Bool.false_eq_true, if_false]
  rw [hd]
  simp only [St.setSpace, addImport, St.space, mkItem]
  have hset2 := setItem_get (setItem s.f.items id (fun (it : Item) => { it with del := true })) id
    (fun _ => ({ id := id, imp := true, del := false, uid := uid, impId := s.imports.length } : Item)) _ hset.1
  refine ⟨by trivial, hset2.1, ?_, by trivial, by rw [hset2.2.2, hset.2.2]⟩
  intro j hj
  rw [hset2.2.1 j hj, hset.2.1 j hj]

/-- C10: replacing the import with `ImportsID = impId` makes the id of the function that carries that import designate
    the new local function `uid`; the import entry is marked deleted; every other function keeps id and identity -/
theorem replaceImport_spec (s : St) (impId uid : Nat) (sites : List Ref) (e : ImpEntry) (fid : Nat) (x : Item)
    (he : s.imports[impId]? = some e) (hk : e.sp = some Sp.F)
    (hfind : s.f.items.findIdx? (fun (it : Item) => !it.del && it.imp && it.impId == impId) = some fid)
    (hx : s.f.items[fid]? = some x) (himp : x.imp = true) (hxi : x.impId = impId) :
    let r := replaceImport s impId uid sites
    r.2 = Ret.unit
    ∧ r.1.f.items[fid]? = some { id := fid, imp := false, del := false, uid := uid, impId := 0 }
    ∧ (∀ j, j ≠ fid → r.1.f.items[j]? = s.f.items[j]?)
    ∧ r.1.imports = s.imports.set impId { e with del := true }
    ∧ r.1.code = s.code ++ [(uid, sites)] := by
  have hset := setItem_get s.f.items fid (fun (it : Item) => { it with del := true }) x hx
  have hd : deleteEntity s Sp.F fid
      = ({ (s.setSpace Sp.F { s.f with items := setItem s.f.items fid (fun (it : Item) => { it with del := true }), recalc := true })
            with imports := s.imports.set impId { e with del := true } }, Ret.unit) := by
    simp only [deleteEntity, St.space, hset.1, himp, if_true, St.setSpace, markImportDeleted, hxi, he]
  simp only [replaceImport, he, hk, bne_self_eq_false, Bool.false_eq_true, if_false, hfind, hd, St.setSpace, mkItem]
  have hset2 := setItem_get (setItem s.f.items fid (fun (it : Item) => { it with del := true })) fid
    (fun _ => ({ id := fid, imp := false, del := false, uid := uid, impId := 0 } : Item)) _ hset.1
  refine ⟨by trivial, hset2.1, ?_, by trivial, by trivial⟩
  intro j hj
  rw [hset2.2.1 j hj, hset.2.1 j hj]

/-- the id reported for a newly added import (function, global or memory) is the position at which the entity is
    stored — the id the caller must use until the module is encoded -/
theorem addImport_id (s : St) (sp : Sp) (uid : Nat) :
    (addImport s sp uid).2.1 = (s.space sp).items.length ∧ (addImport s sp uid).2.2 = s.imports.length := ⟨rfl, rfl⟩

theorem addImportedGlobal_spec (s : St) (uid : Nat) :
    let r := addImportedGlobal s uid
    r.2 = Ret.id2 s.g.items.length s.imports.length
    ∧ r.1.g.items = s.g.items ++ [{ id := s.g.items.length, imp := true, del := false, uid := uid, impId := s.imports.length }] := by
  simp [addImportedGlobal, addImport, St.space, St.setSpace, Space.push, mkItem]

theorem iterAddGlobal_spec (s : St) (uid : Nat) (sites : List Ref) :
    let r := iterAddGlobal s uid sites
    r.2 = Ret.id s.g.items.length
    ∧ r.1.g.items = s.g.items ++ [{ id := s.g.items.length, imp := false, del := false, uid := uid, impId := 0 }] := by
  simp [iterAddGlobal, Space.push, mkItem]

theorem addImportMem_spec (s : St) (uid : Nat) :
    let r := addImportMem s uid
    r.2 = Ret.id2 s.m.items.length s.imports.length
    ∧ r.1.m.items = s.m.items ++ [{ id := s.m.items.length, imp := true, del := false, uid := uid, impId := s.imports.length }] := by
  simp [addImportMem, addImport, St.space, St.setSpace, Space.push, mkItem]

theorem addImportFunc_spec (s : St) (uid : Nat) :
    let r := addImportFunc s uid
    r.2 = Ret.id2 s.f.items.length s.imports.length
    ∧ r.1.f.items = s.f.items ++ [{ id := s.f.items.length, imp := true, del := false, uid := uid, impId := s.imports.length }] := by
  simp [addImportFunc, addImport, St.space, St.setSpace, Space.push, mkItem]

theorem addLocalFunc_spec (s : St) (uid : Nat) (sites : List Ref) :
    let r := addLocalFunc s uid sites
    r.2 = Ret.id s.f.items.length
    ∧ r.1.f.items = s.f.items ++ [{ id := s.f.items.length, imp := false, del := false, uid := uid, impId := 0 }]
    ∧ r.1.code = s.code ++ [(uid, sites)] := by
  simp [addLocalFunc, Space.push, mkItem]

end Orca.Edit
