import Orca.Model.Comp
namespace Orca.Comp

theorem loop_payloads (d : Nat) (hd : d ≥ 1) (ps : List Nat) (rest : List Ev) :
    loop d (ps.map Ev.payload ++ rest) = loop d rest := by
  induction ps with
  | nil => rfl
  | cons p ps ih =>
    simp only [List.map_cons, List.cons_append, loop]
    have : (decide (Ev.payload p = Ev.end_) && decide (d > 0)) = false := by simp
    simp only [this, Bool.false_eq_true, if_false]
    have hd' : d > 0 := hd
    simp only [hd', if_true]
    exact ih

theorem loop_end (d : Nat) (rest : List Ev) : loop (d + 1) (Ev.end_ :: rest) = loop d rest := by
  simp only [loop]
  have : (decide (Ev.end_ = Ev.end_) && decide (d + 1 > 0)) = true := by simp
  simp only [this, if_true, Nat.add_sub_cancel]
  by_cases hd : d > 0
  · simp [hd]
  · have : d = 0 := by omega
    subst this; simp

theorem loop_start_skip (d : Nat) (hd : d ≥ 1) (e : Ev) (he : (∃ i, e = .moduleStart i) ∨ (∃ i, e = .componentStart i)) (rest : List Ev) :
    loop d (e :: rest) = loop (d + 1) rest := by
  have hd' : d > 0 := hd
  rcases he with ⟨i, rfl⟩ | ⟨i, rfl⟩ <;> simp [loop, hd']

mutual
/-- everything a nested item streams is skipped, and the stack is back where it was -/
theorem skipI (d : Nat) (hd : d ≥ 1) : ∀ (i : Item) (rest : List Ev), loop d (streamI i ++ rest) = loop d rest
  | .section_ id, rest => by
    simpa [streamI] using loop_payloads d hd [id] rest
  | .module id ps, rest => by
    simp only [streamI, List.cons_append, List.append_assoc]
    rw [loop_start_skip d hd _ (.inl ⟨id, rfl⟩), loop_payloads (d + 1) (by omega)]
    exact loop_end d rest
  | .component id items, rest => by
    simp only [streamI, List.cons_append, List.append_assoc]
    rw [loop_start_skip d hd _ (.inr ⟨id, rfl⟩), skipL (d + 1) (by omega) items]
    exact loop_end d rest
theorem skipL (d : Nat) (hd : d ≥ 1) : ∀ (is : List Item) (rest : List Ev), loop d (streamL is ++ rest) = loop d rest
  | [], rest => by simp [streamL]
  | i :: is, rest => by
    simp only [streamL, List.append_assoc]
    rw [skipI d hd i, skipL d hd is]
end

/-- **ownership**: at any nesting depth below, the loop records exactly the component's own sections and the starts of its
    direct children, in order -/
theorem loop_owns : ∀ (items : List Item) (rest : List Ev), loop 0 (streamL items ++ rest) = items.map ownEv ++ loop 0 rest
  | [], rest => by simp [streamL]
  | .section_ id :: is, rest => by
    simp only [streamL, streamI, List.cons_append, List.nil_append, List.map_cons, ownEv]
    rw [show loop 0 (Ev.payload id :: (streamL is ++ rest)) = Ev.payload id :: loop 0 (streamL is ++ rest) by simp [loop]]
    rw [loop_owns is rest]
  | .module id ps :: is, rest => by
    simp only [streamL, streamI, List.cons_append, List.append_assoc, List.map_cons, ownEv, List.nil_append]
    rw [show loop 0 (Ev.moduleStart id :: (ps.map Ev.payload ++ Ev.end_ :: (streamL is ++ rest)))
          = Ev.moduleStart id :: loop 1 (ps.map Ev.payload ++ Ev.end_ :: (streamL is ++ rest)) by simp [loop]]
    rw [loop_payloads 1 (by omega), loop_end 0, loop_owns is rest]
  | .component id inner :: is, rest => by
    simp only [streamL, streamI, List.cons_append, List.append_assoc, List.map_cons, ownEv, List.nil_append]
    rw [show loop 0 (Ev.componentStart id :: (streamL inner ++ Ev.end_ :: (streamL is ++ rest)))
          = Ev.componentStart id :: loop 1 (streamL inner ++ Ev.end_ :: (streamL is ++ rest)) by simp [loop]]
    rw [skipL 1 (by omega) inner, loop_end 0, loop_owns is rest]

end Orca.Comp

namespace Orca.Comp
variable {κ α : Type} [DecidableEq κ]

theorem split_runs {n : Nat} {k : κ} {xs : List κ} {suf : List (κ × α)} (h : List.replicate n k ++ xs = suf.map (·.1)) :
    (suf.take n).length = n ∧ (∀ p ∈ suf.take n, p.1 = k) ∧ (suf.drop n).map (·.1) = xs := by
  have hlen : n ≤ suf.length := by
    have := congrArg List.length h
    simp at this; omega
  have htake : (suf.take n).map (·.1) = List.replicate n k := by
    rw [List.map_take, ← h, List.take_left' (by simp)]
  have hdrop : (suf.drop n).map (·.1) = xs := by
    rw [List.map_drop, ← h, List.drop_left' (by simp)]
  refine ⟨by simp [hlen], ?_, hdrop⟩
  intro p hp
  have : p.1 ∈ (suf.take n).map (·.1) := List.mem_map_of_mem hp
  rw [htake] at this
  exact (List.mem_replicate.mp this).2

theorem filter_all_eq {k : κ} {l : List (κ × α)} (h : ∀ p ∈ l, p.1 = k) : l.filter (fun p => p.1 = k) = l := by
  apply List.filter_eq_self.mpr
  intro p hp; simpa using h p hp

theorem filter_all_ne {k k' : κ} (hk : k' ≠ k) {l : List (κ × α)} (h : ∀ p ∈ l, p.1 = k) : l.filter (fun p => p.1 = k') = [] := by
  apply List.filter_eq_nil_iff.mpr
  intro p hp
  have := h p hp
  simp [this, hk.symm]

theorem map_pair_snd {k : κ} {l : List (κ × α)} (h : ∀ p ∈ l, p.1 = k) : (l.map (·.2)).map (fun a => (k, a)) = l := by
  induction l with
  | nil => rfl
  | cons p ps ih =>
    have hp := h p (by simp)
    have := ih (fun q hq => h q (by simp [hq]))
    simp only [List.map_cons, this]
    congr 1
    exact Prod.ext hp.symm rfl

/-- **record / replay.** However the item sequence is cut into runs of one kind (as the binary's sections cut it, merged
    or not), replaying the runs with one cursor per kind over the per-kind vectors yields the items in their original order -/
theorem replay_spec (items : List (κ × α)) : ∀ (secs : List (Nat × κ)) (pre suf : List (κ × α)) (cur : κ → Nat),
    items = pre ++ suf → expandRuns secs = suf.map (·.1) → (∀ k, cur k = (pre.filter (fun p => p.1 = k)).length) →
    replay (store items) secs cur = suf := by
  intro secs
  induction secs with
  | nil =>
    intro pre suf cur _ hexp _
    simp only [expandRuns] at hexp
    have : suf = [] := by
      cases suf with
      | nil => rfl
      | cons a as => simp at hexp
    simp [replay, this]
  | cons s rest ih =>
    obtain ⟨n, k⟩ := s
    intro pre suf cur hitems hexp hcur
    simp only [expandRuns] at hexp
    obtain ⟨hrunlen, hrunk, hrest⟩ := split_runs hexp
    simp only [replay]
    -- the next `n` items of kind `k` in the store are the run
    have hstore : ((store items k).drop (cur k)).take n = (suf.take n).map (·.2) := by
      have hsuf : suf = suf.take n ++ suf.drop n := (List.take_append_drop n suf).symm
      simp only [store, hitems, List.filter_append, List.map_append]
      rw [hcur k, show ((pre.filter (fun p => p.1 = k)).length) = ((pre.filter (fun p => p.1 = k)).map (·.2)).length by simp]
      rw [List.drop_left']
      · conv => lhs; rw [hsuf]
        rw [List.filter_append, filter_all_eq hrunk, List.map_append]
        rw [List.take_left' (by simpa using hrunlen)]
      · rfl
    rw [hstore, map_pair_snd hrunk]
    have := ih (pre ++ suf.take n) (suf.drop n) (fun k' => if k' = k then cur k + n else cur k')
      (by rw [List.append_assoc, List.take_append_drop]; exact hitems) hrest.symm
      (by
        intro k'
        by_cases hk : k' = k
        · subst hk
          simp only [if_true, List.filter_append, List.length_append, filter_all_eq hrunk, hrunlen, hcur k']
        · simp only [hk, if_false, List.filter_append, List.length_append, filter_all_ne hk hrunk, List.length_nil, Nat.add_zero, hcur k'])
    rw [this, List.take_append_drop]

/-- `add_to_sections` only regroups: the sequence of kinds described is the same -/
theorem expandRuns_addToSections (secs : List (Nat × κ)) (k : κ) (n : Nat) :
    expandRuns (addToSections secs k n) = expandRuns secs ++ List.replicate n k := by
  have happ : ∀ (a b : List (Nat × κ)), expandRuns (a ++ b) = expandRuns a ++ expandRuns b := by
    intro a b
    induction a with
    | nil => rfl
    | cons x xs ih => obtain ⟨c, k'⟩ := x; simp [expandRuns, ih, List.append_assoc]
  unfold addToSections
  cases hl : secs.getLast? with
  | none =>
    have : secs = [] := List.getLast?_eq_none_iff.mp hl
    simp [this, expandRuns]
  | some x =>
    obtain ⟨c, k'⟩ := x
    have hsplit : secs = secs.dropLast ++ [(c, k')] := by
      rw [List.getLast?_eq_some_iff] at hl
      obtain ⟨ys, rfl⟩ := hl
      simp
    simp only
    by_cases hk : k' = k
    · subst hk
      simp only [if_true]
      conv => rhs; rw [hsplit]
      simp [happ, expandRuns, ← List.replicate_append_replicate, List.append_assoc]
    · simp [hk, happ, expandRuns]

/-! ### the nesting bound -/

mutual
theorem parseDepthI_spec (limit : Nat) : ∀ (i : Item) (depth : Nat), depth ≤ limit →
    (depth + nestI i ≤ limit → parseDepthI limit depth i = some (depth + nestI i))
    ∧ (limit < depth + nestI i → parseDepthI limit depth i = none)
  | .section_ _, depth, hd => by simp [parseDepthI, nestI]; omega
  | .module _ _, depth, hd => by simp [parseDepthI, nestI]; omega
  | .component _ items, depth, hd => by
    simp only [parseDepthI, nestI]
    constructor
    · intro h
      have hlt : ¬ depth ≥ limit := by omega
      simp only [hlt, if_false]
      have := (parseDepthL_spec limit items (depth + 1) (by omega)).1 (by omega)
      rw [this]; congr 1; omega
    · intro h
      by_cases hge : depth ≥ limit
      · simp [hge]
      · simp only [hge, if_false]
        exact (parseDepthL_spec limit items (depth + 1) (by omega)).2 (by omega)
theorem parseDepthL_spec (limit : Nat) : ∀ (is : List Item) (depth : Nat), depth ≤ limit →
    (depth + nestL is ≤ limit → parseDepthL limit depth is = some (depth + nestL is))
    ∧ (limit < depth + nestL is → parseDepthL limit depth is = none)
  | [], depth, hd => by simp [parseDepthL, nestL]; omega
  | i :: is, depth, hd => by
    have h1 := parseDepthI_spec limit i depth hd
    have h2 := parseDepthL_spec limit is depth hd
    simp only [parseDepthL, nestL]
    constructor
    · intro h
      rw [h1.1 (by omega), h2.1 (by omega)]
      simp only [Option.some.injEq]; omega
    · intro h
      by_cases hi : limit < depth + nestI i
      · rw [h1.2 hi]
      · rw [h1.1 (by omega)]
        have : limit < depth + nestL is := by omega
        rw [h2.2 this]
end

end Orca.Comp
