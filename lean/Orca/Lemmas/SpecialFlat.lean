import Orca.Lemmas.BlockAlt
/-!
Where the resolver (M3, the flat transcription of `resolve_special_instrumentation`) puts a single block-level probe, for every
body: block entry behind the opening instruction, block exit in front of the matching `end`, semantic-after behind the
matching `end`. These are the flat-code counterparts of the tree-level theorems of C18–C20 and the positive half of C22
("an accepted special-mode injection is in the encoded function").
-/
namespace Orca.Lower

/-- the resolver has nothing parked except bodies waiting for the `end` of the block with id `d` -/
structure Parked (d : Nat) (s : RState) : Prop where
  entry : s.entry = []
  exit : s.exit = []
  e1 : s.onElseOrEnd = []
  kb : ∀ p ∈ s.onEndBefore, p.1 = d
  ka : ∀ p ∈ s.onEndAfter, p.1 = d

theorem any_key_false (l : List (Nat × ToInject)) (d k : Nat) (h : ∀ p ∈ l, p.1 = d) (hk : k ≠ d) :
    l.any (fun p => p.1 == k) = false := by
  rw [List.any_eq_false]
  intro p hp
  simp [h p hp, Ne.symm hk]

theorem removeInj_other (l : List (Nat × ToInject)) (d k : Nat) (h : ∀ p ∈ l, p.1 = d) (hk : k ≠ d) : removeInj l k = l := by
  unfold removeInj
  apply List.filter_eq_self.mpr
  intro p hp
  simp [h p hp, Ne.symm hk]

/-- a clean instruction inside the construct whose `end` the bodies wait for (relative depth `m`): nothing happens to them -/
theorem rstep_clean_parked (last : Nat) (d : Nat) (s : RState) (idx : Nat) (ins : Instr) (hc : Clean ins) (hs : Parked d s)
    (hd : s.deleteBlock = none) (m : Nat) (hst : s.stack = List.range (d + 1 + m)) (m' : Nat) (hn : depthStep ins.kind m = some m') :
    let s' := rstep last s idx ins
    Parked d s' ∧ s'.deleteBlock = none ∧ s'.body = s.body ∧ s'.stack = List.range (d + 1 + m') ∧ s'.nlocals = s.nlocals
      ∧ s'.added = s.added ∧ s'.onEndBefore = s.onEndBefore ∧ s'.onEndAfter = s.onEndAfter := by
  have hb := hc.blockAlt
  cases hk : ins.kind with
  | block | loop | if_ =>
    all_goals
      simp only [hk, depthStep, Option.some.injEq] at hn
      subst hn
      simp only [rstep, hs.entry, hs.exit, hk, hb, hd, List.isEmpty_nil, Bool.not_true, Bool.false_and, Bool.false_eq_true,
        if_false, if_true, Option.isNone_none, Option.isSome_none, planSpecial_clean _ _ _ hc]
      refine ⟨⟨?_, ?_, ?_, ?_, ?_⟩, ?_, ?_, ?_, ?_, ?_, ?_, ?_⟩ <;>
        first
          | exact hs.kb
          | exact hs.ka
          | (simp only [hst]; rw [show d + 1 + (m + 1) = (d + 1 + m) + 1 by omega, List.range_succ]; simp)
          | (simp only [List.range_succ]; congr 1 <;> omega)
          | simp [hs.entry, hs.exit, hs.e1, hd, hst]
  | end_ =>
    simp only [hk, depthStep] at hn
    split at hn
    · cases hn
    · rename_i hm0
      simp only [Option.some.injEq] at hn
      subst hn
      have hst' : s.stack = List.range ((d + m) + 1) := by rw [hst]; congr 1; omega
      have hne : d + m ≠ d := by omega
      have hB := removeInj_other s.onEndBefore d (d + m) hs.kb hne
      have hA := removeInj_other s.onEndAfter d (d + m) hs.ka hne
      have hBa := any_key_false s.onEndBefore d (d + m) hs.kb hne
      have hAa := any_key_false s.onEndAfter d (d + m) hs.ka hne
      have hnone : ((none : Option Nat) == some (d + m)) = false := rfl
      simp only [rstep, hs.entry, hs.exit, hk, hd, hst', range_succ_getLast, range_succ_dropLast, hs.e1, hnone,
        List.isEmpty_nil, Bool.not_true, Bool.false_and, Bool.false_eq_true, if_false, if_true, List.any_nil,
        planSpecial_clean _ _ _ hc]
      simp only [hBa, hAa, hB, hA, Bool.false_eq_true, if_false]
      refine ⟨⟨?_, ?_, ?_, ?_, ?_⟩, ?_, ?_, ?_, ?_, ?_, ?_, ?_⟩ <;>
        first
          | exact hs.kb
          | exact hs.ka
          | (show List.range (d + m) = List.range (d + 1 + (m - 1)); congr 1; omega)
          | simp [hs.entry, hs.exit, hs.e1, hd, removeInj]
  | else_ =>
    simp only [hk, depthStep, Option.some.injEq] at hn
    subst hn
    simp only [rstep, hs.entry, hs.exit, hk, hb, hd, hs.e1, List.isEmpty_nil, Bool.not_true, Bool.false_and, Bool.false_eq_true,
      if_false, if_true, List.any_nil, Option.isNone_none, Option.isSome_none, planSpecial_clean _ _ _ hc]
    refine ⟨⟨?_, ?_, ?_, ?_, ?_⟩, ?_, ?_, ?_, ?_, ?_, ?_, ?_⟩ <;>
      first
        | exact hs.kb
        | exact hs.ka
        | exact hst
        | simp [hs.entry, hs.exit, hs.e1, hd]
  | br _ | brIf _ | brTable _ _ | other | exitLike =>
    all_goals
      simp only [hk, depthStep, Option.some.injEq] at hn
      subst hn
      simp only [rstep, hs.entry, hs.exit, hk, hd, List.isEmpty_nil, Bool.not_true, Bool.false_and, Bool.false_eq_true,
        if_false, if_true, Option.isSome_none, planSpecial_clean _ _ _ hc]
      refine ⟨⟨?_, ?_, ?_, ?_, ?_⟩, ?_, ?_, ?_, ?_, ?_, ?_, ?_⟩ <;>
        first
          | exact hs.kb
          | exact hs.ka
          | exact hst
          | simp [hs.entry, hs.exit, hs.e1, hd]

theorem rloop_parked (last : Nat) (d : Nat) : ∀ (xs : List Instr) (s : RState) (k m m' : Nat), (∀ x ∈ xs, Clean x) →
    Parked d s → s.deleteBlock = none → s.stack = List.range (d + 1 + m) → depthAfter xs m = some m' →
    let s' := rloop last s k xs
    Parked d s' ∧ s'.deleteBlock = none ∧ s'.body = s.body ∧ s'.stack = List.range (d + 1 + m') ∧ s'.nlocals = s.nlocals
      ∧ s'.added = s.added ∧ s'.onEndBefore = s.onEndBefore ∧ s'.onEndAfter = s.onEndAfter := by
  intro xs
  induction xs with
  | nil =>
    intro s k m m' _ hs hd hst hn
    simp only [depthAfter, Option.some.injEq] at hn
    subst hn
    exact ⟨hs, hd, rfl, hst, rfl, rfl, rfl, rfl⟩
  | cons x xs ih =>
    intro s k m m' hc hs hd hst hn
    simp only [depthAfter] at hn
    cases h1 : depthStep x.kind m with
    | none => simp [h1] at hn
    | some m1 =>
      simp only [h1, Option.bind_some] at hn
      obtain ⟨a1, a2, a3, a4, a5, a6, a7, a8⟩ := rstep_clean_parked last d s k x (hc x (List.mem_cons_self ..)) hs hd m hst m1 h1
      obtain ⟨b1, b2, b3, b4, b5, b6, b7, b8⟩ := ih (rstep last s k x) (k + 1) m1 m'
        (fun y hy => hc y (List.mem_cons_of_mem _ hy)) a1 a2 a4 hn
      exact ⟨b1, b2, b3.trans a3, b4, b5.trans a5, b6.trans a6, b7.trans a7, b8.trans a8⟩

theorem resolveBodies_plain (pr : List Tok) : resolveBodies { flagged := [], notFlagged := [pr] } = pr := by
  simp [resolveBodies, resolveBodies.chain]

/-! ### the instruction that carries the probe -/

/-- the instruction carries one list of one special mode and nothing else -/
structure OnlyEntry (i : Instr) (pr : List Tok) : Prop where
  before : i.before = []
  after : i.after = []
  alt : i.alt = none
  semAfter : i.semAfter = []
  blockEntry : i.blockEntry = pr
  blockExit : i.blockExit = []
  blockAlt : i.blockAlt = none
  ne : pr ≠ []

structure OnlyExit (i : Instr) (pr : List Tok) : Prop where
  before : i.before = []
  after : i.after = []
  alt : i.alt = none
  semAfter : i.semAfter = []
  blockEntry : i.blockEntry = []
  blockExit : i.blockExit = pr
  blockAlt : i.blockAlt = none
  ne : pr ≠ []

structure OnlySemAfter (i : Instr) (pr : List Tok) : Prop where
  before : i.before = []
  after : i.after = []
  alt : i.alt = none
  semAfter : i.semAfter = pr
  blockEntry : i.blockEntry = []
  blockExit : i.blockExit = []
  blockAlt : i.blockAlt = none
  ne : pr ≠ []

theorem isEmpty_false_of_ne {α : Type} {l : List α} (h : l ≠ []) : l.isEmpty = false := by
  cases l <;> simp_all

/-- block entry: the probe becomes `after` code of the opening instruction -/
theorem rstep_sel_entry (last : Nat) (s : RState) (A B : List Instr) (sel : Instr) (pr : List Tok) (hsel : OnlyEntry sel pr)
    (hs : Calm s) (hd : s.deleteBlock = none) (hb : s.body = A ++ sel :: B) (n : Nat) (hst : s.stack = List.range n)
    (hk : sel.kind = .block ∨ sel.kind = .loop ∨ sel.kind = .if_) :
    let s' := rstep last s A.length sel
    Calm s' ∧ s'.deleteBlock = none ∧ s'.stack = List.range (n + 1) ∧ s'.nlocals = s.nlocals ∧ s'.added = s.added
      ∧ ∃ sel', s'.body = A ++ sel' :: B ∧ sel'.before = [] ∧ sel'.alt = none ∧ sel'.after = pr ∧ sel'.tok = sel.tok := by
  have hne := isEmpty_false_of_ne hsel.ne
  have hinstr : sel.hasInstr = true := by simp [Instr.hasInstr, hsel.blockEntry, hne]
  rcases hk with hk | hk | hk
  all_goals
    simp only [rstep, hs.entry, hs.exit, hk, hsel.blockAlt, hd, hb, hst, planSpecial, hinstr, hsel.blockEntry, hsel.blockExit,
      hsel.semAfter, hne, Kind.isBlockStyle, addAfter, modifyAt_mid,
      List.isEmpty_nil, Bool.not_true, Bool.not_false, Bool.false_and, Bool.false_eq_true, if_false, if_true, Option.isNone_none,
      Option.isSome_none]
    refine ⟨⟨?_, ?_, ?_, ?_, ?_⟩, ?_, ?_, ?_, ?_, ⟨_, rfl, ?_, ?_, ?_, ?_⟩⟩ <;>
      simp [hs.entry, hs.exit, hs.e1, hs.e2, hs.e3, hd, List.range_succ, hsel.before, hsel.alt, hsel.after]

/-- block exit on a `block` / `loop`: the probe waits for the construct's `end` -/
theorem rstep_sel_exit (last : Nat) (s : RState) (A B : List Instr) (sel : Instr) (pr : List Tok) (hsel : OnlyExit sel pr)
    (hs : Calm s) (hd : s.deleteBlock = none) (hb : s.body = A ++ sel :: B) (n : Nat) (hst : s.stack = List.range n)
    (hk : sel.kind = .block ∨ sel.kind = .loop) :
    let s' := rstep last s A.length sel
    s'.entry = [] ∧ s'.exit = [] ∧ s'.onElseOrEnd = [] ∧ s'.onEndBefore = [(n, { flagged := [], notFlagged := [pr] })]
      ∧ s'.onEndAfter = [] ∧ s'.deleteBlock = none ∧ s'.stack = List.range (n + 1) ∧ s'.nlocals = s.nlocals ∧ s'.added = s.added
      ∧ ∃ sel', s'.body = A ++ sel' :: B ∧ Clean sel' ∧ sel'.tok = sel.tok := by
  have hne := isEmpty_false_of_ne hsel.ne
  have hinstr : sel.hasInstr = true := by simp [Instr.hasInstr, hsel.blockExit, hne]
  have htop : top (List.range n ++ [n]) = n := by simp [top]
  rcases hk with hk | hk
  all_goals
    simp only [rstep, hs.entry, hs.exit, hk, hsel.blockAlt, hd, hb, hst, planSpecial, hinstr, hsel.blockEntry, hsel.blockExit,
      hsel.semAfter, hne, hs.e2, getInj, setInj, htop, List.length_range, modifyAt_mid,
      List.isEmpty_nil, Bool.not_true, Bool.not_false, Bool.false_and, Bool.false_eq_true, if_false, if_true, Option.isNone_none,
      Option.isSome_none, List.find?_nil, List.any_nil, List.nil_append]
    refine ⟨?_, ?_, ?_, ?_, ?_, ?_, ?_, ?_, ?_, ⟨_, rfl, ⟨?_, ?_, ?_, ?_, ?_, ?_, ?_⟩, ?_⟩⟩ <;>
      simp [hs.entry, hs.exit, hs.e1, hs.e2, hs.e3, hd, List.range_succ, hsel.before, hsel.alt, hsel.after, hsel.semAfter,
        hsel.blockEntry, hsel.blockAlt]

/-- semantic-after on a `block` / `loop` / `if`: the probe waits for the construct's `end` and goes behind it -/
theorem rstep_sel_semAfter (last : Nat) (s : RState) (A B : List Instr) (sel : Instr) (pr : List Tok) (hsel : OnlySemAfter sel pr)
    (hs : Calm s) (hd : s.deleteBlock = none) (hb : s.body = A ++ sel :: B) (n : Nat) (hst : s.stack = List.range n)
    (hk : sel.kind = .block ∨ sel.kind = .loop ∨ sel.kind = .if_) :
    let s' := rstep last s A.length sel
    s'.entry = [] ∧ s'.exit = [] ∧ s'.onElseOrEnd = [] ∧ s'.onEndBefore = []
      ∧ s'.onEndAfter = [(n, { flagged := [], notFlagged := [pr] })] ∧ s'.deleteBlock = none ∧ s'.stack = List.range (n + 1)
      ∧ s'.nlocals = s.nlocals ∧ s'.added = s.added
      ∧ ∃ sel', s'.body = A ++ sel' :: B ∧ Clean sel' ∧ sel'.tok = sel.tok := by
  have hne := isEmpty_false_of_ne hsel.ne
  have hinstr : sel.hasInstr = true := by simp [Instr.hasInstr, hsel.semAfter, hne]
  have htop : top (List.range n ++ [n]) = n := by simp [top]
  rcases hk with hk | hk | hk
  all_goals
    simp only [rstep, hs.entry, hs.exit, hk, hsel.blockAlt, hd, hb, hst, planSpecial, hinstr, hsel.blockEntry, hsel.blockExit,
      hsel.semAfter, hne, hs.e3, getInj, setInj, htop, List.length_range, modifyAt_mid,
      List.isEmpty_nil, Bool.not_true, Bool.not_false, Bool.false_and, Bool.false_eq_true, if_false, if_true, Option.isNone_none,
      Option.isSome_none, List.find?_nil, List.any_nil, List.nil_append]
    refine ⟨?_, ?_, ?_, ?_, ?_, ?_, ?_, ?_, ?_, ⟨_, rfl, ⟨?_, ?_, ?_, ?_, ?_, ?_, ?_⟩, ?_⟩⟩ <;>
      simp [hs.entry, hs.exit, hs.e1, hs.e2, hs.e3, hd, List.range_succ, hsel.before, hsel.alt, hsel.after, hsel.blockExit,
        hsel.blockEntry, hsel.blockAlt]

def parkedList (d : Nat) (t : Option (List Tok)) : List (Nat × ToInject) :=
  match t with
  | some pr => [(d, { flagged := [], notFlagged := [pr] })]
  | none => []

/-- the `end` the parked bodies wait for: they become its `before` / `after` code -/
theorem rstep_end_flush (last : Nat) (s : RState) (A B : List Instr) (ins : Instr) (hc : Clean ins) (d : Nat)
    (hent : s.entry = []) (hex : s.exit = []) (he1 : s.onElseOrEnd = []) (tb ta : Option (List Tok))
    (hB : s.onEndBefore = parkedList d tb) (hA : s.onEndAfter = parkedList d ta)
    (hd : s.deleteBlock = none) (hb : s.body = A ++ ins :: B) (hst : s.stack = List.range (d + 1)) (hk : ins.kind = .end_) :
    let s' := rstep last s A.length ins
    Calm s' ∧ s'.deleteBlock = none ∧ s'.stack = List.range d ∧ s'.nlocals = s.nlocals ∧ s'.added = s.added
      ∧ ∃ ins', s'.body = A ++ ins' :: B ∧ ins'.before = tb.getD [] ∧ ins'.after = ta.getD [] ∧ ins'.alt = none ∧ ins'.tok = ins.tok := by
  have hnone : ((none : Option Nat) == some d) = false := rfl
  cases tb <;> cases ta
  all_goals
    simp only [parkedList] at hB hA
    simp only [rstep, hent, hex, hk, hd, hb, hst, he1, hB, hA, hnone, range_succ_getLast, range_succ_dropLast,
      List.isEmpty_nil, Bool.not_true, Bool.false_and, Bool.false_eq_true, if_false, if_true, List.any_nil, List.any_cons,
      beq_self_eq_true, Bool.or_false, getInj, List.find?_cons_of_pos, List.find?_nil, removeInj, List.filter_nil,
      List.filter_cons, bne_self_eq_false, resolveBodies_plain, addBefore, addAfter, modifyAt_mid, planSpecial_clean _ _ _ hc]
    refine ⟨⟨?_, ?_, ?_, ?_, ?_⟩, ?_, ?_, ?_, ?_, ⟨_, rfl, ?_, ?_, ?_, ?_⟩⟩ <;>
      simp [hent, hex, he1, hd, hc.before, hc.after, hc.alt]

/-! ### whole bodies -/

/-- **block entry, every body.** A function whose only instrumentation is a block-entry probe on a `block` / `loop` / `if`
    is encoded with the probe right behind the opening instruction — wherever the construct sits and whatever follows. -/
theorem blockEntry_placed (f : Func) (pre rest : List Instr) (sel : Instr) (pr : List Tok)
    (hbody : f.body = pre ++ sel :: rest) (hrne : rest ≠ [])
    (hsp : f.hasSpecial = true) (hentry : f.entry = []) (hexit : f.exit = [])
    (hpre : ∀ x ∈ pre, Clean x) (hrest : ∀ x ∈ rest, Clean x) (hsel : OnlyEntry sel pr)
    (hk : sel.kind = .block ∨ sel.kind = .loop ∨ sel.kind = .if_)
    (n n2 : Nat) (hd1 : depthAfter pre 1 = some n) (hd2 : depthAfter rest (n + 1) = some n2) :
    lower f = (toks pre ++ [sel.tok] ++ pr ++ toks rest, f.added) := by
  have hplen : rest.length ≥ 1 := List.length_pos_iff.mpr hrne
  have hbody0 : modifyAt f.body (f.body.length - 1) (fun i => { i with mode := some .before })
      = pre ++ sel :: touchLast rest hrne := by
    have : f.body = (pre ++ [sel]) ++ rest := by rw [hbody]; simp
    rw [this, modifyAt_last _ rest hrne]; simp
  let last := f.body.length - 1
  let s0 : RState := { body := pre ++ sel :: touchLast rest hrne, entry := [], exit := [], nlocals := f.nlocals }
  obtain ⟨a1, a2, a3, a4, a5, a6, _⟩ := rloop_quiet last pre s0 0 1 n hpre ⟨rfl, rfl, rfl, rfl, rfl⟩ rfl rfl hd1
  have hb1 : (rloop last s0 0 pre).body = pre ++ sel :: touchLast rest hrne := a3
  obtain ⟨b1, b2, b3, b4, b5, sel', b6, b7, b8, b9, b10⟩ := rstep_sel_entry last _ pre (touchLast rest hrne) sel pr hsel a1 a2 hb1 n a4 hk
  obtain ⟨g1, g2, g3, g4, g5, g6, _⟩ := rloop_quiet last (touchLast rest hrne) _ (pre.length + 1) (n + 1) n2
    (touchLast_clean rest hrne hrest) b1 b2 b3 (by rw [touchLast_depth]; exact hd2)
  have hrun : rloop last s0 0 (pre ++ sel :: touchLast rest hrne)
      = rloop last (rstep last (rloop last s0 0 pre) pre.length sel) (pre.length + 1) (touchLast rest hrne) := by
    have : pre ++ sel :: touchLast rest hrne = pre ++ ([sel] ++ touchLast rest hrne) := by simp
    rw [this, rloop_append, List.singleton_append, rloop]; simp
  unfold lower resolveSpecial
  simp only [hsp, Bool.not_true, Bool.false_eq_true, if_false, hexit, hentry, List.isEmpty_nil, if_true, hbody0]
  show (emit { f with body := (rloop last s0 0 (pre ++ sel :: touchLast rest hrne)).body, fmode := none, entry := [], exit := [],
                      nlocals := (rloop last s0 0 (pre ++ sel :: touchLast rest hrne)).nlocals,
                      added := f.added + (rloop last s0 0 (pre ++ sel :: touchLast rest hrne)).added }, _) = _
  rw [hrun]
  refine Prod.ext ?_ (by simp only [g6, b5, a6]; rfl)
  simp only [emit, g3, b6]
  have hL : (pre ++ sel' :: touchLast rest hrne).length - 1 = pre.length + rest.length := by simp [touchLast_length]
  rw [hL]
  have hsplit : pre ++ sel' :: touchLast rest hrne = pre ++ ([sel'] ++ touchLast rest hrne) := by simp
  rw [hsplit, emitFrom_append, emitFrom_append, emitFrom_clean _ pre _ hpre,
    emitFrom_clean _ _ _ (touchLast_clean rest hrne hrest), touchLast_toks]
  simp [emitFrom, b7, b8, b9, b10]
  intro h; omega

/-- the resolver on a body whose only instrumentation waits for the `end` of the selected construct -/
theorem rloop_parked_region (last : Nat) (pre region post : List Instr) (sel endI : Instr) (tb ta : Option (List Tok)) (s0 : RState)
    (hs0 : Calm s0) (hd0 : s0.deleteBlock = none) (hb0 : s0.body = pre ++ sel :: region ++ endI :: post)
    (hst0 : s0.stack = List.range 1)
    (hpre : ∀ x ∈ pre, Clean x) (hreg : ∀ x ∈ region, Clean x) (hend : Clean endI) (hpost : ∀ x ∈ post, Clean x) (hendk : endI.kind = .end_)
    (n n2 : Nat) (hd1 : depthAfter pre 1 = some n) (hd2 : depthAfter region 0 = some 0) (hd3 : depthAfter post n = some n2)
    (hstep : ∀ (s : RState) (A B : List Instr), Calm s → s.deleteBlock = none → s.body = A ++ sel :: B → s.stack = List.range n →
      let s' := rstep last s A.length sel
      s'.entry = [] ∧ s'.exit = [] ∧ s'.onElseOrEnd = [] ∧ s'.onEndBefore = parkedList n tb ∧ s'.onEndAfter = parkedList n ta
        ∧ s'.deleteBlock = none ∧ s'.stack = List.range (n + 1) ∧ s'.nlocals = s.nlocals ∧ s'.added = s.added
        ∧ ∃ sel', s'.body = A ++ sel' :: B ∧ Clean sel' ∧ sel'.tok = sel.tok) :
    let s' := rloop last s0 0 (pre ++ sel :: region ++ endI :: post)
    s'.nlocals = s0.nlocals ∧ s'.added = s0.added
      ∧ ∃ sel' end', s'.body = pre ++ sel' :: region ++ end' :: post ∧ Clean sel' ∧ sel'.tok = sel.tok
          ∧ end'.before = tb.getD [] ∧ end'.after = ta.getD [] ∧ end'.alt = none ∧ end'.tok = endI.tok := by
  obtain ⟨a1, a2, a3, a4, a5, a6, _⟩ := rloop_quiet last pre s0 0 1 n hpre hs0 hd0 hst0 hd1
  have hb1 : (rloop last s0 0 pre).body = pre ++ sel :: (region ++ endI :: post) := by rw [a3, hb0]; simp
  obtain ⟨c1, c2, c3, c4, c5, c6, c7, c8, c9, sel', c10, c11, c12⟩ := hstep _ pre (region ++ endI :: post) a1 a2 hb1 a4
  have hpk : Parked n (rstep last (rloop last s0 0 pre) pre.length sel) := by
    refine ⟨c1, c2, c3, ?_, ?_⟩
    · rw [c4]; intro p hp; cases tb <;> simp [parkedList] at hp; subst hp; rfl
    · rw [c5]; intro p hp; cases ta <;> simp [parkedList] at hp; subst hp; rfl
  obtain ⟨e1, e2, e3, e4, e5, e6, e7, e8⟩ := rloop_parked last n region _ (pre.length + 1) 0 0 hreg hpk c6 (by simpa using c7) hd2
  have hb3 : (rloop last (rstep last (rloop last s0 0 pre) pre.length sel) (pre.length + 1) region).body
      = (pre ++ [sel'] ++ region) ++ endI :: post := by rw [e3, c10]; simp
  have h4 := rstep_end_flush last _ (pre ++ [sel'] ++ region) post endI hend n e1.entry e1.exit e1.e1 tb ta
    (by rw [e7, c4]) (by rw [e8, c5]) e2 hb3 (by simpa using e4) hendk
  simp only [List.length_append, List.length_singleton] at h4
  obtain ⟨g1, g2, g3, g4, g5, end', g6, g7, g8, g9, g10⟩ := h4
  obtain ⟨k1, k2, k3, k4, k5, k6, _⟩ := rloop_quiet last post _ (pre.length + 1 + region.length + 1) n n2 hpost g1 g2 g3 hd3
  have hsplit : pre ++ sel :: region ++ endI :: post = pre ++ ([sel] ++ (region ++ ([endI] ++ post))) := by simp
  rw [hsplit, rloop_append, List.singleton_append, rloop, rloop_append, List.singleton_append, rloop]
  simp only [Nat.zero_add]
  refine ⟨?_, ?_, sel', end', ?_, c11, c12, g7, g8, g9, g10⟩
  · rw [k5, g4, e5, c8, a5]
  · rw [k6, g5, e6, c9, a6]
  · rw [k3, g6]; simp

theorem lower_parked_region (f : Func) (pre region post : List Instr) (sel endI : Instr) (tb ta : Option (List Tok))
    (hbody : f.body = pre ++ sel :: region ++ endI :: post) (hpne : post ≠ [])
    (hsp : f.hasSpecial = true) (hentry : f.entry = []) (hexit : f.exit = [])
    (hpre : ∀ x ∈ pre, Clean x) (hreg : ∀ x ∈ region, Clean x) (hend : Clean endI) (hpost : ∀ x ∈ post, Clean x) (hendk : endI.kind = .end_)
    (n n2 : Nat) (hd1 : depthAfter pre 1 = some n) (hd2 : depthAfter region 0 = some 0) (hd3 : depthAfter post n = some n2)
    (hstep : ∀ (s : RState) (A B : List Instr), Calm s → s.deleteBlock = none → s.body = A ++ sel :: B → s.stack = List.range n →
      let s' := rstep (f.body.length - 1) s A.length sel
      s'.entry = [] ∧ s'.exit = [] ∧ s'.onElseOrEnd = [] ∧ s'.onEndBefore = parkedList n tb ∧ s'.onEndAfter = parkedList n ta
        ∧ s'.deleteBlock = none ∧ s'.stack = List.range (n + 1) ∧ s'.nlocals = s.nlocals ∧ s'.added = s.added
        ∧ ∃ sel', s'.body = A ++ sel' :: B ∧ Clean sel' ∧ sel'.tok = sel.tok) :
    lower f = (toks pre ++ [sel.tok] ++ toks region ++ tb.getD [] ++ [endI.tok] ++ ta.getD [] ++ toks post, f.added) := by
  have hplen : post.length ≥ 1 := List.length_pos_iff.mpr hpne
  have hbody0 : modifyAt f.body (f.body.length - 1) (fun i => { i with mode := some .before })
      = pre ++ sel :: region ++ endI :: touchLast post hpne := by
    have : f.body = (pre ++ sel :: region ++ [endI]) ++ post := by rw [hbody]; simp
    rw [this, modifyAt_last _ post hpne]; simp
  have hres := rloop_parked_region (f.body.length - 1) pre region (touchLast post hpne) sel endI tb ta
    { body := pre ++ sel :: region ++ endI :: touchLast post hpne, entry := [], exit := [], nlocals := f.nlocals }
    ⟨rfl, rfl, rfl, rfl, rfl⟩ rfl rfl rfl hpre hreg hend (touchLast_clean post hpne hpost) hendk n n2 hd1 hd2
    (by rw [touchLast_depth]; exact hd3) hstep
  obtain ⟨_, r2, sel', end', r3, r4, r5, r6, r7, r8, r9⟩ := hres
  unfold lower resolveSpecial
  simp only [hsp, Bool.not_true, Bool.false_eq_true, if_false, hexit, hentry, List.isEmpty_nil, if_true, hbody0]
  simp only [emit, r3, r2]
  refine Prod.ext ?_ (by simp)
  simp only
  have hL : (pre ++ sel' :: region ++ end' :: touchLast post hpne).length - 1 = pre.length + region.length + 1 + post.length := by
    simp [touchLast_length]; omega
  rw [hL]
  have hsplit : pre ++ sel' :: region ++ end' :: touchLast post hpne
      = pre ++ ([sel'] ++ (region ++ ([end'] ++ touchLast post hpne))) := by simp
  rw [hsplit, emitFrom_append, emitFrom_append, emitFrom_append, emitFrom_append]
  rw [emitFrom_clean _ pre _ hpre, emitFrom_clean _ _ _ (touchLast_clean post hpne hpost), touchLast_toks,
    emitFrom_clean _ region _ hreg,
    emitFrom_clean _ [sel'] _ (by intro x hx; simp at hx; subst hx; exact r4)]
  have hnotend : ¬ (0 + pre.length + [sel'].length + region.length ≥ pre.length + region.length + 1 + post.length) := by
    simp; omega
  simp only [emitFrom, r6, r7, r8, r9, hnotend, if_false, toks, List.map_cons, List.map_nil, r5, List.append_nil]
  simp [List.append_assoc]

/-- **block exit, every body** (`block` / `loop`): the probe sits in front of the construct's matching `end` -/
theorem blockExit_placed (f : Func) (pre region post : List Instr) (sel endI : Instr) (pr : List Tok)
    (hbody : f.body = pre ++ sel :: region ++ endI :: post) (hpne : post ≠ [])
    (hsp : f.hasSpecial = true) (hentry : f.entry = []) (hexit : f.exit = [])
    (hpre : ∀ x ∈ pre, Clean x) (hreg : ∀ x ∈ region, Clean x) (hend : Clean endI) (hpost : ∀ x ∈ post, Clean x)
    (hsel : OnlyExit sel pr) (hk : sel.kind = .block ∨ sel.kind = .loop) (hendk : endI.kind = .end_)
    (n n2 : Nat) (hd1 : depthAfter pre 1 = some n) (hd2 : depthAfter region 0 = some 0) (hd3 : depthAfter post n = some n2) :
    lower f = (toks pre ++ [sel.tok] ++ toks region ++ pr ++ [endI.tok] ++ toks post, f.added) := by
  have := lower_parked_region f pre region post sel endI (some pr) none hbody hpne hsp hentry hexit hpre hreg hend hpost hendk
    n n2 hd1 hd2 hd3 (fun s A B hs hd hb hst => by
      simpa [parkedList] using rstep_sel_exit (f.body.length - 1) s A B sel pr hsel hs hd hb n hst hk)
  simpa using this

/-- **semantic-after on a construct, every body** (`block` / `loop` / `if`): the probe sits behind the matching `end` -/
theorem semAfter_placed (f : Func) (pre region post : List Instr) (sel endI : Instr) (pr : List Tok)
    (hbody : f.body = pre ++ sel :: region ++ endI :: post) (hpne : post ≠ [])
    (hsp : f.hasSpecial = true) (hentry : f.entry = []) (hexit : f.exit = [])
    (hpre : ∀ x ∈ pre, Clean x) (hreg : ∀ x ∈ region, Clean x) (hend : Clean endI) (hpost : ∀ x ∈ post, Clean x)
    (hsel : OnlySemAfter sel pr) (hk : sel.kind = .block ∨ sel.kind = .loop ∨ sel.kind = .if_) (hendk : endI.kind = .end_)
    (n n2 : Nat) (hd1 : depthAfter pre 1 = some n) (hd2 : depthAfter region 0 = some 0) (hd3 : depthAfter post n = some n2) :
    lower f = (toks pre ++ [sel.tok] ++ toks region ++ [endI.tok] ++ pr ++ toks post, f.added) := by
  have := lower_parked_region f pre region post sel endI none (some pr) hbody hpne hsp hentry hexit hpre hreg hend hpost hendk
    n n2 hd1 hd2 hd3 (fun s A B hs hd hb hst => by
      simpa [parkedList] using rstep_sel_semAfter (f.body.length - 1) s A B sel pr hsel hs hd hb n hst hk)
  simpa using this

/-! ### the same on an `else` (the construct is the arm; its `end` is the `end` of the `if`) -/

theorem rstep_sel_exit_else (last : Nat) (s : RState) (A B : List Instr) (sel : Instr) (pr : List Tok) (hsel : OnlyExit sel pr)
    (hs : Calm s) (hd : s.deleteBlock = none) (hb : s.body = A ++ sel :: B) (n : Nat) (hst : s.stack = List.range (n + 1))
    (hk : sel.kind = .else_) :
    let s' := rstep last s A.length sel
    s'.entry = [] ∧ s'.exit = [] ∧ s'.onElseOrEnd = [] ∧ s'.onEndBefore = parkedList n (some pr)
      ∧ s'.onEndAfter = parkedList n none ∧ s'.deleteBlock = none ∧ s'.stack = List.range (n + 1) ∧ s'.nlocals = s.nlocals
      ∧ s'.added = s.added ∧ ∃ sel', s'.body = A ++ sel' :: B ∧ Clean sel' ∧ sel'.tok = sel.tok := by
  have hne := isEmpty_false_of_ne hsel.ne
  have hinstr : sel.hasInstr = true := by simp [Instr.hasInstr, hsel.blockExit, hne]
  simp only [rstep, hs.entry, hs.exit, hk, hsel.blockAlt, hd, hb, hst, hs.e1, planSpecial, hinstr, hsel.blockEntry, hsel.blockExit,
    hsel.semAfter, hne, hs.e2, getInj, setInj, top_range_succ, modifyAt_mid, parkedList,
    List.isEmpty_nil, Bool.not_true, Bool.not_false, Bool.false_and, Bool.false_eq_true, if_false, if_true, Option.isNone_none,
    Option.isSome_none, List.find?_nil, List.any_nil, List.nil_append]
  refine ⟨?_, ?_, ?_, ?_, ?_, ?_, ?_, ?_, ?_, ⟨_, rfl, ⟨?_, ?_, ?_, ?_, ?_, ?_, ?_⟩, ?_⟩⟩ <;>
    simp [hs.entry, hs.exit, hs.e1, hs.e2, hs.e3, hd, hsel.before, hsel.alt, hsel.after, hsel.semAfter, hsel.blockEntry, hsel.blockAlt]

theorem rstep_sel_semAfter_else (last : Nat) (s : RState) (A B : List Instr) (sel : Instr) (pr : List Tok) (hsel : OnlySemAfter sel pr)
    (hs : Calm s) (hd : s.deleteBlock = none) (hb : s.body = A ++ sel :: B) (n : Nat) (hst : s.stack = List.range (n + 1))
    (hk : sel.kind = .else_) :
    let s' := rstep last s A.length sel
    s'.entry = [] ∧ s'.exit = [] ∧ s'.onElseOrEnd = [] ∧ s'.onEndBefore = parkedList n none
      ∧ s'.onEndAfter = parkedList n (some pr) ∧ s'.deleteBlock = none ∧ s'.stack = List.range (n + 1) ∧ s'.nlocals = s.nlocals
      ∧ s'.added = s.added ∧ ∃ sel', s'.body = A ++ sel' :: B ∧ Clean sel' ∧ sel'.tok = sel.tok := by
  have hne := isEmpty_false_of_ne hsel.ne
  have hinstr : sel.hasInstr = true := by simp [Instr.hasInstr, hsel.semAfter, hne]
  simp only [rstep, hs.entry, hs.exit, hk, hsel.blockAlt, hd, hb, hst, hs.e1, planSpecial, hinstr, hsel.blockEntry, hsel.blockExit,
    hsel.semAfter, hne, hs.e3, getInj, setInj, top_range_succ, modifyAt_mid, parkedList,
    List.isEmpty_nil, Bool.not_true, Bool.not_false, Bool.false_and, Bool.false_eq_true, if_false, if_true, Option.isNone_none,
    Option.isSome_none, List.find?_nil, List.any_nil, List.nil_append]
  refine ⟨?_, ?_, ?_, ?_, ?_, ?_, ?_, ?_, ?_, ⟨_, rfl, ⟨?_, ?_, ?_, ?_, ?_, ?_, ?_⟩, ?_⟩⟩ <;>
    simp [hs.entry, hs.exit, hs.e1, hs.e2, hs.e3, hd, hsel.before, hsel.alt, hsel.after, hsel.blockExit, hsel.blockEntry, hsel.blockAlt]

/-- the core for an `else`: the stack is not pushed; the bodies wait for the `end` of the enclosing `if` (id `n`) -/
theorem rloop_parked_region_else (last : Nat) (pre region post : List Instr) (sel endI : Instr) (tb ta : Option (List Tok)) (s0 : RState)
    (hs0 : Calm s0) (hd0 : s0.deleteBlock = none) (hb0 : s0.body = pre ++ sel :: region ++ endI :: post)
    (hst0 : s0.stack = List.range 1)
    (hpre : ∀ x ∈ pre, Clean x) (hreg : ∀ x ∈ region, Clean x) (hend : Clean endI) (hpost : ∀ x ∈ post, Clean x) (hendk : endI.kind = .end_)
    (n n2 : Nat) (hd1 : depthAfter pre 1 = some (n + 1)) (hd2 : depthAfter region 0 = some 0) (hd3 : depthAfter post n = some n2)
    (hstep : ∀ (s : RState) (A B : List Instr), Calm s → s.deleteBlock = none → s.body = A ++ sel :: B → s.stack = List.range (n + 1) →
      let s' := rstep last s A.length sel
      s'.entry = [] ∧ s'.exit = [] ∧ s'.onElseOrEnd = [] ∧ s'.onEndBefore = parkedList n tb ∧ s'.onEndAfter = parkedList n ta
        ∧ s'.deleteBlock = none ∧ s'.stack = List.range (n + 1) ∧ s'.nlocals = s.nlocals ∧ s'.added = s.added
        ∧ ∃ sel', s'.body = A ++ sel' :: B ∧ Clean sel' ∧ sel'.tok = sel.tok) :
    let s' := rloop last s0 0 (pre ++ sel :: region ++ endI :: post)
    s'.nlocals = s0.nlocals ∧ s'.added = s0.added
      ∧ ∃ sel' end', s'.body = pre ++ sel' :: region ++ end' :: post ∧ Clean sel' ∧ sel'.tok = sel.tok
          ∧ end'.before = tb.getD [] ∧ end'.after = ta.getD [] ∧ end'.alt = none ∧ end'.tok = endI.tok := by
  obtain ⟨a1, a2, a3, a4, a5, a6, _⟩ := rloop_quiet last pre s0 0 1 (n + 1) hpre hs0 hd0 hst0 hd1
  have hb1 : (rloop last s0 0 pre).body = pre ++ sel :: (region ++ endI :: post) := by rw [a3, hb0]; simp
  obtain ⟨c1, c2, c3, c4, c5, c6, c7, c8, c9, sel', c10, c11, c12⟩ := hstep _ pre (region ++ endI :: post) a1 a2 hb1 a4
  have hpk : Parked n (rstep last (rloop last s0 0 pre) pre.length sel) := by
    refine ⟨c1, c2, c3, ?_, ?_⟩
    · rw [c4]; intro p hp; cases tb <;> simp [parkedList] at hp; subst hp; rfl
    · rw [c5]; intro p hp; cases ta <;> simp [parkedList] at hp; subst hp; rfl
  obtain ⟨e1, e2, e3, e4, e5, e6, e7, e8⟩ := rloop_parked last n region _ (pre.length + 1) 0 0 hreg hpk c6 (by simpa using c7) hd2
  have hb3 : (rloop last (rstep last (rloop last s0 0 pre) pre.length sel) (pre.length + 1) region).body
      = (pre ++ [sel'] ++ region) ++ endI :: post := by rw [e3, c10]; simp
  have h4 := rstep_end_flush last _ (pre ++ [sel'] ++ region) post endI hend n e1.entry e1.exit e1.e1 tb ta
    (by rw [e7, c4]) (by rw [e8, c5]) e2 hb3 (by simpa using e4) hendk
  simp only [List.length_append, List.length_singleton] at h4
  obtain ⟨g1, g2, g3, g4, g5, end', g6, g7, g8, g9, g10⟩ := h4
  obtain ⟨k1, k2, k3, k4, k5, k6, _⟩ := rloop_quiet last post _ (pre.length + 1 + region.length + 1) n n2 hpost g1 g2 g3 hd3
  have hsplit : pre ++ sel :: region ++ endI :: post = pre ++ ([sel] ++ (region ++ ([endI] ++ post))) := by simp
  rw [hsplit, rloop_append, List.singleton_append, rloop, rloop_append, List.singleton_append, rloop]
  simp only [Nat.zero_add]
  refine ⟨?_, ?_, sel', end', ?_, c11, c12, g7, g8, g9, g10⟩
  · rw [k5, g4, e5, c8, a5]
  · rw [k6, g5, e6, c9, a6]
  · rw [k3, g6]; simp

/-- from what the resolver leaves (the probe as `before` / `after` code of the closing `end`) to the encoded function -/
theorem lower_from_region (f : Func) (pre region post : List Instr) (sel endI : Instr) (tb ta : Option (List Tok))
    (hbody : f.body = pre ++ sel :: region ++ endI :: post) (hpne : post ≠ [])
    (hsp : f.hasSpecial = true) (hentry : f.entry = []) (hexit : f.exit = [])
    (hpre : ∀ x ∈ pre, Clean x) (hreg : ∀ x ∈ region, Clean x) (hpost : ∀ x ∈ post, Clean x)
    (hres : let s' := rloop (f.body.length - 1)
              { body := pre ++ sel :: region ++ endI :: touchLast post hpne, entry := [], exit := [], nlocals := f.nlocals } 0
              (pre ++ sel :: region ++ endI :: touchLast post hpne)
      s'.added = 0 ∧ ∃ sel' end', s'.body = pre ++ sel' :: region ++ end' :: touchLast post hpne ∧ Clean sel' ∧ sel'.tok = sel.tok
          ∧ end'.before = tb.getD [] ∧ end'.after = ta.getD [] ∧ end'.alt = none ∧ end'.tok = endI.tok) :
    lower f = (toks pre ++ [sel.tok] ++ toks region ++ tb.getD [] ++ [endI.tok] ++ ta.getD [] ++ toks post, f.added) := by
  have hplen : post.length ≥ 1 := List.length_pos_iff.mpr hpne
  have hbody0 : modifyAt f.body (f.body.length - 1) (fun i => { i with mode := some .before })
      = pre ++ sel :: region ++ endI :: touchLast post hpne := by
    have : f.body = (pre ++ sel :: region ++ [endI]) ++ post := by rw [hbody]; simp
    rw [this, modifyAt_last _ post hpne]; simp
  obtain ⟨r2, sel', end', r3, r4, r5, r6, r7, r8, r9⟩ := hres
  unfold lower resolveSpecial
  simp only [hsp, Bool.not_true, Bool.false_eq_true, if_false, hexit, hentry, List.isEmpty_nil, if_true, hbody0]
  simp only [emit, r3, r2]
  refine Prod.ext ?_ (by simp)
  simp only
  have hL : (pre ++ sel' :: region ++ end' :: touchLast post hpne).length - 1 = pre.length + region.length + 1 + post.length := by
    simp [touchLast_length]; omega
  rw [hL]
  have hsplit : pre ++ sel' :: region ++ end' :: touchLast post hpne
      = pre ++ ([sel'] ++ (region ++ ([end'] ++ touchLast post hpne))) := by simp
  rw [hsplit, emitFrom_append, emitFrom_append, emitFrom_append, emitFrom_append]
  rw [emitFrom_clean _ pre _ hpre, emitFrom_clean _ _ _ (touchLast_clean post hpne hpost), touchLast_toks,
    emitFrom_clean _ region _ hreg,
    emitFrom_clean _ [sel'] _ (by intro x hx; simp at hx; subst hx; exact r4)]
  have hnotend : ¬ (0 + pre.length + [sel'].length + region.length ≥ pre.length + region.length + 1 + post.length) := by
    simp; omega
  simp only [emitFrom, r6, r7, r8, r9, hnotend, if_false, toks, List.map_cons, List.map_nil, r5, List.append_nil]
  simp [List.append_assoc]

/-- **block exit on an `else`**: the probe sits in front of the `end` of the `if` -/
theorem blockExit_placed_else (f : Func) (pre region post : List Instr) (sel endI : Instr) (pr : List Tok)
    (hbody : f.body = pre ++ sel :: region ++ endI :: post) (hpne : post ≠ [])
    (hsp : f.hasSpecial = true) (hentry : f.entry = []) (hexit : f.exit = [])
    (hpre : ∀ x ∈ pre, Clean x) (hreg : ∀ x ∈ region, Clean x) (hend : Clean endI) (hpost : ∀ x ∈ post, Clean x)
    (hsel : OnlyExit sel pr) (hk : sel.kind = .else_) (hendk : endI.kind = .end_)
    (n n2 : Nat) (hd1 : depthAfter pre 1 = some (n + 1)) (hd2 : depthAfter region 0 = some 0) (hd3 : depthAfter post n = some n2) :
    lower f = (toks pre ++ [sel.tok] ++ toks region ++ pr ++ [endI.tok] ++ toks post, f.added) := by
  have hcore := rloop_parked_region_else (f.body.length - 1) pre region (touchLast post hpne) sel endI (some pr) none
    { body := pre ++ sel :: region ++ endI :: touchLast post hpne, entry := [], exit := [], nlocals := f.nlocals }
    ⟨rfl, rfl, rfl, rfl, rfl⟩ rfl rfl rfl hpre hreg hend (touchLast_clean post hpne hpost) hendk n n2 hd1 hd2
    (by rw [touchLast_depth]; exact hd3)
    (fun s A B hs hd hb hst => rstep_sel_exit_else (f.body.length - 1) s A B sel pr hsel hs hd hb n hst hk)
  have := lower_from_region f pre region post sel endI (some pr) none hbody hpne hsp hentry hexit hpre hreg hpost ⟨hcore.2.1, hcore.2.2⟩
  simpa using this

/-- **semantic-after on an `else`**: the probe sits behind the `end` of the `if` -/
theorem semAfter_placed_else (f : Func) (pre region post : List Instr) (sel endI : Instr) (pr : List Tok)
    (hbody : f.body = pre ++ sel :: region ++ endI :: post) (hpne : post ≠ [])
    (hsp : f.hasSpecial = true) (hentry : f.entry = []) (hexit : f.exit = [])
    (hpre : ∀ x ∈ pre, Clean x) (hreg : ∀ x ∈ region, Clean x) (hend : Clean endI) (hpost : ∀ x ∈ post, Clean x)
    (hsel : OnlySemAfter sel pr) (hk : sel.kind = .else_) (hendk : endI.kind = .end_)
    (n n2 : Nat) (hd1 : depthAfter pre 1 = some (n + 1)) (hd2 : depthAfter region 0 = some 0) (hd3 : depthAfter post n = some n2) :
    lower f = (toks pre ++ [sel.tok] ++ toks region ++ [endI.tok] ++ pr ++ toks post, f.added) := by
  have hcore := rloop_parked_region_else (f.body.length - 1) pre region (touchLast post hpne) sel endI none (some pr)
    { body := pre ++ sel :: region ++ endI :: touchLast post hpne, entry := [], exit := [], nlocals := f.nlocals }
    ⟨rfl, rfl, rfl, rfl, rfl⟩ rfl rfl rfl hpre hreg hend (touchLast_clean post hpne hpost) hendk n n2 hd1 hd2
    (by rw [touchLast_depth]; exact hd3)
    (fun s A B hs hd hb hst => rstep_sel_semAfter_else (f.body.length - 1) s A B sel pr hsel hs hd hb n hst hk)
  have := lower_from_region f pre region post sel endI none (some pr) hbody hpne hsp hentry hexit hpre hreg hpost ⟨hcore.2.1, hcore.2.2⟩
  simpa using this

/-! ### block exit on an `if`: the probe waits for the `else` of that `if`, or for its `end` when there is none -/

/-- only bodies waiting for the `else` / `end` of the `if` with id `d` are parked -/
structure ParkedE (d : Nat) (s : RState) : Prop where
  entry : s.entry = []
  exit : s.exit = []
  ke : ∀ p ∈ s.onElseOrEnd, p.1 = d
  e2 : s.onEndBefore = []
  e3 : s.onEndAfter = []

/-- depth bookkeeping inside an arm: an `else` at the arm's own level does not belong to it -/
def depthStepE (k : Kind) (n : Nat) : Option Nat :=
  match k with
  | .else_ => if n = 0 then none else some n
  | k => depthStep k n

def depthAfterE : List Instr → Nat → Option Nat
  | [], n => some n
  | x :: xs, n => (depthStepE x.kind n).bind (depthAfterE xs)

theorem rstep_clean_parkedE (last : Nat) (d : Nat) (s : RState) (idx : Nat) (ins : Instr) (hc : Clean ins) (hs : ParkedE d s)
    (hd : s.deleteBlock = none) (m : Nat) (hst : s.stack = List.range (d + 1 + m)) (m' : Nat) (hn : depthStepE ins.kind m = some m') :
    let s' := rstep last s idx ins
    ParkedE d s' ∧ s'.deleteBlock = none ∧ s'.body = s.body ∧ s'.stack = List.range (d + 1 + m') ∧ s'.nlocals = s.nlocals
      ∧ s'.added = s.added ∧ s'.onElseOrEnd = s.onElseOrEnd := by
  have hb := hc.blockAlt
  cases hk : ins.kind with
  | block | loop | if_ =>
    all_goals
      simp only [hk, depthStepE, depthStep, Option.some.injEq] at hn
      subst hn
      simp only [rstep, hs.entry, hs.exit, hk, hb, hd, List.isEmpty_nil, Bool.not_true, Bool.false_and, Bool.false_eq_true,
        if_false, if_true, Option.isNone_none, Option.isSome_none, planSpecial_clean _ _ _ hc]
      refine ⟨⟨?_, ?_, ?_, ?_, ?_⟩, ?_, ?_, ?_, ?_, ?_, ?_⟩ <;>
        first
          | exact hs.ke
          | (simp only [hst]; rw [show d + 1 + (m + 1) = (d + 1 + m) + 1 by omega, List.range_succ]; simp)
          | simp [hs.entry, hs.exit, hs.e2, hs.e3, hd, hst]
  | end_ =>
    simp only [hk, depthStepE, depthStep] at hn
    split at hn
    · cases hn
    · rename_i hm0
      simp only [Option.some.injEq] at hn
      subst hn
      have hst' : s.stack = List.range ((d + m) + 1) := by rw [hst]; congr 1; omega
      have hne : d + m ≠ d := by omega
      have hE := removeInj_other s.onElseOrEnd d (d + m) hs.ke hne
      have hEa := any_key_false s.onElseOrEnd d (d + m) hs.ke hne
      have hnone : ((none : Option Nat) == some (d + m)) = false := rfl
      simp only [rstep, hs.entry, hs.exit, hk, hd, hst', range_succ_getLast, range_succ_dropLast, hs.e2, hs.e3, hnone, hEa,
        List.isEmpty_nil, Bool.not_true, Bool.false_and, Bool.false_eq_true, if_false, if_true, List.any_nil,
        planSpecial_clean _ _ _ hc, removeInj, List.filter_nil]
      refine ⟨⟨?_, ?_, ?_, ?_, ?_⟩, ?_, ?_, ?_, ?_, ?_, ?_⟩ <;>
        first
          | exact hs.ke
          | (show List.range (d + m) = List.range (d + 1 + (m - 1)); congr 1; omega)
          | simp [hs.entry, hs.exit, hs.e2, hs.e3, hd]
  | else_ =>
    simp only [hk, depthStepE] at hn
    split at hn
    · cases hn
    · rename_i hm0
      simp only [Option.some.injEq] at hn
      subst hn
      obtain ⟨m1, rfl⟩ : ∃ m1, m = m1 + 1 := ⟨m - 1, by omega⟩
      have hst' : s.stack = List.range ((d + 1 + m1) + 1) := by rw [hst]; congr 1
      have hne : d + 1 + m1 ≠ d := by omega
      have hEa := any_key_false s.onElseOrEnd d (d + 1 + m1) hs.ke hne
      simp only [rstep, hs.entry, hs.exit, hk, hb, hd, hst', top_range_succ, hEa, List.isEmpty_nil, Bool.not_true, Bool.false_and,
        Bool.false_eq_true, if_false, if_true, Option.isNone_none, Option.isSome_none, planSpecial_clean _ _ _ hc]
      refine ⟨⟨?_, ?_, ?_, ?_, ?_⟩, ?_, ?_, ?_, ?_, ?_, ?_⟩ <;>
        first
          | exact hs.ke
          | exact hst
          | rfl
          | simp [hs.entry, hs.exit, hs.e2, hs.e3, hd]
  | br _ | brIf _ | brTable _ _ | other | exitLike =>
    all_goals
      simp only [hk, depthStepE, depthStep, Option.some.injEq] at hn
      subst hn
      simp only [rstep, hs.entry, hs.exit, hk, hd, List.isEmpty_nil, Bool.not_true, Bool.false_and, Bool.false_eq_true,
        if_false, if_true, Option.isSome_none, planSpecial_clean _ _ _ hc]
      refine ⟨⟨?_, ?_, ?_, ?_, ?_⟩, ?_, ?_, ?_, ?_, ?_, ?_⟩ <;>
        first
          | exact hs.ke
          | exact hst
          | simp [hs.entry, hs.exit, hs.e2, hs.e3, hd]

theorem rloop_parkedE (last : Nat) (d : Nat) : ∀ (xs : List Instr) (s : RState) (k m m' : Nat), (∀ x ∈ xs, Clean x) →
    ParkedE d s → s.deleteBlock = none → s.stack = List.range (d + 1 + m) → depthAfterE xs m = some m' →
    let s' := rloop last s k xs
    ParkedE d s' ∧ s'.deleteBlock = none ∧ s'.body = s.body ∧ s'.stack = List.range (d + 1 + m') ∧ s'.nlocals = s.nlocals
      ∧ s'.added = s.added ∧ s'.onElseOrEnd = s.onElseOrEnd := by
  intro xs
  induction xs with
  | nil =>
    intro s k m m' _ hs hd hst hn
    simp only [depthAfterE, Option.some.injEq] at hn
    subst hn
    exact ⟨hs, hd, rfl, hst, rfl, rfl, rfl⟩
  | cons x xs ih =>
    intro s k m m' hc hs hd hst hn
    simp only [depthAfterE] at hn
    cases h1 : depthStepE x.kind m with
    | none => simp [h1] at hn
    | some m1 =>
      simp only [h1, Option.bind_some] at hn
      obtain ⟨a1, a2, a3, a4, a5, a6, a7⟩ := rstep_clean_parkedE last d s k x (hc x (List.mem_cons_self ..)) hs hd m hst m1 h1
      obtain ⟨b1, b2, b3, b4, b5, b6, b7⟩ := ih (rstep last s k x) (k + 1) m1 m'
        (fun y hy => hc y (List.mem_cons_of_mem _ hy)) a1 a2 a4 hn
      exact ⟨b1, b2, b3.trans a3, b4, b5.trans a5, b6.trans a6, b7.trans a7⟩

theorem rstep_sel_exit_if (last : Nat) (s : RState) (A B : List Instr) (sel : Instr) (pr : List Tok) (hsel : OnlyExit sel pr)
    (hs : Calm s) (hd : s.deleteBlock = none) (hb : s.body = A ++ sel :: B) (n : Nat) (hst : s.stack = List.range n)
    (hk : sel.kind = .if_) :
    let s' := rstep last s A.length sel
    s'.entry = [] ∧ s'.exit = [] ∧ s'.onElseOrEnd = [(n, { flagged := [], notFlagged := [pr] })] ∧ s'.onEndBefore = []
      ∧ s'.onEndAfter = [] ∧ s'.deleteBlock = none ∧ s'.stack = List.range (n + 1) ∧ s'.nlocals = s.nlocals ∧ s'.added = s.added
      ∧ ∃ sel', s'.body = A ++ sel' :: B ∧ Clean sel' ∧ sel'.tok = sel.tok := by
  have hne := isEmpty_false_of_ne hsel.ne
  have hinstr : sel.hasInstr = true := by simp [Instr.hasInstr, hsel.blockExit, hne]
  have htop : top (List.range n ++ [n]) = n := by simp [top]
  simp only [rstep, hs.entry, hs.exit, hk, hsel.blockAlt, hd, hb, hst, planSpecial, hinstr, hsel.blockEntry, hsel.blockExit,
    hsel.semAfter, hne, hs.e1, getInj, setInj, htop, List.length_range, modifyAt_mid,
    List.isEmpty_nil, Bool.not_true, Bool.not_false, Bool.false_and, Bool.false_eq_true, if_false, if_true, Option.isNone_none,
    Option.isSome_none, List.find?_nil, List.any_nil, List.nil_append]
  refine ⟨?_, ?_, ?_, ?_, ?_, ?_, ?_, ?_, ?_, ⟨_, rfl, ⟨?_, ?_, ?_, ?_, ?_, ?_, ?_⟩, ?_⟩⟩ <;>
    simp [hs.entry, hs.exit, hs.e1, hs.e2, hs.e3, hd, List.range_succ, hsel.before, hsel.alt, hsel.after, hsel.semAfter,
      hsel.blockEntry, hsel.blockAlt]

/-- the `else` of the `if` the body waits for: the body goes in front of it -/
theorem rstep_else_flushE (last : Nat) (s : RState) (A B : List Instr) (ins : Instr) (hc : Clean ins) (d : Nat) (pr : List Tok)
    (hent : s.entry = []) (hex : s.exit = []) (hE : s.onElseOrEnd = [(d, { flagged := [], notFlagged := [pr] })])
    (hB : s.onEndBefore = []) (hA : s.onEndAfter = [])
    (hd : s.deleteBlock = none) (hb : s.body = A ++ ins :: B) (hst : s.stack = List.range (d + 1)) (hk : ins.kind = .else_) :
    let s' := rstep last s A.length ins
    Calm s' ∧ s'.deleteBlock = none ∧ s'.stack = List.range (d + 1) ∧ s'.nlocals = s.nlocals ∧ s'.added = s.added
      ∧ ∃ ins', s'.body = A ++ ins' :: B ∧ ins'.before = pr ∧ ins'.after = [] ∧ ins'.alt = none ∧ ins'.tok = ins.tok := by
  simp only [rstep, hent, hex, hk, hc.blockAlt, hd, hb, hst, hE, top_range_succ,
    List.isEmpty_nil, Bool.not_true, Bool.false_and, Bool.false_eq_true, if_false, if_true, List.any_cons, List.any_nil,
    beq_self_eq_true, Bool.or_false, getInj, List.find?_cons_of_pos, removeInj, List.filter_cons, List.filter_nil,
    bne_self_eq_false, resolveBodies_plain, addBefore, modifyAt_mid, Option.isNone_none, Option.isSome_none,
    planSpecial_clean _ _ _ hc]
  refine ⟨⟨?_, ?_, ?_, ?_, ?_⟩, ?_, ?_, ?_, ?_, ⟨_, rfl, ?_, ?_, ?_, ?_⟩⟩ <;>
    simp [hent, hex, hB, hA, hd, hc.before, hc.after, hc.alt]

/-- … or its `end`, when the `if` has no `else` -/
theorem rstep_end_flushE (last : Nat) (s : RState) (A B : List Instr) (ins : Instr) (hc : Clean ins) (d : Nat) (pr : List Tok)
    (hent : s.entry = []) (hex : s.exit = []) (hE : s.onElseOrEnd = [(d, { flagged := [], notFlagged := [pr] })])
    (hB : s.onEndBefore = []) (hA : s.onEndAfter = [])
    (hd : s.deleteBlock = none) (hb : s.body = A ++ ins :: B) (hst : s.stack = List.range (d + 1)) (hk : ins.kind = .end_) :
    let s' := rstep last s A.length ins
    Calm s' ∧ s'.deleteBlock = none ∧ s'.stack = List.range d ∧ s'.nlocals = s.nlocals ∧ s'.added = s.added
      ∧ ∃ ins', s'.body = A ++ ins' :: B ∧ ins'.before = pr ∧ ins'.after = [] ∧ ins'.alt = none ∧ ins'.tok = ins.tok := by
  have hnone : ((none : Option Nat) == some d) = false := rfl
  simp only [rstep, hent, hex, hk, hd, hb, hst, hE, hB, hA, hnone, range_succ_getLast, range_succ_dropLast,
    List.isEmpty_nil, Bool.not_true, Bool.false_and, Bool.false_eq_true, if_false, if_true, List.any_cons, List.any_nil,
    beq_self_eq_true, Bool.or_false, getInj, List.find?_cons_of_pos, removeInj, List.filter_cons, List.filter_nil,
    bne_self_eq_false, resolveBodies_plain, addBefore, modifyAt_mid, planSpecial_clean _ _ _ hc]
  refine ⟨⟨?_, ?_, ?_, ?_, ?_⟩, ?_, ?_, ?_, ?_, ⟨_, rfl, ?_, ?_, ?_, ?_⟩⟩ <;>
    simp [hent, hex, hd, hc.before, hc.after, hc.alt]

/-- **block exit on an `if`, every body.** `arm` is the then-arm (no `else` of this `if` inside), `closer` the `else` of the
    `if` — or its `end` when it has no `else` —, `rest` everything behind: the probe sits in front of `closer`. -/
theorem blockExit_placed_if (f : Func) (pre arm rest : List Instr) (sel closer : Instr) (pr : List Tok)
    (hbody : f.body = pre ++ sel :: arm ++ closer :: rest) (hrne : rest ≠ [])
    (hsp : f.hasSpecial = true) (hentry : f.entry = []) (hexit : f.exit = [])
    (hpre : ∀ x ∈ pre, Clean x) (harm : ∀ x ∈ arm, Clean x) (hcl : Clean closer) (hrest : ∀ x ∈ rest, Clean x)
    (hsel : OnlyExit sel pr) (hk : sel.kind = .if_) (hck : closer.kind = .else_ ∨ closer.kind = .end_)
    (n n2 : Nat) (hd1 : depthAfter pre 1 = some n) (hd2 : depthAfterE arm 0 = some 0)
    (hd3 : depthAfter rest (if closer.kind = .else_ then n + 1 else n) = some n2) :
    lower f = (toks pre ++ [sel.tok] ++ toks arm ++ pr ++ [closer.tok] ++ toks rest, f.added) := by
  let last := f.body.length - 1
  let rest' := touchLast rest hrne
  let s0 : RState := { body := pre ++ sel :: arm ++ closer :: rest', entry := [], exit := [], nlocals := f.nlocals }
  obtain ⟨a1, a2, a3, a4, a5, a6, _⟩ := rloop_quiet last pre s0 0 1 n hpre ⟨rfl, rfl, rfl, rfl, rfl⟩ rfl rfl hd1
  have hb1 : (rloop last s0 0 pre).body = pre ++ sel :: (arm ++ closer :: rest') := by rw [a3]; simp [s0]
  obtain ⟨c1, c2, c3, c4, c5, c6, c7, c8, c9, sel', c10, c11, c12⟩ :=
    rstep_sel_exit_if last _ pre (arm ++ closer :: rest') sel pr hsel a1 a2 hb1 n a4 hk
  have hpk : ParkedE n (rstep last (rloop last s0 0 pre) pre.length sel) :=
    ⟨c1, c2, by rw [c3]; intro p hp; simp at hp; subst hp; rfl, c4, c5⟩
  obtain ⟨e1, e2, e3, e4, e5, e6, e7⟩ := rloop_parkedE last n arm _ (pre.length + 1) 0 0 harm hpk c6 (by simpa using c7) hd2
  have hb3 : (rloop last (rstep last (rloop last s0 0 pre) pre.length sel) (pre.length + 1) arm).body
      = (pre ++ [sel'] ++ arm) ++ closer :: rest' := by rw [e3, c10]; simp
  -- the closing `else` / `end`
  let s3 := rloop last (rstep last (rloop last s0 0 pre) pre.length sel) (pre.length + 1) arm
  have hclose : ∃ n3, Calm (rstep last s3 (pre ++ [sel'] ++ arm).length closer)
        ∧ (rstep last s3 (pre ++ [sel'] ++ arm).length closer).deleteBlock = none
        ∧ (rstep last s3 (pre ++ [sel'] ++ arm).length closer).stack = List.range n3 ∧ depthAfter rest n3 = some n2
        ∧ (rstep last s3 (pre ++ [sel'] ++ arm).length closer).nlocals = s3.nlocals
        ∧ (rstep last s3 (pre ++ [sel'] ++ arm).length closer).added = s3.added
        ∧ ∃ ins', (rstep last s3 (pre ++ [sel'] ++ arm).length closer).body = (pre ++ [sel'] ++ arm) ++ ins' :: rest'
            ∧ ins'.before = pr ∧ ins'.after = [] ∧ ins'.alt = none ∧ ins'.tok = closer.tok := by
    rcases hck with hck | hck
    · obtain ⟨g1, g2, g3, g4, g5, g6⟩ := rstep_else_flushE last s3 (pre ++ [sel'] ++ arm) rest' closer hcl n pr e1.entry e1.exit
        (by rw [e7, c3]) e1.e2 e1.e3 e2 hb3 (by simpa using e4) hck
      exact ⟨n + 1, g1, g2, g3, by simpa [hck] using hd3, g4, g5, g6⟩
    · obtain ⟨g1, g2, g3, g4, g5, g6⟩ := rstep_end_flushE last s3 (pre ++ [sel'] ++ arm) rest' closer hcl n pr e1.entry e1.exit
        (by rw [e7, c3]) e1.e2 e1.e3 e2 hb3 (by simpa using e4) hck
      exact ⟨n, g1, g2, g3, by simpa [hck] using hd3, g4, g5, g6⟩
  obtain ⟨n3, g1, g2, g3, g3', g4, g5, end', g6, g7, g8, g9, g10⟩ := hclose
  simp only [List.length_append, List.length_singleton] at g1 g2 g3 g4 g5 g6
  obtain ⟨k1, k2, k3, k4, k5, k6, _⟩ := rloop_quiet last rest' _ (pre.length + 1 + arm.length + 1) n3 n2
    (touchLast_clean rest hrne hrest) g1 g2 g3 (by rw [touchLast_depth]; exact g3')
  have hsplit : pre ++ sel :: arm ++ closer :: rest' = pre ++ ([sel] ++ (arm ++ ([closer] ++ rest'))) := by simp
  have hres : let s' := rloop last s0 0 (pre ++ sel :: arm ++ closer :: rest')
      s'.added = 0 ∧ ∃ sel' end', s'.body = pre ++ sel' :: arm ++ end' :: rest' ∧ Clean sel' ∧ sel'.tok = sel.tok
          ∧ end'.before = (some pr).getD [] ∧ end'.after = (none : Option (List Tok)).getD [] ∧ end'.alt = none ∧ end'.tok = closer.tok := by
    rw [hsplit, rloop_append, List.singleton_append, rloop, rloop_append, List.singleton_append, rloop]
    simp only [Nat.zero_add]
    refine ⟨?_, sel', end', ?_, c11, c12, g7, g8, g9, g10⟩
    · rw [k6, g5, e6, c9, a6]
    · rw [k3, g6]; simp
  have := lower_from_region f pre arm rest sel closer (some pr) none hbody hrne hsp hentry hexit hpre harm hrest hres
  simpa using this

end Orca.Lower
