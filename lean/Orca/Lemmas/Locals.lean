import Orca.Model.Locals

namespace Orca.Locals

theorem expand_append (a b : Decls) : expand (a ++ b) = expand a ++ expand b := by
  induction a with
  | nil => simp [expand]
  | cons p a ih => obtain ⟨c, t⟩ := p; simp [expand, ih]

@[simp] theorem expand_single (c t : Nat) : expand [(c, t)] = List.replicate c t := by
  simp [expand]

/-- the invariant tying the counter to the declarations -/
def Inv (s : LState) : Prop := s.numLocals = (expand s.decls).length

theorem parsed_inv (n : Nat) (d : Decls) : Inv (parsed n d) := rfl

theorem decls_split {d : Decls} {p : Nat × Nat} (h : d.getLast? = some p) : d = d.dropLast ++ [p] := by
  have hne : d ≠ [] := by intro hd; simp [hd] at h
  have h1 := List.dropLast_concat_getLast hne
  rw [List.getLast?_eq_some_getLast hne] at h
  simp only [Option.some.injEq] at h
  rw [h] at h1
  exact h1.symm

theorem addLocal_expand (s : LState) (ty : Nat) :
    expand (addLocal s ty).1.decls = expand s.decls ++ [ty] := by
  unfold addLocal
  cases h : s.decls.getLast? with
  | none => simp [expand_append]
  | some p =>
    obtain ⟨c, t⟩ := p
    by_cases ht : t = ty
    · subst ht
      have hs := decls_split h
      simp only [if_true]
      conv => rhs; rw [hs]
      simp [expand_append, List.replicate_succ']
    · simp [ht, expand_append]

theorem addLocal_index (s : LState) (ty : Nat) (h : Inv s) :
    (addLocal s ty).2 = s.nparams + (expand s.decls).length := by
  unfold Inv at h; simp [addLocal, h]

theorem addLocal_nparams (s : LState) (ty : Nat) : (addLocal s ty).1.nparams = s.nparams := rfl

theorem addLocal_inv (s : LState) (ty : Nat) (h : Inv s) : Inv (addLocal s ty).1 := by
  have he := addLocal_expand s ty
  unfold Inv at *
  rw [he]
  simp [addLocal, h]

theorem addLocals_spec (ts : List Nat) : ∀ (s : LState), Inv s →
    expand (addLocals s ts).1.decls = expand s.decls ++ ts
    ∧ (addLocals s ts).2 = (List.range ts.length).map (fun k => s.nparams + (expand s.decls).length + k)
    ∧ Inv (addLocals s ts).1 ∧ (addLocals s ts).1.nparams = s.nparams := by
  induction ts with
  | nil => intro s h; simp [addLocals, h]
  | cons t ts ih =>
    intro s h
    have h1 := addLocal_inv s t h
    obtain ⟨e, i, v, n⟩ := ih (addLocal s t).1 h1
    simp only [addLocals]
    refine ⟨?_, ?_, v, ?_⟩
    · rw [e, addLocal_expand]; simp
    · rw [i, addLocal_index s t h, addLocal_expand, addLocal_nparams]
      simp only [List.length_cons, List.range_succ_eq_map, List.map_cons, List.map_map, List.length_append,
        List.length_nil, Nat.add_zero]
      congr 1
      apply List.map_congr_left
      intro k _
      simp only [Function.comp]
      omega
    · rw [n, addLocal_nparams]

end Orca.Locals
