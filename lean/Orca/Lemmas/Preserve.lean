import Orca.Lemmas.Ops
/-!
The state invariant under which `encode` is proved correct (`SpaceInv`, Lemmas/Edit.lean) holds for what the parser builds
and is preserved by every operation of the edit API (everything but `encode` itself, which leaves stored ids behind:
finding F4). So the theorems of C05–C11 hold after *every* history of edits, not only in states checked case by case.
-/
namespace Orca.Edit
open Orca.Reindex

/-! ### the import list, recursively -/

def liveFrom (sp : Sp) : List ImpEntry → Nat → List (Nat × Nat)
  | [], _ => []
  | e :: I, k => (if e.sp == some sp && !e.del then [(k, e.uid)] else []) ++ liveFrom sp I (k + 1)

theorem liveEntries_eq_from (I : List ImpEntry) (sp : Sp) : liveEntries I sp = liveFrom sp I 0 := by
  unfold liveEntries
  generalize 0 = k
  induction I generalizing k with
  | nil => rfl
  | cons e I ih =>
    simp only [List.zipIdx_cons, List.filter_cons, liveFrom]
    by_cases h : (e.sp == some sp && !e.del) = true
    · simp [h, ih (k + 1)]
    · simp [h, ih (k + 1)]

theorem liveFrom_ge (sp : Sp) (I : List ImpEntry) : ∀ k p, p ∈ liveFrom sp I k → k ≤ p.1 ∧ p.1 < k + I.length := by
  induction I with
  | nil => intro k p hp; simp [liveFrom] at hp
  | cons e I ih =>
    intro k p hp
    simp only [liveFrom, List.mem_append] at hp
    rcases hp with hp | hp
    · split at hp
      · simp at hp; subst hp; simp
      · simp at hp
    · have := ih (k + 1) p hp
      simp only [List.length_cons]; omega

theorem liveFrom_sorted (sp : Sp) (I : List ImpEntry) : ∀ k, (liveFrom sp I k).Pairwise (fun a b => a.1 < b.1) := by
  induction I with
  | nil => intro k; simp [liveFrom]
  | cons e I ih =>
    intro k
    simp only [liveFrom]
    refine List.pairwise_append.mpr ⟨?_, ih (k + 1), ?_⟩
    · split <;> simp
    · intro a ha b hb
      split at ha
      · simp at ha; subst ha
        have := (liveFrom_ge sp I (k + 1) b hb).1
        simp; omega
      · simp at ha

theorem liveFrom_append (sp : Sp) (I : List ImpEntry) (e : ImpEntry) : ∀ k,
    liveFrom sp (I ++ [e]) k = liveFrom sp I k ++ (if e.sp == some sp && !e.del then [(k + I.length, e.uid)] else []) := by
  induction I with
  | nil => intro k; simp [liveFrom]
  | cons a I ih =>
    intro k
    simp only [List.cons_append, liveFrom, ih (k + 1), List.length_cons, List.append_assoc]
    rw [show k + 1 + I.length = k + (I.length + 1) by omega]

/-- marking one entry deleted removes exactly its pair (if it had one) -/
theorem liveFrom_set_del (sp : Sp) (I : List ImpEntry) : ∀ (k i : Nat) (e : ImpEntry), I[i]? = some e →
    liveFrom sp (I.set i { e with del := true }) k = (liveFrom sp I k).filter (fun p => p.1 != k + i) := by
  induction I with
  | nil => intro k i e h; simp at h
  | cons a I ih =>
    intro k i e h
    cases i with
    | zero =>
      simp only [List.getElem?_cons_zero, Option.some.injEq] at h
      subst h
      simp only [List.set_cons_zero, liveFrom, Bool.not_true, Bool.and_false, Bool.false_eq_true, if_false, List.nil_append,
        Nat.add_zero, List.filter_append]
      have h1 : (liveFrom sp I (k + 1)).filter (fun p => p.1 != k) = liveFrom sp I (k + 1) := by
        apply List.filter_eq_self.mpr
        intro p hp
        have := (liveFrom_ge sp I (k + 1) p hp).1
        simp; omega
      rw [h1]
      split <;> simp
    | succ i =>
      simp only [List.getElem?_cons_succ] at h
      simp only [List.set_cons_succ, liveFrom, List.filter_append, ih (k + 1) i e h]
      rw [show k + 1 + i = k + (i + 1) by omega]
      congr 1
      split <;> simp <;> omega

/-! ### sorting by import position -/

theorem mem_insertSorted {x y : Item} {l : List Item} : y ∈ insertSorted x l ↔ y = x ∨ y ∈ l :=
  ⟨fun h => by simpa using (insertSorted_perm x l).subset h, fun h => (insertSorted_perm x l).symm.subset (by simpa using h)⟩

theorem insertSorted_sorted (x : Item) (l : List Item) (h : l.Pairwise (fun a b => a.impId ≤ b.impId)) :
    (insertSorted x l).Pairwise (fun a b => a.impId ≤ b.impId) := by
  induction l with
  | nil => simp [insertSorted]
  | cons y ys ih =>
    simp only [insertSorted]
    have hy := List.pairwise_cons.mp h
    split
    · rename_i hle
      refine List.pairwise_cons.mpr ⟨?_, ih hy.2⟩
      intro z hz
      rcases mem_insertSorted.mp hz with rfl | hz
      · exact hle
      · exact hy.1 z hz
    · rename_i hnle
      refine List.pairwise_cons.mpr ⟨?_, h⟩
      intro z hz
      rcases List.mem_cons.mp hz with rfl | hz
      · omega
      · have := hy.1 z hz; omega

theorem foldl_insertSorted_sorted (l : List Item) : ∀ acc : List Item, acc.Pairwise (fun a b => a.impId ≤ b.impId) →
    (l.foldl (fun acc x => insertSorted x acc) acc).Pairwise (fun a b => a.impId ≤ b.impId) := by
  induction l with
  | nil => intro acc h; exact h
  | cons x l ih => intro acc h; exact ih _ (insertSorted_sorted x acc h)

theorem sortImports_sorted (l : List Item) : (sortImports l).Pairwise (fun a b => a.impId ≤ b.impId) :=
  foldl_insertSorted_sorted l [] List.Pairwise.nil

theorem eq_of_mem_of_sorted_fst {l : List (Nat × Nat)} (h : l.Pairwise (fun a b => a.1 < b.1)) {a b : Nat × Nat}
    (ha : a ∈ l) (hb : b ∈ l) (hab : a.1 = b.1) : a = b := by
  induction l with
  | nil => cases ha
  | cons x xs ih =>
    have hx := List.pairwise_cons.mp h
    rcases List.mem_cons.mp ha with rfl | ha' <;> rcases List.mem_cons.mp hb with rfl | hb'
    · rfl
    · have := hx.1 b hb'; omega
    · have := hx.1 a ha'; omega
    · exact ih hx.2 ha' hb'

/-- `agree` of `SpaceInv` says no more than: the live imported entries are, as a multiset, the live import entries -/
theorem agree_iff_perm (items : List Item) (I : List ImpEntry) (sp : Sp) :
    (sortImports (items.filter keepImp)).map key = liveEntries I sp
      ↔ ((items.filter keepImp).map key).Perm (liveEntries I sp) := by
  constructor
  · intro h
    rw [← h]
    exact ((sortImports_perm _).map key).symm
  · intro h
    have hp : ((sortImports (items.filter keepImp)).map key).Perm (liveEntries I sp) :=
      ((sortImports_perm _).map key).trans h
    have hs2 : (liveEntries I sp).Pairwise (fun a b => a.1 < b.1) := by
      rw [liveEntries_eq_from]; exact liveFrom_sorted sp I 0
    have hs1 : ((sortImports (items.filter keepImp)).map key).Pairwise (fun a b => a.1 ≤ b.1) := by
      rw [List.pairwise_map]
      exact sortImports_sorted _
    refine List.Perm.eq_of_pairwise (le := fun a b => a.1 ≤ b.1) ?_ hs1 (hs2.imp (fun h => Nat.le_of_lt h)) hp
    intro a b ha hb hab hba
    -- both are members of the strictly sorted list: equal first components give equal pairs
    have ha' : a ∈ liveEntries I sp := hp.subset ha
    have h1 : a.1 = b.1 := Nat.le_antisymm hab hba
    exact eq_of_mem_of_sorted_fst hs2 ha' hb h1

theorem mem_liveFrom (sp : Sp) (I : List ImpEntry) : ∀ (k : Nat) (p : Nat × Nat), p ∈ liveFrom sp I k ↔
    ∃ i e, I[i]? = some e ∧ p = (k + i, e.uid) ∧ e.sp = some sp ∧ e.del = false := by
  induction I with
  | nil => intro k p; simp [liveFrom]
  | cons a I ih =>
    intro k p
    simp only [liveFrom, List.mem_append, ih (k + 1) p]
    constructor
    · rintro (h | ⟨i, e, he, rfl, hs, hd⟩)
      · split at h
        · rename_i hc
          simp at h; subst h
          simp only [Bool.and_eq_true, beq_iff_eq, Bool.not_eq_true'] at hc
          exact ⟨0, a, by simp, by simp, hc.1, hc.2⟩
        · simp at h
      · exact ⟨i + 1, e, by simpa using he, by simp; omega, hs, hd⟩
    · rintro ⟨i, e, he, rfl, hs, hd⟩
      cases i with
      | zero =>
        simp only [List.getElem?_cons_zero, Option.some.injEq] at he
        subst he
        left
        simp [hs, hd]
      | succ i =>
        right
        exact ⟨i, e, by simpa using he, by simp; omega, hs, hd⟩

/-! ### the inductive invariant -/

/-- `SpaceInv` plus what makes it inductive: a deleted imported entry points at a deleted import entry -/
structure SInv (x : Space) (I : List ImpEntry) (sp : Sp) : Prop where
  fresh : IdsFresh x.items
  orig_le : x.numImp - x.numImpAdded ≤ x.items.length
  agreeP : ((x.items.filter keepImp).map key).Perm (liveEntries I sp)
  settled : x.recalc = false → x.items = sortImports (x.items.filter keepImp) ++ x.items.filter keepLoc
  dead : ∀ it ∈ x.items, it.imp = true → it.del = true → ∃ e, I[it.impId]? = some e ∧ e.del = true

theorem SInv.spaceInv {x : Space} {I : List ImpEntry} {sp : Sp} (h : SInv x I sp) : SpaceInv x I sp :=
  ⟨h.fresh, h.orig_le, (agree_iff_perm _ _ _).mpr h.agreeP, h.settled⟩

theorem SInv.of_spaceInv {x : Space} {I : List ImpEntry} {sp : Sp} (h : SpaceInv x I sp)
    (hd : ∀ it ∈ x.items, it.del = false) : SInv x I sp :=
  ⟨h.fresh, h.orig_le, (agree_iff_perm _ _ _).mp h.agree, h.settled,
   fun it hit _ hdel => by rw [hd it hit] at hdel; cases hdel⟩

structure StInv (s : St) : Prop where
  f : SInv s.f s.imports .F
  g : SInv s.g s.imports .G
  m : SInv s.m s.imports .M

/-! ### list facts -/

theorem idsFresh_push (xs : List Item) (h : IdsFresh xs) (it : Item) (hid : it.id = xs.length) : IdsFresh (xs ++ [it]) := by
  intro i x hx
  rcases Nat.lt_or_ge i xs.length with hlt | hge
  · rw [List.getElem?_append_left hlt] at hx
    exact h i x hx
  · rw [List.getElem?_append_right hge] at hx
    cases hi : i - xs.length with
    | zero =>
      rw [hi] at hx
      simp at hx; subst hx; omega
    | succ n => rw [hi] at hx; simp at hx

theorem idsFresh_setItem (xs : List Item) (h : IdsFresh xs) (i : Nat) (f : Item → Item) (hf : ∀ x, (f x).id = x.id) :
    IdsFresh (setItem xs i f) := by
  intro j x hx
  unfold setItem at hx
  split at hx
  · rename_i y hy
    by_cases hij : i = j
    · subst hij
      have hlt : i < xs.length := by
        rcases Nat.lt_or_ge i xs.length with h' | h'
        · exact h'
        · rw [List.getElem?_eq_none h'] at hy; cases hy
      rw [List.getElem?_set_self hlt] at hx
      cases hx
      rw [hf]; exact h i y hy
    · rw [List.getElem?_set_ne hij] at hx
      exact h j x hx
  · exact h j x hx

theorem setItem_length (xs : List Item) (i : Nat) (f : Item → Item) : (setItem xs i f).length = xs.length := by
  unfold setItem; split <;> simp

theorem setItem_eq_set (xs : List Item) (i : Nat) (f : Item → Item) (x : Item) (h : xs[i]? = some x) :
    setItem xs i f = xs.set i (f x) := by
  simp [setItem, h]

theorem setItem_none (xs : List Item) (i : Nat) (f : Item → Item) (h : xs[i]? = none) : setItem xs i f = xs := by
  simp [setItem, h]

/-- replacing an entry that passes `p` by one that does not takes one occurrence out of the filtered list -/
theorem filter_set_perm {α : Type} (p : α → Bool) : ∀ (l : List α) (i : Nat) (a a' : α), l[i]? = some a → p a = true → p a' = false →
    (l.filter p).Perm (a :: (l.set i a').filter p) := by
  intro l
  induction l with
  | nil => intro i a a' h; simp at h
  | cons x l ih =>
    intro i a a' h hp hp'
    cases i with
    | zero =>
      simp only [List.getElem?_cons_zero, Option.some.injEq] at h
      subst h
      simp [List.filter_cons, hp, hp']
    | succ i =>
      simp only [List.getElem?_cons_succ] at h
      have := ih i a a' h hp hp'
      simp only [List.set_cons_succ, List.filter_cons]
      split
      · exact (List.Perm.cons x this).trans (List.Perm.swap a x _)
      · exact this

/-- replacing an entry that fails `p` by one that passes adds one occurrence -/
theorem filter_set_perm_add {α : Type} (p : α → Bool) : ∀ (l : List α) (i : Nat) (a a' : α), l[i]? = some a → p a = false → p a' = true →
    ((l.set i a').filter p).Perm (a' :: l.filter p) := by
  intro l
  induction l with
  | nil => intro i a a' h; simp at h
  | cons x l ih =>
    intro i a a' h hp hp'
    cases i with
    | zero =>
      simp only [List.getElem?_cons_zero, Option.some.injEq] at h
      subst h
      simp [List.filter_cons, hp, hp']
    | succ i =>
      simp only [List.getElem?_cons_succ] at h
      have := ih i a a' h hp hp'
      simp only [List.set_cons_succ, List.filter_cons]
      split
      · exact (List.Perm.cons x this).trans (List.Perm.swap a' x _)
      · exact this

/-- replacing an entry by one that `p` treats alike leaves the filtered, mapped list alone when `g` agrees too -/
theorem filter_set_same {α β : Type} (p : α → Bool) (g : α → β) : ∀ (l : List α) (i : Nat) (a a' : α), l[i]? = some a →
    p a' = p a → (p a = true → g a' = g a) → ((l.set i a').filter p).map g = (l.filter p).map g := by
  intro l
  induction l with
  | nil => intro i a a' h; simp at h
  | cons x l ih =>
    intro i a a' h hp hg
    cases i with
    | zero =>
      simp only [List.getElem?_cons_zero, Option.some.injEq] at h
      subst h
      simp only [List.set_cons_zero, List.filter_cons, hp]
      split
      · rename_i hx; simp [hg hx]
      · rfl
    | succ i =>
      simp only [List.getElem?_cons_succ] at h
      simp only [List.set_cons_succ, List.filter_cons]
      split <;> simp [ih i a a' h hp hg]

theorem nodup_fst_liveEntries (I : List ImpEntry) (sp : Sp) : ((liveEntries I sp).map (·.1)).Nodup := by
  rw [liveEntries_eq_from]
  have := liveFrom_sorted sp I 0
  rw [List.Nodup, List.pairwise_map]
  exact this.imp (fun h => Nat.ne_of_lt h)

theorem liveEntries_append (I : List ImpEntry) (e : ImpEntry) (sp : Sp) :
    liveEntries (I ++ [e]) sp = liveEntries I sp ++ (if e.sp == some sp && !e.del then [(I.length, e.uid)] else []) := by
  rw [liveEntries_eq_from, liveEntries_eq_from, liveFrom_append]; simp

theorem liveEntries_set_del (I : List ImpEntry) (sp : Sp) (i : Nat) (e : ImpEntry) (h : I[i]? = some e) :
    liveEntries (I.set i { e with del := true }) sp = (liveEntries I sp).filter (fun p => p.1 != i) := by
  rw [liveEntries_eq_from, liveEntries_eq_from, liveFrom_set_del sp I 0 i e h]; simp

theorem mem_liveEntries (I : List ImpEntry) (sp : Sp) (p : Nat × Nat) :
    p ∈ liveEntries I sp ↔ ∃ e, I[p.1]? = some e ∧ p.2 = e.uid ∧ e.sp = some sp ∧ e.del = false := by
  rw [liveEntries_eq_from, mem_liveFrom]
  constructor
  · rintro ⟨i, e, he, rfl, hs, hd⟩
    exact ⟨e, by simpa using he, rfl, hs, hd⟩
  · rintro ⟨e, he, hu, hs, hd⟩
    exact ⟨p.1, e, he, by cases p; simp at hu ⊢; exact hu, hs, hd⟩

/-- no pair of the list has this first component: filtering it out changes nothing -/
theorem filter_fst_ne_self (l : List (Nat × Nat)) (i : Nat) (h : ∀ p ∈ l, p.1 ≠ i) : l.filter (fun p => p.1 != i) = l := by
  apply List.filter_eq_self.mpr
  intro p hp
  simpa using h p hp

/-! ### spaces of a state -/

def AllInv (s : St) : Prop := ∀ sp, SInv (s.space sp) s.imports sp

theorem stInv_iff (s : St) : StInv s ↔ AllInv s :=
  ⟨fun h sp => by cases sp; exact h.f; exact h.g; exact h.m, fun h => ⟨h .F, h .G, h .M⟩⟩

@[simp] theorem space_setSpace_same (s : St) (sp : Sp) (x : Space) : (s.setSpace sp x).space sp = x := by
  cases sp <;> rfl

theorem space_setSpace_ne (s : St) (sp sp' : Sp) (x : Space) (h : sp ≠ sp') : (s.setSpace sp x).space sp' = s.space sp' := by
  cases sp <;> cases sp' <;> first | rfl | exact absurd rfl h

@[simp] theorem imports_setSpace (s : St) (sp : Sp) (x : Space) : (s.setSpace sp x).imports = s.imports := by
  cases sp <;> rfl

/-! ### one space under the elementary changes -/

/-- an import entry of another kind is appended to the import list -/
theorem SInv.append_other {x : Space} {I : List ImpEntry} {sp : Sp} (h : SInv x I sp) (e : ImpEntry) (he : e.sp ≠ some sp) :
    SInv x (I ++ [e]) sp := by
  refine ⟨h.fresh, h.orig_le, ?_, h.settled, ?_⟩
  · rw [liveEntries_append]
    have : (e.sp == some sp && !e.del) = false := by simp [he]
    simpa [this] using h.agreeP
  · intro it hit hi hd
    obtain ⟨e', he', hd'⟩ := h.dead it hit hi hd
    have hlt : it.impId < I.length := by
      rcases Nat.lt_or_ge it.impId I.length with h' | h'
      · exact h'
      · rw [List.getElem?_eq_none h'] at he'; cases he'
    exact ⟨e', by rw [List.getElem?_append_left hlt]; exact he', hd'⟩

/-- an imported entry is pushed together with its import entry -/
theorem SInv.push_import {x : Space} {I : List ImpEntry} {sp : Sp} (h : SInv x I sp) (uid : Nat) :
    SInv { items := x.items ++ [mkItem x.items.length true uid I.length], recalc := true, numImp := x.numImp + 1,
           numImpAdded := x.numImpAdded + 1 } (I ++ [{ sp := some sp, del := false, uid := uid }]) sp := by
  refine ⟨idsFresh_push _ h.fresh _ rfl, ?_, ?_, ?_, ?_⟩
  · have := h.orig_le; simp only [List.length_append, List.length_singleton]; omega
  · rw [liveEntries_append]
    simp only [List.filter_append, List.map_append, beq_self_eq_true, Bool.not_false, Bool.and_self, if_true]
    have : [mkItem x.items.length true uid I.length].filter keepImp = [mkItem x.items.length true uid I.length] := by
      simp [keepImp, mkItem]
    rw [this]
    exact h.agreeP.append (List.Perm.refl _)
  · intro hr; cases hr
  · intro it hit hi hd
    rcases List.mem_append.mp hit with hit | hit
    · obtain ⟨e', he', hd'⟩ := h.dead it hit hi hd
      have hlt : it.impId < I.length := by
        rcases Nat.lt_or_ge it.impId I.length with h' | h'
        · exact h'
        · rw [List.getElem?_eq_none h'] at he'; cases he'
      exact ⟨e', by rw [List.getElem?_append_left hlt]; exact he', hd'⟩
    · simp only [List.mem_singleton] at hit
      subst hit
      simp [mkItem] at hd

/-- a local entry is pushed; the re-index flag is set or left as it is -/
theorem SInv.push_local {x : Space} {I : List ImpEntry} {sp : Sp} (h : SInv x I sp) (uid : Nat) (r : Bool)
    (hr : r = true ∨ r = x.recalc) :
    SInv { x with items := x.items ++ [mkItem x.items.length false uid 0], recalc := r } I sp := by
  have hk : [mkItem x.items.length false uid 0].filter keepImp = [] := by simp [keepImp, mkItem]
  have hl : [mkItem x.items.length false uid 0].filter keepLoc = [mkItem x.items.length false uid 0] := by simp [keepLoc, mkItem]
  refine ⟨idsFresh_push _ h.fresh _ rfl, ?_, ?_, ?_, ?_⟩
  · have := h.orig_le; simp only [List.length_append, List.length_singleton]; omega
  · simp only [List.filter_append, hk, List.append_nil]; exact h.agreeP
  · intro hr'
    have hx : x.recalc = false := by
      rcases hr with hr | hr
      · rw [hr] at hr'; cases hr'
      · rw [← hr]; exact hr'
    simp only [List.filter_append, hk, hl, List.append_nil]
    rw [← List.append_assoc, ← h.settled hx]
  · intro it hit hi hd
    rcases List.mem_append.mp hit with hit | hit
    · exact h.dead it hit hi hd
    · simp only [List.mem_singleton] at hit
      subst hit
      simp [mkItem] at hi

theorem mem_set_cases {α : Type} {l : List α} {i : Nat} {a x : α} (h : x ∈ l.set i a) : x = a ∨ x ∈ l := by
  rcases List.mem_or_eq_of_mem_set h with h | h
  · exact .inr h
  · exact .inl h

/-- the entry at `id` is replaced by a local entry or by a deleted copy of a local entry: nothing about imports changes -/
theorem SInv.set_nonimport {x : Space} {I : List ImpEntry} {sp : Sp} (h : SInv x I sp) (id : Nat) (old new : Item)
    (hold : x.items[id]? = some old) (hk : keepImp old = false) (hk' : keepImp new = false) (hid : new.id = id)
    (hdead : new.imp = true → new.del = true → ∃ e, I[new.impId]? = some e ∧ e.del = true) :
    SInv { x with items := x.items.set id new, recalc := true } I sp := by
  refine ⟨?_, by simpa using h.orig_le, ?_, (by intro hr; cases hr), ?_⟩
  · intro j y hy
    by_cases hij : id = j
    · subst hij
      have hlt : id < x.items.length := by
        rcases Nat.lt_or_ge id x.items.length with h' | h'
        · exact h'
        · rw [List.getElem?_eq_none h'] at hold; cases hold
      rw [List.getElem?_set_self hlt] at hy
      cases hy; exact hid
    · rw [List.getElem?_set_ne hij] at hy
      exact h.fresh j y hy
  · show ((x.items.set id new).filter keepImp |>.map key).Perm _
    rw [filter_set_same keepImp key x.items id old new hold (by rw [hk, hk']) (by intro h'; rw [hk] at h'; cases h')]
    exact h.agreeP
  · intro it hit hi hd
    rcases mem_set_cases hit with rfl | hit
    · exact hdead hi hd
    · exact h.dead it hit hi hd

/-- an import entry is marked deleted while no live entry of this space points at it -/
theorem SInv.mark_other {x : Space} {I : List ImpEntry} {sp : Sp} (h : SInv x I sp) (i : Nat) (e : ImpEntry)
    (he : I[i]? = some e) (hno : ∀ p ∈ liveEntries I sp, p.1 ≠ i) : SInv x (I.set i { e with del := true }) sp := by
  refine ⟨h.fresh, h.orig_le, ?_, h.settled, ?_⟩
  · rw [liveEntries_set_del I sp i e he, filter_fst_ne_self _ _ hno]
    exact h.agreeP
  · intro it hit hi hd
    obtain ⟨e', he', hd'⟩ := h.dead it hit hi hd
    by_cases hij : i = it.impId
    · subst hij
      have hlt : it.impId < I.length := by
        rcases Nat.lt_or_ge it.impId I.length with h' | h'
        · exact h'
        · rw [List.getElem?_eq_none h'] at he; cases he
      exact ⟨_, List.getElem?_set_self hlt, rfl⟩
    · exact ⟨e', by rw [List.getElem?_set_ne hij]; exact he', hd'⟩

/-- a live imported entry is marked deleted together with its import entry -/
theorem SInv.delete_import {x : Space} {I : List ImpEntry} {sp : Sp} (h : SInv x I sp) (id : Nat) (it : Item) (e : ImpEntry)
    (hit : x.items[id]? = some it) (hlive : keepImp it = true) (he : I[it.impId]? = some e) (new : Item) (hk' : keepImp new = false)
    (hid : new.id = id) (hdead : new.imp = true → new.del = true → new.impId = it.impId) :
    SInv { x with items := x.items.set id new, recalc := true } (I.set it.impId { e with del := true }) sp := by
  have hlt : it.impId < I.length := by
    rcases Nat.lt_or_ge it.impId I.length with h' | h'
    · exact h'
    · rw [List.getElem?_eq_none h'] at he; cases he
  refine ⟨?_, by simpa using h.orig_le, ?_, (by intro hr; cases hr), ?_⟩
  · intro j y hy
    by_cases hij : id = j
    · subst hij
      have hl : id < x.items.length := by
        rcases Nat.lt_or_ge id x.items.length with h' | h'
        · exact h'
        · rw [List.getElem?_eq_none h'] at hit; cases hit
      rw [List.getElem?_set_self hl] at hy
      cases hy; exact hid
    · rw [List.getElem?_set_ne hij] at hy
      exact h.fresh j y hy
  · show (((x.items.set id new).filter keepImp).map key).Perm _
    rw [liveEntries_set_del I sp it.impId e he]
    -- the old filtered list is `it` plus the new one; first components are pairwise different
    have hp := (filter_set_perm keepImp x.items id it new hit hlive hk').map key
    have hall : (key it :: ((x.items.set id new).filter keepImp).map key).Perm (liveEntries I sp) :=
      (by simpa using hp.symm : (key it :: ((x.items.set id new).filter keepImp).map key).Perm ((x.items.filter keepImp).map key)).trans h.agreeP
    have hnd : ((key it :: ((x.items.set id new).filter keepImp).map key).map (·.1)).Nodup :=
      (hall.map (·.1)).nodup_iff.mpr (nodup_fst_liveEntries I sp)
    have hne : ∀ p ∈ ((x.items.set id new).filter keepImp).map key, p.1 ≠ it.impId := by
      intro p hp' heq
      simp only [List.map_cons, List.nodup_cons] at hnd
      exact hnd.1 (by rw [show (key it).1 = it.impId from rfl, ← heq]; exact List.mem_map_of_mem hp')
    have := hall.filter (fun p => p.1 != it.impId)
    simp only [List.filter_cons, show ((key it).1 != it.impId) = false by simp [key]] at this
    rw [filter_fst_ne_self _ _ hne] at this
    simpa using this
  · intro y hy hi hd
    rcases mem_set_cases hy with rfl | hy
    · exact ⟨_, by rw [hdead hi hd]; exact List.getElem?_set_self hlt, rfl⟩
    · obtain ⟨e', he', hd'⟩ := h.dead y hy hi hd
      by_cases hij : it.impId = y.impId
      · exact ⟨_, by rw [← hij]; exact List.getElem?_set_self hlt, rfl⟩
      · exact ⟨e', by rw [List.getElem?_set_ne hij]; exact he', hd'⟩

theorem SInv.set_recalc {x : Space} {I : List ImpEntry} {sp : Sp} (h : SInv x I sp) :
    SInv { x with recalc := true } I sp :=
  ⟨h.fresh, h.orig_le, h.agreeP, (by intro hr; cases hr), h.dead⟩

@[simp] theorem space_withImports (s : St) (imps : List ImpEntry) (sp : Sp) : ({ s with imports := imps } : St).space sp = s.space sp := by
  cases sp <;> rfl

theorem getElem?_lt {α : Type} {l : List α} {i : Nat} {a : α} (h : l[i]? = some a) : i < l.length := by
  rcases Nat.lt_or_ge i l.length with h' | h'
  · exact h'
  · rw [List.getElem?_eq_none h'] at h; cases h

/-- a live imported entry has a live import entry of its kind -/
theorem SInv.entry_of_live {x : Space} {I : List ImpEntry} {sp : Sp} (h : SInv x I sp) {it : Item} (hit : it ∈ x.items)
    (hk : keepImp it = true) : ∃ e, I[it.impId]? = some e ∧ e.sp = some sp ∧ e.del = false ∧ e.uid = it.uid := by
  have : key it ∈ liveEntries I sp :=
    h.agreeP.subset (List.mem_map_of_mem (List.mem_filter.mpr ⟨hit, hk⟩))
  obtain ⟨e, he, hu, hs, hd⟩ := (mem_liveEntries I sp _).mp this
  exact ⟨e, he, hs, hd, hu.symm⟩

theorem allInv_deleteEntity (s : St) (sp : Sp) (id : Nat) (h : AllInv s) : AllInv (deleteEntity s sp id).1 := by
  unfold deleteEntity
  cases hx : (s.space sp).items[id]? with
  | none =>
    simp only [setItem_none _ _ _ hx, hx]
    intro sp'
    by_cases hs : sp = sp'
    · subst hs; simpa using (h sp).set_recalc
    · simpa [space_setSpace_ne _ _ _ _ hs] using h sp'
  | some it =>
    have hlt := getElem?_lt hx
    have hmem : it ∈ (s.space sp).items := List.mem_of_getElem? hx
    have hid : it.id = id := (h sp).fresh id it hx
    simp only [setItem_eq_set _ _ _ _ hx, List.getElem?_set_self hlt]
    cases himp : it.imp with
    | false =>
      simp only [Bool.false_eq_true, if_false]
      intro sp'
      by_cases hs : sp = sp'
      · subst hs
        simpa [himp] using (h sp).set_nonimport id it { it with del := true } hx (by simp [keepImp, himp]) (by simp [keepImp])
          hid (by intro hi; simp [himp] at hi)
      · simpa [space_setSpace_ne _ _ _ _ hs] using h sp'
    | true =>
      simp only [if_true, imports_setSpace, markImportDeleted]
      cases hdel : it.del with
      | false =>
        have hk : keepImp it = true := by simp [keepImp, himp, hdel]
        obtain ⟨e, he, hes, _, _⟩ := (h sp).entry_of_live hmem hk
        simp only [he]
        intro sp'
        by_cases hs : sp = sp'
        · subst hs
          simpa [himp] using (h sp).delete_import id it e hx hk he { it with del := true } (by simp [keepImp]) hid (by intro _ _; rfl)
        · have hno : ∀ p ∈ liveEntries s.imports sp', p.1 ≠ it.impId := by
            intro p hp heq
            obtain ⟨e', he', _, hs', _⟩ := (mem_liveEntries _ _ _).mp hp
            rw [heq, he] at he'
            cases he'
            rw [hes] at hs'
            exact hs (by cases hs'; rfl)
          simpa [space_setSpace_ne _ _ _ _ hs] using (h sp').mark_other it.impId e he hno
      | true =>
        obtain ⟨e, he, hed⟩ := (h sp).dead it hmem himp hdel
        simp only [he]
        have hno : ∀ sp', ∀ p ∈ liveEntries s.imports sp', p.1 ≠ it.impId := by
          intro sp' p hp heq
          obtain ⟨e', he', _, _, hd'⟩ := (mem_liveEntries _ _ _).mp hp
          rw [heq, he] at he'
          cases he'
          rw [hed] at hd'; cases hd'
        intro sp'
        by_cases hs : sp = sp'
        · subst hs
          have h1 := (h sp).set_nonimport id it { it with del := true } hx (by simp [keepImp, hdel]) (by simp [keepImp])
            hid (by intro _ _; exact ⟨e, he, hed⟩)
          simpa [himp] using h1.mark_other it.impId e he (hno sp)
        · simpa [space_setSpace_ne _ _ _ _ hs] using (h sp').mark_other it.impId e he (hno sp')

/-! ### every operation of the edit API -/

theorem stInv_addImportFunc (s : St) (uid : Nat) (h : StInv s) : StInv (addImportFunc s uid).1 :=
  ⟨h.f.push_import uid, h.g.append_other _ (by simp), h.m.append_other _ (by simp)⟩

theorem stInv_addImportedGlobal (s : St) (uid : Nat) (h : StInv s) : StInv (addImportedGlobal s uid).1 :=
  ⟨h.f.append_other _ (by simp), h.g.push_import uid, h.m.append_other _ (by simp)⟩

theorem stInv_addImportMem (s : St) (uid : Nat) (h : StInv s) : StInv (addImportMem s uid).1 :=
  ⟨h.f.append_other _ (by simp), h.g.append_other _ (by simp), h.m.push_import uid⟩

theorem stInv_addLocalFunc (s : St) (uid : Nat) (sites : List Ref) (h : StInv s) : StInv (addLocalFunc s uid sites).1 :=
  ⟨h.f.push_local uid true (.inl rfl), h.g, h.m⟩

theorem stInv_addGlobal (s : St) (uid : Nat) (sites : List Ref) (h : StInv s) : StInv (addGlobal s uid sites).1 :=
  ⟨h.f, h.g.push_local uid s.g.recalc (.inr rfl), h.m⟩

theorem stInv_iterAddGlobal (s : St) (uid : Nat) (sites : List Ref) (h : StInv s) : StInv (iterAddGlobal s uid sites).1 :=
  ⟨h.f, h.g.push_local uid s.g.recalc (.inr rfl), h.m⟩

theorem stInv_addLocalMem (s : St) (uid : Nat) (h : StInv s) : StInv (addLocalMem s uid).1 :=
  ⟨h.f, h.g, h.m.push_local uid true (.inl rfl)⟩

theorem stInv_deleteEntity (s : St) (sp : Sp) (id : Nat) (h : StInv s) : StInv (deleteEntity s sp id).1 :=
  (stInv_iff _).mpr (allInv_deleteEntity s sp id ((stInv_iff _).mp h))

/-- the entry at `id` (not a live import) becomes a live imported entry with a fresh import entry -/
theorem SInv.revive_import {x : Space} {I : List ImpEntry} {sp : Sp} (h : SInv x I sp) (id uid : Nat) (d : Item)
    (hd : x.items[id]? = some d) (hk : keepImp d = false) :
    SInv { items := x.items.set id (mkItem id true uid I.length), recalc := true, numImp := x.numImp + 1,
           numImpAdded := x.numImpAdded + 1 } (I ++ [{ sp := some sp, del := false, uid := uid }]) sp := by
  have hlt := getElem?_lt hd
  refine ⟨?_, ?_, ?_, (by intro hr; cases hr), ?_⟩
  · intro j y hy
    by_cases hij : id = j
    · subst hij
      rw [List.getElem?_set_self hlt] at hy
      cases hy; rfl
    · rw [List.getElem?_set_ne hij] at hy
      exact h.fresh j y hy
  · have := h.orig_le; simp only [List.length_set]; omega
  · show (((x.items.set id (mkItem id true uid I.length)).filter keepImp).map key).Perm _
    rw [liveEntries_append]
    simp only [beq_self_eq_true, Bool.not_false, Bool.and_self, if_true]
    have hp := (filter_set_perm_add keepImp x.items id d (mkItem id true uid I.length) hd hk (by simp [keepImp, mkItem])).map key
    refine hp.trans ?_
    simp only [List.map_cons]
    exact (List.Perm.cons _ h.agreeP).trans (List.perm_append_singleton _ _).symm
  · intro y hy hi hdel
    rcases mem_set_cases hy with rfl | hy
    · simp [mkItem] at hdel
    · obtain ⟨e', he', hd'⟩ := h.dead y hy hi hdel
      exact ⟨e', by rw [List.getElem?_append_left (getElem?_lt he')]; exact he', hd'⟩

theorem SInv.set_nonimport' {x : Space} {I : List ImpEntry} {sp : Sp} (h : SInv x I sp) (hr : x.recalc = true) (id : Nat)
    (old new : Item) (hold : x.items[id]? = some old) (hk : keepImp old = false) (hk' : keepImp new = false) (hid : new.id = id)
    (hdead : new.imp = true → new.del = true → ∃ e, I[new.impId]? = some e ∧ e.del = true) :
    SInv { x with items := x.items.set id new } I sp := by
  have := h.set_nonimport id old new hold hk hk' hid hdead
  rw [← hr] at this
  exact this

theorem deleteEntity_at (s : St) (sp : Sp) (id : Nat) :
    ((deleteEntity s sp id).1.space sp).recalc = true
      ∧ ((deleteEntity s sp id).1.space sp).items.length = (s.space sp).items.length
      ∧ ∀ y, ((deleteEntity s sp id).1.space sp).items[id]? = some y → y.del = true := by
  unfold deleteEntity
  cases hx : (s.space sp).items[id]? with
  | none =>
    simp only [setItem_none _ _ _ hx, hx, space_setSpace_same]
    refine ⟨trivial, trivial, fun y hy => by cases hy⟩
  | some it =>
    have hlt := getElem?_lt hx
    simp only [setItem_eq_set _ _ _ _ hx, List.getElem?_set_self hlt]
    have key : ∀ t : St, (t.space sp) = { (s.space sp) with items := (s.space sp).items.set id { it with del := true }, recalc := true } →
        (t.space sp).recalc = true ∧ (t.space sp).items.length = (s.space sp).items.length
          ∧ ∀ y, (t.space sp).items[id]? = some y → y.del = true := by
      intro t ht
      rw [ht]
      refine ⟨rfl, by simp, fun y hy => ?_⟩
      simp only [List.getElem?_set_self hlt, Option.some.injEq] at hy
      subst hy; rfl
    split
    · simp only [imports_setSpace]
      split
      · exact key _ (by simp)
      · exact key _ (by simp)
    · exact key _ (by simp)

theorem stInv_localToImport (s : St) (id uid : Nat) (h : StInv s) : StInv (localToImport s id uid).1 := by
  unfold localToImport
  cases hx : s.f.items[id]? with
  | none => exact h
  | some it =>
    cases himp : it.imp with
    | true => simpa [himp] using h
    | false =>
      simp only [himp, Bool.false_eq_true, if_false]
      have hinv := stInv_deleteEntity s .F id h
      have hat := deleteEntity_at s .F id
      generalize deleteEntity s Sp.F id = d at hinv hat ⊢
      obtain ⟨d1, d2⟩ := d
      simp only at hinv hat ⊢
      cases d2 with
      | panic w => exact hinv
      | _ =>
        simp only [addImport, St.space, St.setSpace]
        all_goals
          have hrc : d1.f.recalc = true := hat.1
          have hlen : d1.f.items.length = s.f.items.length := hat.2.1
          cases hy : d1.f.items[id]? with
          | none =>
            exfalso
            have := getElem?_lt hx
            rw [List.getElem?_eq_none_iff] at hy
            omega
          | some y =>
            simp only [setItem_eq_set _ _ _ _ hy, hrc]
            have hyd : y.del = true := hat.2.2 y hy
            exact ⟨hinv.f.revive_import id uid y hy (by simp [keepImp, hyd]), hinv.g.append_other _ (by simp), hinv.m.append_other _ (by simp)⟩

theorem stInv_replaceImport (s : St) (impId uid : Nat) (sites : List Ref) (h : StInv s) :
    StInv (replaceImport s impId uid sites).1 := by
  unfold replaceImport
  cases he : s.imports[impId]? with
  | none => exact h
  | some e =>
    simp only
    split
    · exact h
    · cases hf : s.f.items.findIdx? (fun (it : Item) => !it.del && it.imp && it.impId == impId) with
      | none => exact h
      | some fid =>
        simp only
        have hinv := stInv_deleteEntity s .F fid h
        have hat := deleteEntity_at s .F fid
        generalize deleteEntity s Sp.F fid = d at hinv hat ⊢
        obtain ⟨d1, d2⟩ := d
        simp only at hinv hat ⊢
        cases d2 with
        | panic w => exact hinv
        | _ =>
          simp only
          all_goals
            have hrc : d1.f.recalc = true := hat.1
            cases hy : d1.f.items[fid]? with
            | none =>
              simp only [setItem_none _ _ _ hy]
              exact ⟨hinv.f, hinv.g, hinv.m⟩
            | some y =>
              simp only [setItem_eq_set _ _ _ _ hy]
              have hyd : y.del = true := hat.2.2 y hy
              exact ⟨hinv.f.set_nonimport' hrc fid y (mkItem fid false uid 0) hy (by simp [keepImp, hyd]) (by simp [keepImp, mkItem]) rfl
                (by intro hi; simp [mkItem] at hi), hinv.g, hinv.m⟩

/-- **the invariant is inductive**: every operation of the edit API except `encode` preserves it (whatever the
    operation reports, a panic included) -/
theorem stInv_step (s : St) (op : Op) (hop : op ≠ .encode) (h : StInv s) : StInv (step s op).1 := by
  cases op with
  | addLocalFunc uid sites => exact stInv_addLocalFunc s uid sites h
  | addImportFunc uid => exact stInv_addImportFunc s uid h
  | deleteFunc id => exact stInv_deleteEntity s .F id h
  | localToImport id uid => exact stInv_localToImport s id uid h
  | replaceImport impId uid sites => exact stInv_replaceImport s impId uid sites h
  | inject id sites =>
    show StInv (inject s id sites).1
    unfold inject
    split
    · exact h
    · split
      · exact h
      · exact ⟨h.f, h.g, h.m⟩
  | addGlobal uid sites => exact stInv_addGlobal s uid sites h
  | addImportedGlobal uid => exact stInv_addImportedGlobal s uid h
  | iterAddGlobal uid sites => exact stInv_iterAddGlobal s uid sites h
  | deleteGlobal id => exact stInv_deleteEntity s .G id h
  | modGlobalInit id sites =>
    show StInv (modGlobalInit s id sites).1
    unfold modGlobalInit
    split
    · split
      · exact h
      · exact ⟨h.f, h.g, h.m⟩
    · exact h
  | addLocalMem uid => exact stInv_addLocalMem s uid h
  | addImportMem uid => exact stInv_addImportMem s uid h
  | deleteMem id => exact stInv_deleteEntity s .M id h
  | addExport r => exact ⟨h.f, h.g, h.m⟩
  | deleteExport i =>
    show StInv (deleteExport s i).1
    unfold deleteExport
    split
    · exact ⟨h.f, h.g, h.m⟩
    · exact h
  | addData mem sites => exact ⟨h.f, h.g, h.m⟩
  | encode => exact absurd rfl hop

/-- histories without `encode` -/
def NoEncode (ops : List Op) : Prop := ∀ op ∈ ops, op ≠ .encode

theorem stInv_run (ops : List Op) : ∀ s, NoEncode ops → StInv s → StInv (run s ops).1 := by
  induction ops with
  | nil => intro s _ h; exact h
  | cons op ops ih =>
    intro s hn h
    have h1 := stInv_step s op (hn op (List.mem_cons_self ..)) h
    simp only [run]
    split
    · exact h1
    · exact ih _ (fun o ho => hn o (List.mem_cons_of_mem _ ho)) h1

/-- what the parser builds satisfies the invariant: the decidable check of `SpaceInv` on a state without deleted entries -/
theorem stInv_of_parsed (s : St) (hb : stInvB s = true)
    (hf : ∀ it ∈ s.f.items, it.del = false) (hg : ∀ it ∈ s.g.items, it.del = false) (hm : ∀ it ∈ s.m.items, it.del = false) :
    StInv s := by
  simp only [stInvB, Bool.and_eq_true] at hb
  exact ⟨SInv.of_spaceInv (spaceInvB_sound _ _ _ hb.1.1) hf, SInv.of_spaceInv (spaceInvB_sound _ _ _ hb.1.2) hg,
         SInv.of_spaceInv (spaceInvB_sound _ _ _ hb.2) hm⟩

/-- the three `SpaceInv` hypotheses of `encode_spec` and of the theorems of C05–C11, after any history of edits -/
theorem spaceInv_after (s0 : St) (h0 : StInv s0) (ops : List Op) (hn : NoEncode ops) :
    SpaceInv (run s0 ops).1.f (run s0 ops).1.imports .F ∧ SpaceInv (run s0 ops).1.g (run s0 ops).1.imports .G
      ∧ SpaceInv (run s0 ops).1.m (run s0 ops).1.imports .M :=
  let h := stInv_run ops s0 hn h0
  ⟨h.f.spaceInv, h.g.spaceInv, h.m.spaceInv⟩

end Orca.Edit
