import Orca.Lemmas.Sem
/-! `RunsL` / `Runs1`: "the executable semantics finishes with outcome `o`" (some fuel suffices), and the rules by which
    such runs compose. Everything here is derived from the definition of `run` / `runOne`. -/
namespace Orca.Sem

variable {fns : List Callee}

theorem run_mono_le {m fx f g p s o} (h : run fns m fx f p s = o) (hok : o.ok = true) (hle : f ≤ g) :
    run fns m fx g p s = o := by
  induction hle with
  | refl => exact h
  | step _ ih => exact (mono fns _ m fx).1 _ _ _ ih hok

theorem runOne_mono_le {m fx f g i s o} (h : runOne fns m fx f i s = o) (hok : o.ok = true) (hle : f ≤ g) :
    runOne fns m fx g i s = o := by
  induction hle with
  | refl => exact h
  | step _ ih => exact (mono fns _ m fx).2 _ _ _ ih hok

def RunsL (fns : List Callee) (m : Bool) (fx : List Nat) (p : List Instr) (s : St) (o : Out) : Prop :=
  ∃ f, run fns m fx f p s = o ∧ o.ok = true

def Runs1 (fns : List Callee) (m : Bool) (fx : List Nat) (i : Instr) (s : St) (o : Out) : Prop :=
  ∃ f, runOne fns m fx f i s = o ∧ o.ok = true

def Out.onNormal (g : St → St) : Out → Out
  | .normal s => .normal (g s)
  | o => o

@[simp] theorem onNormal_ok (g : St → St) (o : Out) : (o.onNormal g).ok = o.ok := by cases o <;> rfl

theorem RunsL.nil {m fx s} : RunsL fns m fx [] s (.normal s) := ⟨1, by simp [run], rfl⟩

theorem RunsL.cons_normal {m fx i is s s' o} (h1 : Runs1 fns m fx i s (.normal s')) (h2 : RunsL fns m fx is s' o) :
    RunsL fns m fx (i :: is) s o := by
  obtain ⟨f1, e1, _⟩ := h1
  obtain ⟨f2, e2, ok2⟩ := h2
  refine ⟨max f1 f2 + 1, ?_, ok2⟩
  rw [run, runOne_mono_le e1 rfl (Nat.le_max_left _ _)]
  exact run_mono_le e2 ok2 (Nat.le_max_right _ _)

theorem RunsL.cons_abrupt {m fx i is s o} (h1 : Runs1 fns m fx i s o) (hn : o.isNormal = false) :
    RunsL fns m fx (i :: is) s o := by
  obtain ⟨f1, e1, ok1⟩ := h1
  refine ⟨f1 + 1, ?_, ok1⟩
  rw [run, e1]
  cases o <;> simp_all [Out.isNormal]

theorem RunsL.cons_inv {m fx i is s o} (h : RunsL fns m fx (i :: is) s o) :
    (∃ s', Runs1 fns m fx i s (.normal s') ∧ RunsL fns m fx is s' o)
    ∨ (Runs1 fns m fx i s o ∧ o.isNormal = false) := by
  obtain ⟨f, e, ok⟩ := h
  cases f with
  | zero => simp [run] at e; subst e; simp at ok
  | succ f =>
    rw [run] at e
    cases hx : runOne fns m fx f i s with
    | normal s' => rw [hx] at e; exact .inl ⟨s', ⟨f, hx, rfl⟩, ⟨f, e, ok⟩⟩
    | stuck w => rw [hx] at e; subst e; simp at ok
    | br n pd s' => rw [hx] at e; subst e; exact .inr ⟨⟨f, hx, rfl⟩, rfl⟩
    | ret s' => rw [hx] at e; subst e; exact .inr ⟨⟨f, hx, rfl⟩, rfl⟩
    | trap s' => rw [hx] at e; subst e; exact .inr ⟨⟨f, hx, rfl⟩, rfl⟩

theorem RunsL.nil_inv {m fx s o} (h : RunsL fns m fx [] s o) : o = .normal s := by
  obtain ⟨f, e, ok⟩ := h
  cases f with
  | zero => simp [run] at e; subst e; simp at ok
  | succ f => simp [run] at e; exact e.symm

/-- sequencing -/
theorem RunsL.append {m fx p} : ∀ {s o1 q o}, RunsL fns m fx p s o1 →
    (∀ s', o1 = .normal s' → RunsL fns m fx q s' o) → (o1.isNormal = false → o = o1) →
    RunsL fns m fx (p ++ q) s o := by
  induction p with
  | nil =>
    intro s o1 q o h hn _
    have := RunsL.nil_inv h
    simpa using hn s this
  | cons i is ih =>
    intro s o1 q o h hn ha
    rcases RunsL.cons_inv h with ⟨s', h1, h2⟩ | ⟨h1, hx⟩
    · exact RunsL.cons_normal h1 (ih h2 hn ha)
    · rw [ha hx]; exact RunsL.cons_abrupt h1 hx

theorem Runs1.probe {m fx id s} : Runs1 fns m fx (.probe id) s (.normal (s.fire [id])) := ⟨1, by simp [runOne], rfl⟩

theorem RunsL.probes_pre {m fx is s o} (ps : List Nat) (h : RunsL fns m fx is (s.fire ps) o) :
    RunsL fns m fx (probes ps ++ is) s o := by
  induction ps generalizing s with
  | nil => simpa [probes] using h
  | cons p ps ih =>
    simp only [probes, List.map_cons, List.cons_append]
    refine RunsL.cons_normal Runs1.probe (ih ?_)
    simpa using h

theorem RunsL.probes_only {m fx s} (ps : List Nat) : RunsL fns m fx (probes ps) s (.normal (s.fire ps)) := by
  have := RunsL.probes_pre (fns := fns) (m := m) (fx := fx) (is := []) (s := s) ps RunsL.nil
  simpa using this

theorem RunsL.probes_inv {m fx s o} (ps : List Nat) (h : RunsL fns m fx (probes ps) s o) : o = .normal (s.fire ps) := by
  induction ps generalizing s with
  | nil => simpa [probes] using RunsL.nil_inv h
  | cons p ps ih =>
    simp only [probes, List.map_cons] at h
    rcases RunsL.cons_inv h with ⟨s', h1, h2⟩ | ⟨h1, hx⟩
    · obtain ⟨f, e, _⟩ := h1
      cases f with
      | zero => simp [runOne] at e
      | succ f =>
        simp [runOne] at e
        subst e
        have := ih h2
        simpa using this
    · obtain ⟨f, e, ok⟩ := h1
      cases f with
      | zero => simp [runOne] at e; subst e; simp at ok
      | succ f => simp [runOne] at e; subst e; simp [Out.isNormal] at hx

/-- body of a lowered block-like: `entry` probes, lowered body, `exit` probes -/
theorem RunsL.wrapped {m fx body s ob} (en ex : List Nat) (h : RunsL fns m fx body (s.fire en) ob) :
    RunsL fns m fx (probes en ++ body ++ probes ex) s (ob.onNormal (·.fire ex)) := by
  rw [List.append_assoc]
  apply RunsL.probes_pre
  apply RunsL.append h
  · intro s' hs'; subst hs'; exact RunsL.probes_only ex
  · intro hx; cases ob <;> simp_all [Out.isNormal, Out.onNormal]

/-- probes behind a fragment fire when it completes normally -/
theorem RunsL.probes_post {m fx body s ob} (ex : List Nat) (h : RunsL fns m fx body s ob) :
    RunsL fns m fx (body ++ probes ex) s (ob.onNormal (·.fire ex)) := by
  apply RunsL.append h
  · intro s' hs'; subst hs'; exact RunsL.probes_only ex
  · intro hx; cases ob <;> simp_all [Out.isNormal, Out.onNormal]

end Orca.Sem
