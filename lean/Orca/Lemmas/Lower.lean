import Orca.Model.Lower

namespace Orca.Lower

/-! ### emission -/

/-- what one instruction contributes to the encoded body -/
def emitOne (last : Nat) (idx : Nat) (i : Instr) : List Tok :=
  let atEnd := idx ≥ last
  i.before ++ (match i.alt with
               | some a => if atEnd then [i.tok] else a
               | none => [i.tok]) ++ (if atEnd then [] else i.after)

theorem emitFrom_eq (last : Nat) : ∀ (b : List Instr) (k : Nat),
    emitFrom last k b = (b.zipIdx k).flatMap (fun p => emitOne last p.2 p.1) := by
  intro b
  induction b with
  | nil => intro k; rfl
  | cons i b ih =>
    intro k
    simp only [emitFrom, List.zipIdx_cons, List.flatMap_cons, ih (k + 1)]
    rfl

theorem emit_eq (f : Func) :
    emit f = f.body.zipIdx.flatMap (fun p => emitOne (f.body.length - 1) p.2 p.1) := by
  simp [emit, emitFrom_eq]

theorem resolveSpecial_of_not_special (f : Func) (h : f.hasSpecial = false) : resolveSpecial f = f := by
  simp [resolveSpecial, h]

/-! ### the injection API -/

theorem modifyAt_get (l : List Instr) (i : Nat) (g : Instr → Instr) (x : Instr) (h : l[i]? = some x) :
    (modifyAt l i g)[i]? = some (g x) ∧ (∀ j, j ≠ i → (modifyAt l i g)[j]? = l[j]?) ∧ (modifyAt l i g).length = l.length := by
  have hlt : i < l.length := by
    rcases Nat.lt_or_ge i l.length with h' | h'
    · exact h'
    · simp [List.getElem?_eq_none h'] at h
  simp only [modifyAt, h]
  refine ⟨by simp [hlt], ?_, by simp⟩
  intro j hj
  exact List.getElem?_set_ne (Ne.symm hj)

/-- what a plain-mode injection does to the flags of the instruction it addresses -/
def grow (m : Mode) (x : Instr) (t : Tok) : Instr :=
  match m with
  | .before => { x with mode := some m, before := x.before ++ [t] }
  | .after => { x with mode := some m, after := x.after ++ [t] }
  | _ => { x with mode := some m, alt := some ((x.alt.getD []) ++ [t]) }

/-- selecting a mode at an instruction and injecting one operator there, for the three plain modes: exactly that
    instruction's list grows by that operator at its end; nothing else changes; no resolution becomes necessary -/
theorem inject_plain (f : Func) (idx : Nat) (m : Mode) (t : Tok) (x : Instr) (hx : f.body[idx]? = some x)
    (hm : m = .before ∨ m = .after ∨ m = .alternate) :
    ∃ f2, applyAll f [.setMode idx m, .inject idx t] = some f2
      ∧ f2.hasSpecial = f.hasSpecial ∧ f2.entry = f.entry ∧ f2.exit = f.exit
      ∧ (∀ j, j ≠ idx → f2.body[j]? = f.body[j]?) ∧ f2.body.length = f.body.length
      ∧ f2.body[idx]? = some (grow m x t) := by
  have h1 := modifyAt_get f.body idx (fun i => { i with mode := some m }) x hx
  have hlt : idx < (modifyAt f.body idx (fun i => { i with mode := some m })).length := by
    rw [h1.2.2]
    rcases Nat.lt_or_ge idx f.body.length with h' | h'
    · exact h'
    · simp [List.getElem?_eq_none h'] at hx
  have hadd : ({ x with mode := some m } : Instr).addInstr t = some (grow m x t, false) := by
    rcases hm with rfl | rfl | rfl <;> rfl
  refine ⟨{ f with body := (modifyAt f.body idx (fun i => { i with mode := some m })).set idx (grow m x t), fmode := none }, ?_, ?_⟩
  · simp [applyAll, apply, hx, h1.1, hadd]
  · refine ⟨by simp, rfl, rfl, ?_, by simp [h1.2.2], by simp [hlt]⟩
    intro j hj
    simp only
    rw [List.getElem?_set_ne (Ne.symm hj)]
    exact h1.2.1 j hj

/-- every way of injecting in a special mode marks the function for resolution, or is rejected at the call -/
theorem inject_special_marks (f f' : Func) (idx : Nat) (t : Tok) (x : Instr) (hx : f.body[idx]? = some x)
    (hf : f.fmode = none)
    (hm : x.mode = some .semanticAfter ∨ x.mode = some .blockEntry ∨ x.mode = some .blockExit ∨ x.mode = some .blockAlt)
    (h : apply f (.inject idx t) = some f') : f'.hasSpecial = true := by
  simp only [apply, hf, hx] at h
  cases ha : x.addInstr t with
  | none => simp [ha] at h
  | some p =>
    obtain ⟨i', sp⟩ := p
    simp only [ha, Option.some.injEq] at h
    subst h
    have : sp = true := by
      unfold Instr.addInstr at ha
      rcases hm with hm | hm | hm | hm <;> simp only [hm] at ha <;> split at ha <;> simp_all
    simp [this]

theorem injectAt_special_marks (f f' : Func) (idx : Nat) (m : Mode) (t : Tok)
    (hm : m = .semanticAfter ∨ m = .blockEntry ∨ m = .blockExit ∨ m = .blockAlt)
    (h : apply f (.injectAtRaw idx m t) = some f') : f'.hasSpecial = true := by
  simp only [apply] at h
  cases hx : f.body[idx]? with
  | none => simp [hx] at h
  | some x =>
    simp only [hx] at h
    cases ha : ({ x with mode := some m } : Instr).addInstr t with
    | none => simp [ha] at h
    | some p =>
      obtain ⟨i', sp⟩ := p
      simp only [ha, Option.some.injEq] at h
      subst h
      have : sp = true := by
        unfold Instr.addInstr at ha
        rcases hm with rfl | rfl | rfl | rfl <;> simp only at ha <;> split at ha <;> simp_all
      simp [this]

theorem funcLevel_inject_marks (f f' : Func) (idx : Nat) (t : Tok) (fm : FMode) (hf : f.fmode = some fm)
    (h : apply f (.inject idx t) = some f') :
    f'.hasSpecial = true ∧ (fm = .entry → f'.entry = f.entry ++ [t]) ∧ (fm = .exit → f'.exit = f.exit ++ [t]) := by
  cases fm <;> simp only [apply, hf, Option.some.injEq] at h <;> subst h <;> simp

theorem emptyBlockAlt_marks (f f' : Func) (idx : Nat) (h : apply f (.emptyBlockAlt idx) = some f') :
    f'.hasSpecial = true := by
  simp only [apply] at h
  cases hx : f.body[idx]? with
  | none => simp [hx] at h
  | some x =>
    simp only [hx] at h
    split at h
    · simp only [Option.some.injEq] at h; subst h; rfl
    · cases h

/-- an injection that cannot be honoured is rejected at the call -/
theorem special_rejected_on_other_opcode (f : Func) (idx : Nat) (t : Tok) (x : Instr) (hx : f.body[idx]? = some x)
    (hf : f.fmode = none) (hk : x.kind.isBlockStyle = false)
    (hm : x.mode = some .blockEntry ∨ x.mode = some .blockExit ∨ x.mode = some .blockAlt
          ∨ (x.mode = some .semanticAfter ∧ x.kind.isBranching = false)) :
    apply f (.inject idx t) = none := by
  simp only [apply, hf, hx]
  have : x.addInstr t = none := by
    unfold Instr.addInstr
    rcases hm with hm | hm | hm | ⟨hm, hb⟩ <;> simp [hm, hk, *]
  simp [this]

/-- `FunctionModifier::add_instr_at` called directly: the operator goes to the list of the addressed instruction's own current mode,
    whatever was selected last and whatever the function-level mode is; nothing else changes; a special mode marks the function -/
theorem addInstrAt_spec (f f' : Func) (idx : Nat) (t : Tok) (h : apply f (.addInstrAt idx t) = some f') :
    ∃ x x' sp, f.body[idx]? = some x ∧ x.addInstr t = some (x', sp) ∧ f'.body = f.body.set idx x'
      ∧ f'.hasSpecial = (f.hasSpecial || sp) ∧ f'.fmode = f.fmode ∧ f'.entry = f.entry ∧ f'.exit = f.exit := by
  simp only [apply] at h
  cases hx : f.body[idx]? with
  | none => simp [hx] at h
  | some x =>
    simp only [hx] at h
    cases ha : x.addInstr t with
    | none => simp [ha] at h
    | some p =>
      obtain ⟨i', sp⟩ := p
      simp only [ha, Option.some.injEq] at h
      subst h
      exact ⟨x, i', sp, rfl, ha, rfl, rfl, rfl, rfl, rfl⟩

theorem addInstrAt_special_marks (f f' : Func) (idx : Nat) (t : Tok) (x : Instr) (hx : f.body[idx]? = some x)
    (hm : x.mode = some .semanticAfter ∨ x.mode = some .blockEntry ∨ x.mode = some .blockExit ∨ x.mode = some .blockAlt)
    (h : apply f (.addInstrAt idx t) = some f') : f'.hasSpecial = true := by
  obtain ⟨y, y', sp, hy, ha, _, hs, _⟩ := addInstrAt_spec f f' idx t h
  rw [hx] at hy; cases hy
  have : sp = true := by
    unfold Instr.addInstr at ha
    rcases hm with hm | hm | hm | hm <;> simp only [hm] at ha <;> split at ha <;> simp_all
  rw [hs, this]; simp

end Orca.Lower
