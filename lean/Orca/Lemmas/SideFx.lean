import Orca.Model.SideFx
/-! lemmas about M12 (side-effect report) -/
namespace Orca.SideFx
open Orca.Reindex Orca.Edit

/-! ### entries the parser built carry no tag, whatever the history does -/

/-- the first `n` entries of `l` exist and carry no tag (`t` reads the tag) -/
def PrefNone {α : Type} (t : α → Option Tag) (n : Nat) (l : List α) : Prop :=
  n ≤ l.length ∧ ∀ i e, i < n → l[i]? = some e → t e = none

theorem PrefNone.append {α : Type} {t : α → Option Tag} {n : Nat} {l : List α} (h : PrefNone t n l) (x : List α) :
    PrefNone t n (l ++ x) := by
  refine ⟨by have := h.1; simp; omega, fun i e hi he => ?_⟩
  have : i < l.length := Nat.lt_of_lt_of_le hi h.1
  rw [List.getElem?_append_left this] at he
  exact h.2 i e hi he

theorem PrefNone.set {α : Type} {t : α → Option Tag} {n : Nat} {l : List α} (h : PrefNone t n l) (j : Nat) (old new : α)
    (hj : l[j]? = some old) (ht : t new = t old) : PrefNone t n (l.set j new) := by
  refine ⟨by simpa using h.1, fun i e hi he => ?_⟩
  by_cases hij : j = i
  · subst hij
    have hlt : j < l.length := by
      rcases Nat.lt_or_ge j l.length with h' | h'
      · exact h'
      · rw [List.getElem?_eq_none h'] at hj; cases hj
    rw [List.getElem?_set_self hlt] at he
    cases he
    rw [ht]; exact h.2 j old hi hj
  · rw [List.getElem?_set_ne hij] at he
    exact h.2 i e hi he

theorem PrefNone.of_all {α : Type} {t : α → Option Tag} {l : List α} (h : ∀ e ∈ l, t e = none) (x : List α) :
    PrefNone t l.length (l ++ x) := by
  refine ⟨by simp, fun i e hi he => ?_⟩
  rw [List.getElem?_append_left hi] at he
  exact h e (List.mem_of_getElem? he)

theorem filterMap_drop_of_prefNone {α β : Type} (f : α → Option β) (t : α → Option Tag) (hf : ∀ e, t e = none → f e = none) :
    ∀ (n : Nat) (l : List α), PrefNone t n l → l.filterMap f = (l.drop n).filterMap f
  | 0, l, _ => by simp
  | n + 1, [], h => by have := h.1; simp at this
  | n + 1, a :: l, h => by
    have ha : f a = none := hf a (h.2 0 a (by omega) (by simp))
    have hl : PrefNone t n l := by
      refine ⟨by have := h.1; simp at this; omega, fun i e hi he => ?_⟩
      exact h.2 (i + 1) e (by omega) (by simpa using he)
    simp [List.filterMap_cons, ha, filterMap_drop_of_prefNone f t hf n l hl]

/-- the invariant: the entries the parser built are still there, in front, and untagged -/
structure Inv (b : Base) (s : St) : Prop where
  types : PrefNone (fun (p : Nat × Option Tag) => p.2) b.types.length s.types
  imports : PrefNone Imp.tag (b.nif + b.nig + b.nim) s.imports
  funcs : PrefNone Ent.tag (b.nif + b.nlf) s.funcs
  globals : PrefNone Ent.tag (b.nig + b.nlg) s.globals
  mems : PrefNone Ent.tag (b.nim + b.nlm) s.mems
  exports : PrefNone Exp.tag b.exports.length s.exports
  datas : PrefNone Dat.tag b.ndata s.datas

theorem mkEnts_tag (a u n : Nat) (imp : Bool) (ib : Nat) : ∀ e ∈ mkEnts a u n imp ib, e.tag = none := by
  intro e he
  simp only [mkEnts, List.mem_map] at he
  obtain ⟨k, _, rfl⟩ := he
  rfl

theorem mkEnts_length (a u n : Nat) (imp : Bool) (ib : Nat) : (mkEnts a u n imp ib).length = n := by
  simp [mkEnts]

theorem mkImps_tag (u n : Nat) (k : Sp) : ∀ e ∈ mkImps u n k, e.tag = none := by
  intro e he
  simp only [mkImps, List.mem_map] at he
  obtain ⟨k, _, rfl⟩ := he
  rfl

theorem prefNone_all {α : Type} {t : α → Option Tag} {l : List α} (h : ∀ e ∈ l, t e = none) {n : Nat} (hn : n = l.length) :
    PrefNone t n l := by
  subst hn
  have := PrefNone.of_all h []
  simpa using this

theorem inv_init (b : Base) : Inv b (init b) := by
  refine ⟨?_, ?_, ?_, ?_, ?_, ?_, ?_⟩
  · exact prefNone_all (by intro e he; simp only [init, List.mem_map] at he; obtain ⟨_, _, rfl⟩ := he; rfl) (by simp [init])
  · refine prefNone_all ?_ (by simp [init, mkImps]; omega)
    intro e he
    simp only [init, List.mem_append] at he
    rcases he with (he | he) | he <;> exact mkImps_tag _ _ _ e he
  · refine prefNone_all ?_ (by simp [init, mkEnts_length])
    intro e he
    simp only [init, List.mem_append] at he
    rcases he with he | he <;> exact mkEnts_tag _ _ _ _ _ e he
  · refine prefNone_all ?_ (by simp [init, mkEnts_length])
    intro e he
    simp only [init, List.mem_append] at he
    rcases he with he | he <;> exact mkEnts_tag _ _ _ _ _ e he
  · refine prefNone_all ?_ (by simp [init, mkEnts_length])
    intro e he
    simp only [init, List.mem_append] at he
    rcases he with he | he <;> exact mkEnts_tag _ _ _ _ _ e he
  · refine prefNone_all ?_ (by simp [init])
    intro e he
    simp only [init, List.mem_map] at he
    obtain ⟨_, _, rfl⟩ := he
    rfl
  · refine prefNone_all ?_ (by simp [init])
    intro e he
    simp only [init, List.mem_map] at he
    obtain ⟨_, _, rfl⟩ := he
    rfl

theorem prefNone_addType {n : Nat} {ts : List (Nat × Option Tag)} (h : PrefNone (fun (p : Nat × Option Tag) => p.2) n ts)
    (sig : Nat) (tag : Option Tag) : PrefNone (fun (p : Nat × Option Tag) => p.2) n (addType ts sig tag) := by
  unfold addType
  split
  · exact h
  · exact h.append _

theorem prefNone_markDel {n : Nat} {l : List Ent} (h : PrefNone Ent.tag n l) (i : Nat) : PrefNone Ent.tag n (markDel l i) := by
  unfold markDel
  split
  · rename_i e he
    exact h.set i e _ he rfl
  · exact h

theorem prefNone_markImpDel {n : Nat} {l : List Imp} (h : PrefNone Imp.tag n l) (i : Nat) :
    PrefNone Imp.tag n (markImpDel l i) := by
  unfold markImpDel
  split
  · rename_i e he
    exact h.set i e _ he rfl
  · exact h

theorem prefNone_delEnt {n k : Nat} {v : List Ent} {imps : List Imp} (hv : PrefNone Ent.tag n v) (hi : PrefNone Imp.tag k imps)
    (id : Nat) : PrefNone Ent.tag n (delEnt v imps id).1 ∧ PrefNone Imp.tag k (delEnt v imps id).2 := by
  unfold delEnt
  split
  · refine ⟨prefNone_markDel hv id, ?_⟩
    dsimp only
    split
    · exact prefNone_markImpDel hi _
    · exact hi
  · exact ⟨hv, hi⟩

theorem inv_step (b : Base) (s : St) (op : Op) (h : Inv b s) : Inv b (step s op) := by
  cases op with
  | addType sig tag => exact { h with types := prefNone_addType h.types sig tag }
  | addImport k uid tag =>
    cases k with
    | F => exact { h with imports := h.imports.append _, funcs := h.funcs.append _ }
    | G => exact { h with imports := h.imports.append _, globals := h.globals.append _ }
    | M => exact { h with imports := h.imports.append _, mems := h.mems.append _ }
  | addFunc uid sig tag body => exact { h with types := prefNone_addType h.types sig _, funcs := h.funcs.append _ }
  | addGlobal uid tag get => exact { h with globals := h.globals.append _ }
  | addMem uid tag => exact { h with mems := h.mems.append _ }
  | addExport site idx tag => exact { h with exports := h.exports.append _ }
  | addData p bts tag => exact { h with datas := h.datas.append _ }
  | delFunc id =>
    have := prefNone_delEnt h.funcs h.imports id
    exact { h with funcs := this.1, imports := this.2 }
  | delGlobal id =>
    have := prefNone_delEnt h.globals h.imports id
    exact { h with globals := this.1, imports := this.2 }
  | delExport pos =>
    refine { h with exports := ?_ }
    show PrefNone Exp.tag _ (match s.exports[pos]? with | some e => s.exports.set pos { e with del := true } | none => s.exports)
    split
    · rename_i e he
      exact h.exports.set pos e _ he rfl
    · exact h.exports
  | probe fid key tag body => exact { h with }

theorem inv_run (b : Base) (ops : List Op) : ∀ s, Inv b s → Inv b (run s ops) := by
  induction ops with
  | nil => intro s h; exact h
  | cons op ops ih => intro s h; exact ih _ (inv_step b s op h)

/-- the state without what the parser built -/
def additions (b : Base) (s : St) : St :=
  { s with types := s.types.drop b.types.length, imports := s.imports.drop (b.nif + b.nig + b.nim),
           funcs := s.funcs.drop (b.nif + b.nlf), globals := s.globals.drop (b.nig + b.nlg),
           mems := s.mems.drop (b.nim + b.nlm), exports := s.exports.drop b.exports.length, datas := s.datas.drop b.ndata }

theorem pullWith_additions (m : Maps) (b : Base) (s : St) (h : Inv b s) : pullWith m s = pullWith m (additions b s) := by
  have t1 := filterMap_drop_of_prefNone typeRec? (fun (p : Nat × Option Tag) => p.2)
    (by intro e he; simp [typeRec?, he]) _ _ h.types
  have t2 := filterMap_drop_of_prefNone importRec? Imp.tag (by intro e he; simp [importRec?, he]) _ _ h.imports
  have t3 := filterMap_drop_of_prefNone exportRec? Exp.tag (by intro e he; simp [exportRec?, he]) _ _ h.exports
  have t4 := filterMap_drop_of_prefNone memRec? Ent.tag (by intro e he; simp [memRec?, he]) _ _ h.mems
  have t5 := filterMap_drop_of_prefNone dataRec? Dat.tag (by intro e he; simp [dataRec?, he]) _ _ h.datas
  have t6 := filterMap_drop_of_prefNone (globalRec? m) Ent.tag (by intro e he; simp [globalRec?, he]) _ _ h.globals
  have t7 := filterMap_drop_of_prefNone funcRec? Ent.tag (by intro e he; simp [funcRec?, he]) _ _ h.funcs
  simp only [pullWith, typeRecs, importRecs, exportRecs, memRecs, dataRecs, globalRecs, funcRecs, probeRecs, additions]
  rw [t1, t2, t3, t4, t5, t6, t7]

/-! ### what one operation does to the report -/

theorem importRecs_addImport (s : St) (k : Sp) (uid : Nat) (tag : Tag) :
    importRecs (step s (.addImport k uid tag)) = importRecs s ++ [.import uid k tag] := by
  cases k <;> simp [step, importRecs, setVec, vecOf, importRec?, List.filterMap_append]

theorem funcRecs_addFunc (s : St) (uid sig : Nat) (tag : Tag) (body : List RefTok) :
    funcRecs (step s (.addFunc uid sig tag body))
      = funcRecs s ++ [.func uid s.funcs.length sig (body.flatMap rawTok) tag] := by
  simp [step, funcRecs, funcRec?, List.filterMap_append]

theorem globalRecs_addGlobal (m : Maps) (s : St) (uid : Nat) (tag : Tag) (get : Option RefTok) :
    globalRecs m (step s (.addGlobal uid tag get))
      = globalRecs m s ++ [.global uid s.globals.length (get.map (emitTok m)) tag] := by
  simp [step, globalRecs, globalRec?, List.filterMap_append]

theorem memRecs_addMem (s : St) (uid : Nat) (tag : Tag) :
    memRecs (step s (.addMem uid tag)) = memRecs s ++ [.memory uid s.mems.length tag] := by
  simp [step, memRecs, memRec?, List.filterMap_append]

theorem exportRecs_addExport (s : St) (site idx : Nat) (tag : Option Tag) :
    exportRecs (step s (.addExport site idx tag))
      = exportRecs s ++ (tag.map (Rec.export s.exports.length idx)).toList := by
  cases tag <;> simp [step, exportRecs, exportRec?, List.filterMap_append]

theorem dataRecs_addData (s : St) (p : Bool) (bts : String) (tag : Option Tag) :
    dataRecs (step s (.addData p bts tag)) = dataRecs s ++ (tag.map (Rec.data p bts)).toList := by
  cases tag <;> simp [step, dataRecs, dataRec?, List.filterMap_append]

/-- a type is reported when it is new to the module and was given a tag; a signature the module already has keeps
    the tag (or the absence of one) it has -/
theorem typeRecs_addType (ts : List (Nat × Option Tag)) (sig : Nat) (tag : Option Tag) :
    (addType ts sig tag).filterMap typeRec?
      = ts.filterMap typeRec? ++ (if ts.any (·.1 == sig) then [] else (tag.map (Rec.type sig)).toList) := by
  unfold addType
  split
  · simp
  · cases tag <;> simp [typeRec?, List.filterMap_append]

/-- an import added for a function / global / memory never shows among the function / global / memory records -/
theorem funcRecs_addImport (s : St) (k : Sp) (uid : Nat) (tag : Tag) :
    funcRecs (step s (.addImport k uid tag)) = funcRecs s := by
  cases k <;> simp [step, funcRecs, setVec, vecOf, funcRec?, List.filterMap_append]

theorem globalRecs_addImport (m : Maps) (s : St) (k : Sp) (uid : Nat) (tag : Tag) :
    globalRecs m (step s (.addImport k uid tag)) = globalRecs m s := by
  cases k <;> simp [step, globalRecs, setVec, vecOf, globalRec?, List.filterMap_append]

theorem memRecs_addImport (s : St) (k : Sp) (uid : Nat) (tag : Tag) :
    memRecs (step s (.addImport k uid tag)) = memRecs s := by
  cases k <;> simp [step, memRecs, setVec, vecOf, memRec?, List.filterMap_append]

/-- marking an entry deleted takes exactly its record out of the report -/
theorem filterMap_set_none {α β : Type} (f : α → Option β) (l : List α) (i : Nat) (x : α) (hx : f x = none) (hi : i < l.length) :
    (l.set i x).filterMap f = (l.eraseIdx i).filterMap f := by
  induction l generalizing i with
  | nil => simp at hi
  | cons a l ih =>
    cases i with
    | zero => simp [List.filterMap_cons, hx]
    | succ i =>
      have := ih i (by simpa using hi)
      simp [List.filterMap_cons, this]

theorem funcRecs_markDel (v : List Ent) (i : Nat) (hi : i < v.length) :
    (markDel v i).filterMap funcRec? = (v.eraseIdx i).filterMap funcRec? := by
  unfold markDel
  rw [List.getElem?_eq_getElem hi]
  exact filterMap_set_none _ _ _ _ (by simp [funcRec?]) hi

theorem globalRecs_markDel (m : Maps) (v : List Ent) (i : Nat) (hi : i < v.length) :
    (markDel v i).filterMap (globalRec? m) = (v.eraseIdx i).filterMap (globalRec? m) := by
  unfold markDel
  rw [List.getElem?_eq_getElem hi]
  exact filterMap_set_none _ _ _ _ (by simp [globalRec?]) hi

theorem importRecs_markImpDel (l : List Imp) (i : Nat) (hi : i < l.length) :
    (markImpDel l i).filterMap importRec? = (l.eraseIdx i).filterMap importRec? := by
  unfold markImpDel
  rw [List.getElem?_eq_getElem hi]
  exact filterMap_set_none _ _ _ _ (by simp [importRec?]) hi

theorem funcRecs_delFunc (s : St) (id : Nat) (hi : id < s.funcs.length) :
    funcRecs (step s (.delFunc id)) = (s.funcs.eraseIdx id).filterMap funcRec? := by
  simp only [step, funcRecs, delEnt, List.getElem?_eq_getElem hi]
  exact funcRecs_markDel _ _ hi

theorem globalRecs_delGlobal (m : Maps) (s : St) (id : Nat) (hi : id < s.globals.length) :
    globalRecs m (step s (.delGlobal id)) = (s.globals.eraseIdx id).filterMap (globalRec? m) := by
  simp only [step, globalRecs, delEnt, List.getElem?_eq_getElem hi]
  exact globalRecs_markDel m _ _ hi

/-- deleting an imported function takes the record of its import entry out as well; deleting a local one leaves the
    import records alone -/
theorem importRecs_delFunc (s : St) (id : Nat) (hi : id < s.funcs.length) (hp : s.funcs[id].impPos < s.imports.length) :
    importRecs (step s (.delFunc id))
      = if s.funcs[id].imp then (s.imports.eraseIdx s.funcs[id].impPos).filterMap importRec? else importRecs s := by
  simp only [step, importRecs, delEnt, List.getElem?_eq_getElem hi]
  split
  · exact importRecs_markImpDel _ _ hp
  · rfl

theorem exportRecs_delExport (s : St) (pos : Nat) (hi : pos < s.exports.length) :
    exportRecs (step s (.delExport pos)) = (s.exports.eraseIdx pos).filterMap exportRec? := by
  simp only [step, exportRecs, List.getElem?_eq_getElem hi]
  exact filterMap_set_none _ _ _ _ (by simp [exportRec?]) hi

/-- a probe changes no record of an addition -/
theorem probe_frame (m : Maps) (s : St) (fid : Nat) (key : PKey) (tag : Option Tag) (body : List RefTok) :
    let s' := step s (.probe fid key tag body)
    typeRecs s' = typeRecs s ∧ importRecs s' = importRecs s ∧ exportRecs s' = exportRecs s ∧ memRecs s' = memRecs s
      ∧ dataRecs s' = dataRecs s ∧ globalRecs m s' = globalRecs m s ∧ funcRecs s' = funcRecs s := by
  simp [step, typeRecs, importRecs, exportRecs, memRecs, dataRecs, globalRecs, funcRecs]

/-! ### probe lists: one per (function, location, mode) -/

def SameKey (a b : Probe) : Prop := a.fid = b.fid ∧ a.key = b.key

def KeysUnique : List Probe → Prop
  | [] => True
  | p :: ps => (∀ q ∈ ps, ¬ SameKey p q) ∧ KeysUnique ps

theorem mem_addProbe {ps : List Probe} {p q : Probe} (h : q ∈ addProbe ps p) :
    q ∈ ps ∨ SameKey q p := by
  induction ps with
  | nil => simp [addProbe] at h; subst h; exact .inr ⟨rfl, rfl⟩
  | cons a ps ih =>
    simp only [addProbe] at h
    split at h
    · rename_i hk
      rcases List.mem_cons.mp h with h | h
      · subst h; exact .inr hk
      · exact .inl (List.mem_cons_of_mem _ h)
    · rcases List.mem_cons.mp h with h | h
      · subst h; exact .inl (List.mem_cons_self ..)
      · rcases ih h with h | h
        · exact .inl (List.mem_cons_of_mem _ h)
        · exact .inr h

theorem keysUnique_addProbe {ps : List Probe} (h : KeysUnique ps) (p : Probe) : KeysUnique (addProbe ps p) := by
  induction ps with
  | nil => simp [addProbe, KeysUnique]
  | cons a ps ih =>
    simp only [addProbe]
    split
    · rename_i hk
      refine ⟨fun q hq hs => h.1 q hq ?_, h.2⟩
      exact hs
    · rename_i hk
      refine ⟨fun q hq hs => ?_, ih h.2⟩
      rcases mem_addProbe hq with hq | hq
      · exact h.1 q hq hs
      · exact hk ⟨hs.1.trans hq.1, hs.2.trans hq.2⟩

theorem keysUnique_step (s : St) (op : Op) (h : KeysUnique s.probes) : KeysUnique (step s op).probes := by
  cases op with
  | probe fid key tag body => exact keysUnique_addProbe h _
  | addImport k uid tag => cases k <;> exact h
  | _ => exact h

theorem keysUnique_run (ops : List Op) : ∀ s, KeysUnique s.probes → KeysUnique (run s ops).probes := by
  induction ops with
  | nil => intro s h; exact h
  | cons op ops ih => intro s h; exact ih _ (keysUnique_step s op h)

theorem listAt_of_mem {ps : List Probe} (hu : KeysUnique ps) {p : Probe} (hp : p ∈ ps) {idx mode : Nat}
    (hk : p.key = .loc idx mode) : listAt ps p.fid idx mode = p.body := by
  induction ps with
  | nil => cases hp
  | cons a ps ih =>
    unfold listAt
    rw [List.find?_cons]
    by_cases ha : a.fid = p.fid ∧ a.key = .loc idx mode
    · simp only [ha, and_self, decide_true]
      rcases List.mem_cons.mp hp with rfl | hp'
      · rfl
      · exact absurd ⟨ha.1, ha.2.trans hk.symm⟩ (hu.1 p hp')
    · simp only [ha, decide_false]
      rcases List.mem_cons.mp hp with rfl | hp'
      · exact absurd ⟨rfl, hk⟩ ha
      · exact ih hu.2 hp'

theorem hasAlt_of_mem {ps : List Probe} {p : Probe} (hp : p ∈ ps) {idx : Nat} (hk : p.key = .loc idx 2) :
    hasAlt ps p.fid idx = true := by
  unfold hasAlt
  rw [List.any_eq_true]
  exact ⟨p, hp, by simp [hk]⟩

/-! ### the sorted report is a permutation of the lists -/

theorem insertProbe_perm (p : Probe) (l : List Probe) : (insertProbe p l).Perm (p :: l) := by
  induction l with
  | nil => exact List.Perm.refl _
  | cons q qs ih =>
    simp only [insertProbe]
    split
    · exact List.Perm.refl _
    · exact (List.Perm.cons q ih).trans (List.Perm.swap p q qs)

theorem sortProbes_perm (l : List Probe) : (sortProbes l).Perm l := by
  induction l with
  | nil => exact List.Perm.refl _
  | cons p ps ih =>
    show (insertProbe p (sortProbes ps)).Perm (p :: ps)
    exact (insertProbe_perm p _).trans (List.Perm.cons p ih)

theorem probeRecs_perm (m : Maps) (s : St) :
    (probeRecs m s).Perm ((s.probes.filter reported).map (probeRec m)) := by
  unfold probeRecs
  exact ((sortProbes_perm s.probes).filter reported).map (probeRec m)

/-! ### every reported body is a run of the emitted code -/

theorem infix3 {α : Type} (A M C : List α) : A <:+: A ++ M ++ C ∧ M <:+: A ++ M ++ C ∧ C <:+: A ++ M ++ C :=
  ⟨⟨[], M ++ C, by simp⟩, ⟨A, C, rfl⟩, ⟨A ++ M, [], by simp⟩⟩

theorem emitInstr_infix (m : Maps) (ps : List Probe) (fid : Nat) (ops : List (List Tok)) :
    ∀ (k j : Nat) (hj : j < ops.length), emitInstr m ps fid (k + j) ops[j] <:+: emitFrom m ps fid k ops := by
  induction ops with
  | nil => intro k j hj; simp at hj
  | cons op ops ih =>
    intro k j hj
    cases j with
    | zero =>
      simp only [emitFrom, Nat.add_zero, List.getElem_cons_zero]
      exact ⟨[], emitFrom m ps fid (k + 1) ops, by simp⟩
    | succ j =>
      simp only [emitFrom, List.getElem_cons_succ]
      have := ih (k + 1) j (by simpa using hj)
      rw [show k + 1 + j = k + (j + 1) by omega] at this
      obtain ⟨a, c, h⟩ := this
      exact ⟨emitInstr m ps fid k op ++ a, c, by rw [← h]; simp [List.append_assoc]⟩

theorem body_infix_emitInstr (m : Maps) {ps : List Probe} (hu : KeysUnique ps) {p : Probe} (hp : p ∈ ps) {idx mode : Nat}
    (hk : p.key = .loc idx mode) (hm : mode ≤ 2) (op : List Tok) :
    emitBody m p.body <:+: emitInstr m ps p.fid idx op := by
  unfold emitInstr
  have h012 : mode = 0 ∨ mode = 1 ∨ mode = 2 := by omega
  rcases h012 with rfl | rfl | rfl
  · rw [listAt_of_mem hu hp hk]
    exact (infix3 _ _ _).1
  · rw [listAt_of_mem hu hp hk]
    exact (infix3 _ _ _).2.2
  · rw [hasAlt_of_mem hp hk, if_pos rfl, listAt_of_mem hu hp hk]
    exact (infix3 _ _ _).2.1

/-- the body of a reported plain-mode list is a run of the code its function is emitted with -/
theorem body_infix_emitFunc (m : Maps) {ps : List Probe} (hu : KeysUnique ps) {p : Probe} (hp : p ∈ ps) {idx mode : Nat}
    (hk : p.key = .loc idx mode) (hm : mode ≤ 2) (ops : List (List Tok)) (hi : idx < ops.length) :
    emitBody m p.body <:+: emitFunc m ps p.fid ops := by
  have h1 := body_infix_emitInstr m hu hp hk hm ops[idx]
  have h2 := emitInstr_infix m ps p.fid ops 0 idx hi
  rw [Nat.zero_add] at h2
  exact h1.trans h2

end Orca.SideFx
