import Orca.Model.Types
namespace Orca.Types

variable {τ : Type} [DecidableEq τ]

/-- the state invariant: the dedup map is sound and complete for `types`, keys are unique, and the groups list the ids
    `0 .. n-1` in order (so the index of a type in the encoded section is its id) -/
structure WF (s : TState τ) : Prop where
  sound : ∀ (t : τ) (id : Nat), lookup s.map t = some id → s.types[id]? = some t
  complete : ∀ (i : Nat) (t : τ), s.types[i]? = some t → (lookup s.map t).isSome = true
  ordered : emitted s = List.range s.types.length

theorem lookup_append (m : List (τ × Nat)) (t u : τ) (id : Nat) :
    lookup (m ++ [(t, id)]) u = match lookup m u with
                               | some j => some j
                               | none => if t = u then some id else none := by
  induction m with
  | nil => simp [lookup]
  | cons p ps ih =>
    obtain ⟨k, v⟩ := p
    by_cases hk : k = u
    · simp [lookup, hk]
    · simp [lookup, hk, ih]

theorem lookup_append_of_none (m : List (τ × Nat)) (t u : τ) (id : Nat) (h : lookup m u = none) :
    lookup (m ++ [(t, id)]) u = if t = u then some id else none := by
  rw [lookup_append, h]

theorem lookup_append_of_some (m : List (τ × Nat)) (t u : τ) (id j : Nat) (h : lookup m u = some j) :
    lookup (m ++ [(t, id)]) u = some j := by
  rw [lookup_append, h]

theorem emitted_append (s : TState τ) (g : List Nat × Bool) :
    emitted { s with groups := s.groups ++ [g] } = emitted s ++ g.1 := by
  simp [emitted, List.flatMap_append]

/-- **add_type**: the returned id holds exactly the requested type, existing ids keep their content, the encoded section
    is extended at its end only, the invariant is kept, and adding the same type again returns the same id and changes
    nothing -/
theorem addType_spec (s : TState τ) (t : τ) (h : WF s) :
    let r := addType s t
    r.1.types[r.2]? = some t
    ∧ WF r.1
    ∧ (∀ i, i < s.types.length → r.1.types[i]? = s.types[i]?)
    ∧ (∃ ext, encoded r.1 = encoded s ++ ext ∧ r.1.types.length = s.types.length + ext.length)
    ∧ addType r.1 t = (r.1, r.2) := by
  simp only [addType]
  cases hl : lookup s.map t with
  | some id =>
    refine ⟨h.sound t id hl, h, fun _ _ => rfl, ⟨[], by simp, by simp⟩, by simp [addType, hl]⟩
  | none =>
    simp only
    have hnew : lookup (s.map ++ [(t, s.types.length)]) t = some s.types.length := by
      rw [lookup_append_of_none _ _ _ _ hl]; simp
    refine ⟨by simp, ?_, ?_, ?_, ?_⟩
    · constructor
      · intro u id hu
        cases hlu : lookup s.map u with
        | some j =>
          rw [lookup_append_of_some _ _ _ _ _ hlu] at hu
          have hji : j = id := by simpa using hu
          subst hji
          have hs := h.sound u j hlu
          have hj : j < s.types.length := by
            rcases Nat.lt_or_ge j s.types.length with hj | hj
            · exact hj
            · simp [List.getElem?_eq_none hj] at hs
          simp only
          rw [List.getElem?_append_left hj]; exact hs
        | none =>
          rw [lookup_append_of_none _ _ _ _ hlu] at hu
          by_cases htu : t = u
          · simp [htu] at hu; subst hu; subst htu; simp
          · simp [htu] at hu
      · intro i u hi
        simp only at hi ⊢
        rcases Nat.lt_or_ge i s.types.length with hlt | hge
        · rw [List.getElem?_append_left hlt] at hi
          have := h.complete i u hi
          cases hlu : lookup s.map u with
          | none => simp [hlu] at this
          | some j => rw [lookup_append_of_some _ _ _ _ _ hlu]; rfl
        · rw [List.getElem?_append_right hge] at hi
          have h0 : i - s.types.length = 0 := by
            rcases Nat.eq_zero_or_pos (i - s.types.length) with h0 | hp
            · exact h0
            · rw [List.getElem?_eq_none (by simp; omega)] at hi; simp at hi
          rw [h0] at hi
          simp at hi
          subst hi
          rw [hnew]; rfl
      · show emitted { s with types := s.types ++ [t], map := s.map ++ [(t, s.types.length)], groups := s.groups ++ [([s.types.length], false)] }
            = List.range (s.types ++ [t]).length
        have : emitted { s with types := s.types ++ [t], map := s.map ++ [(t, s.types.length)], groups := s.groups ++ [([s.types.length], false)] }
            = emitted s ++ [s.types.length] := by simp [emitted, List.flatMap_append]
        rw [this, h.ordered]
        simp [List.range_succ]
    · intro i hi
      exact List.getElem?_append_left hi
    · refine ⟨[some t], ?_, by simp⟩
      simp only [encoded, emitted, List.flatMap_append, List.map_append]
      congr 1
      · apply List.map_congr_left
        intro id hid
        have hmem : id ∈ emitted s := hid
        rw [h.ordered] at hmem
        have : id < s.types.length := by simpa using hmem
        exact List.getElem?_append_left this
      · simp
    · simp [addType, hnew]

/-- the encoded type section lists, at index `i`, the content of type id `i` -/
theorem encoded_eq (s : TState τ) (h : WF s) : encoded s = s.types.map some := by
  simp only [encoded, h.ordered]
  apply List.ext_getElem?
  intro i
  rcases Nat.lt_or_ge i s.types.length with hlt | hge
  · simp [List.getElem?_map, List.getElem?_range hlt, List.getElem?_eq_getElem hlt]
  · rw [List.getElem?_eq_none (by simpa using hge), List.getElem?_eq_none (by simpa using hge)]

end Orca.Types

namespace Orca.Types
variable {τ : Type} [DecidableEq τ]

theorem lookup_insertMin (m : List (τ × Nat)) (t u : τ) (id : Nat) :
    lookup (insertMin m t id) u =
      if t = u then some (match lookup m u with | some j => min j id | none => id) else lookup m u := by
  induction m with
  | nil => by_cases htu : t = u <;> simp [lookup, insertMin, htu]
  | cons p ps ih =>
    obtain ⟨k, v⟩ := p
    by_cases hkt : k = t
    · subst hkt
      by_cases hku : k = u
      · simp [lookup, insertMin, hku]
      · simp [lookup, insertMin, hku]
    · by_cases hku : k = u
      · have htu : ¬ t = u := fun h => hkt (hku.trans h.symm)
        subst hku
        simp [lookup, insertMin, hkt, htu]
      · simp [lookup, insertMin, hkt, hku, ih]

/-- smallest element of a list -/
def minOf : List Nat → Option Nat
  | [] => none
  | x :: xs => some (match minOf xs with | some m => min x m | none => x)

theorem minOf_spec (l : List Nat) :
    (l = [] → minOf l = none) ∧ (l ≠ [] → ∃ m, minOf l = some m ∧ m ∈ l ∧ ∀ x ∈ l, m ≤ x) := by
  induction l with
  | nil => simp [minOf]
  | cons x xs ih =>
    refine ⟨by simp, fun _ => ?_⟩
    by_cases hxs : xs = []
    · subst hxs; simp [minOf]
    · obtain ⟨m, hm, hmem, hle⟩ := ih.2 hxs
      refine ⟨min x m, by simp [minOf, hm], ?_, ?_⟩
      · rcases Nat.le_total x m with h | h
        · simp [Nat.min_eq_left h]
        · simp [Nat.min_eq_right h, hmem]
      · intro y hy
        rcases List.mem_cons.mp hy with rfl | hy
        · exact Nat.min_le_left _ _
        · exact Nat.le_trans (Nat.min_le_right _ _) (hle y hy)

theorem minOf_perm {l1 l2 : List Nat} (h : l1.Perm l2) : minOf l1 = minOf l2 := by
  by_cases h1 : l1 = []
  · subst h1; have := h.symm.eq_nil; subst this; rfl
  · have h2 : l2 ≠ [] := fun e => h1 (by subst e; exact h.eq_nil)
    obtain ⟨m1, e1, mem1, le1⟩ := (minOf_spec l1).2 h1
    obtain ⟨m2, e2, mem2, le2⟩ := (minOf_spec l2).2 h2
    rw [e1, e2]
    have a := le1 m2 (h.symm.subset mem2)
    have b := le2 m1 (h.subset mem1)
    congr 1; omega

/-- the ids of `order` whose type is `u` -/
def idsOf (types : List τ) (order : List Nat) (u : τ) : List Nat := order.filter (fun id => types[id]? = some u)

/-- what the repaired `ModuleTypes::new` stores for a type: the smallest of its ids -/
theorem buildMap_min (types : List τ) (u : τ) : ∀ (order : List Nat) (m0 : List (τ × Nat)),
    lookup (order.foldl (buildStep insertMin types) m0) u
      = match lookup m0 u, minOf (idsOf types order u) with
        | some a, some b => some (min a b)
        | some a, none => some a
        | none, some b => some b
        | none, none => none := by
  intro order
  induction order with
  | nil => intro m0; cases h0 : lookup m0 u <;> simp [idsOf, minOf, h0]
  | cons id rest ih =>
    intro m0
    simp only [List.foldl_cons, buildStep]
    cases hty : types[id]? with
    | none =>
      simp only
      rw [ih m0]
      have : idsOf types (id :: rest) u = idsOf types rest u := by simp [idsOf, hty]
      rw [this]
    | some t =>
      simp only
      rw [ih (insertMin m0 t id), lookup_insertMin]
      by_cases htu : t = u
      · subst htu
        have : idsOf types (id :: rest) t = id :: idsOf types rest t := by simp [idsOf, hty]
        rw [this]
        cases h0 : lookup m0 t <;> cases hm : minOf (idsOf types rest t) <;> simp [minOf, hm, Nat.min_assoc]
      · have : idsOf types (id :: rest) u = idsOf types rest u := by
          simp [idsOf, hty, htu]
        rw [this]; simp [htu]

/-- **C04 / C13.** The dedup map built by the repaired `ModuleTypes::new` does not depend on the order in which the hash
    map of types is iterated. -/
theorem new_order_independent (groups : List (List Nat × Bool)) (types : List τ) (o1 o2 : List Nat) (h : o1.Perm o2) (u : τ) :
    lookup (new groups types o1).map u = lookup (new groups types o2).map u := by
  simp only [new, buildMap]
  rw [buildMap_min types u o1 [], buildMap_min types u o2 []]
  have : minOf (idsOf types o1 u) = minOf (idsOf types o2 u) := minOf_perm (h.filter _)
  rw [this]

/-- the state after parsing is well-formed, whatever the iteration order: the map is sound and complete and, when the
    groups list the ids in order, the encoded index of a type is its id -/
theorem new_wf (groups : List (List Nat × Bool)) (types : List τ) (order : List Nat)
    (hall : ∀ i, i < types.length → i ∈ order)
    (hgroups : groups.flatMap (·.1) = List.range types.length) :
    WF (new groups types order) := by
  constructor
  · intro t id hl
    simp only [new, buildMap] at hl ⊢
    rw [buildMap_min types t order []] at hl
    simp only [lookup] at hl
    by_cases he : idsOf types order t = []
    · rw [(minOf_spec _).1 he] at hl; simp at hl
    · obtain ⟨m, hm, hmem, _⟩ := (minOf_spec _).2 he
      rw [hm] at hl
      simp at hl; subst hl
      simp only [idsOf, List.mem_filter, decide_eq_true_eq] at hmem
      exact hmem.2
  · intro i t hi
    simp only [new, buildMap] at hi ⊢
    rw [buildMap_min types t order []]
    have hlt : i < types.length := by
      rcases Nat.lt_or_ge i types.length with h | h
      · exact h
      · simp [List.getElem?_eq_none h] at hi
    have hmem : i ∈ idsOf types order t := by
      simp only [idsOf, List.mem_filter, decide_eq_true_eq]; exact ⟨hall i hlt, hi⟩
    have hne : idsOf types order t ≠ [] := List.ne_nil_of_mem hmem
    obtain ⟨m, hm, _, _⟩ := (minOf_spec _).2 hne
    simp [lookup, hm]
  · exact hgroups

/-- **F3 (repaired), decided.** With plain `HashMap::insert` (the code before the repair) the id stored for a type that
    occurs twice depends on the iteration order. -/
theorem old_new_order_dependent :
    lookup (buildMap insertMap [7, 7] [0, 1]) 7 = some 1 ∧ lookup (buildMap insertMap [7, 7] [1, 0]) 7 = some 0 := by
  decide

end Orca.Types
