import Orca.Lemmas.StackFull
import Orca.Model.SemTree
import Orca.Lemmas.SemBranch
/-!
**From the tree model to the stack machine.** M4 (`Orca.Sem`) states what the lowering does on *structured* programs (`lower`, `lowerF`)
and proves that this is semantically right (Lemmas/SemSim, SemBranch); M3 (`Orca.Lower`) transcribes what the code does on *flat*
instruction lists and is proved to be the stack machine `specRunF` (Lemmas/StackFull). This file proves that the two agree: running the
machine over the flattening of an annotated tree program gives the tokens of the tree-lowered program — on the scope where they do agree
(stated in `OkL` / the theorems' hypotheses: at most two flag-guarded bodies per construct, no flagged branch targeting a loop, no
`before` code on instruction 0 next to function-level code, flags numbered in program order).
-/
namespace Orca.Bridge
open Orca.Lower (Tok Kind tConst tLocalGet tLocalSet tIf tElse tEnd tWrapper)
open Orca.Sem (Instr Ann SA OpK probes flagChain pendingI pendingL setFlag)

/-- probes as tokens, as the driver writes them (`i32.const p; call <log>`) -/
def P (ps : List Nat) : List Tok := SemTree.probeToks ps

/-- the token of a decoded instruction: the driver's -/
def tokOf (k : OpK) : Tok := SemTree.showOp k

def brTok (n : Nat) : Tok := s!"br:{n}"
def brIfTok (n : Nat) : Tok := s!"br_if:{n}"
def brTableTok (ts : List Nat) (d : Nat) : Tok := s!"br_table:{".".intercalate (ts.map toString)}/{d}"

theorem showOp_const0 : SemTree.showOp (.const 0) = tConst 0 := by simp [SemTree.showOp, tConst]
theorem showOp_const1 : SemTree.showOp (.const 1) = tConst 1 := by simp [SemTree.showOp, tConst]
theorem showOp_localGet (f : Nat) : SemTree.showOp (.localGet f) = tLocalGet f := rfl
theorem showOp_localSet (f : Nat) : SemTree.showOp (.localSet f) = tLocalSet f := rfl

def mk (t : Tok) (k : Kind) : Lower.Instr := { tok := t, kind := k }

def saToks : Option SA → List Tok
  | some s => P s.ps
  | none => []

mutual
/-- an annotated structured instruction as the flat instructions (with instrumentation lists) the API would have built -/
def flatI : Instr → List Lower.Instr
  | .op b a k => [{ mk (tokOf k) .other with before := P b, after := P a }]
  | .probe id => [mk (tConst id) .other, mk s!"call:{SemTree.logFn}" .other]
  | .block b ann _ tk body =>
    { mk tk .block with before := P b, blockEntry := P ann.entry, blockExit := P ann.exit, semAfter := P ann.after }
      :: (flatL body ++ [mk tEnd .end_])
  | .loop b ann tk body =>
    { mk tk .loop with before := P b, blockEntry := P ann.entry, blockExit := P ann.exit, semAfter := P ann.after }
      :: (flatL body ++ [mk tEnd .end_])
  | .ite b annT annE _ tk t e hasElse =>
    { mk tk .if_ with before := P b, blockEntry := P annT.entry, blockExit := P annT.exit, semAfter := P annT.after }
      :: (flatL t
          ++ (if hasElse then
                { mk tElse .else_ with blockEntry := P annE.entry, blockExit := P annE.exit, semAfter := P annE.after } :: flatL e
              else [])
          ++ [mk tEnd .end_])
  | .br b a sa n => [{ mk (brTok n) (.br n) with before := P b, after := P a, semAfter := saToks sa }]
  | .brIf b a sa n => [{ mk (brIfTok n) (.brIf n) with before := P b, after := P a, semAfter := saToks sa }]
  | .brTable b a sa ts d => [{ mk (brTableTok ts d) (.brTable ts d) with before := P b, after := P a, semAfter := saToks sa }]
  | .ret b a => [{ mk "return" .exitLike with before := P b, after := P a }]
  | .unreachable b a => [{ mk "unreachable" .exitLike with before := P b, after := P a }]
def flatL : List Instr → List Lower.Instr
  | [] => []
  | i :: is => flatI i ++ flatL is
end

/-- the tokens of a structured program: the driver's `flatten` -/
abbrev toksI := SemTree.flattenI
abbrev toksL := SemTree.flattenL

theorem toksL_append : ∀ (a b : List Instr), toksL (a ++ b) = toksL a ++ toksL b
  | [], b => rfl
  | i :: a, b => by simp [SemTree.flattenL, toksL_append a b]

theorem flatL_append : ∀ (a b : List Instr), flatL (a ++ b) = flatL a ++ flatL b
  | [], b => rfl
  | i :: a, b => by simp [flatL, flatL_append a b]

theorem toksL_probes : ∀ ps : List Nat, toksL (probes ps) = P ps
  | [] => rfl
  | p :: ps => by
    have := toksL_probes ps
    simp only [probes, List.map_cons, toksL, SemTree.flattenL, SemTree.flattenI] at this ⊢
    rw [this]; simp [P, SemTree.probeToks]

theorem P_nil : P [] = [] := rfl
theorem P_append (a b : List Nat) : P (a ++ b) = P a ++ P b := by simp [P, SemTree.probeToks]


open Orca.Lower (Fr Del specRunF specStepF specStepA fnPre flaggedBranch parkAllF branchTargets chainToks endAfter)

/-- one step of the machine at an instruction that is not the last one and leaves at least one frame open -/
theorem runF_step (last : Nat) (E X : List Tok) (idx : Nat) (fr : List Fr) (del : Option Del) (nl : Nat) (i : Lower.Instr)
    (is : List Lower.Instr) (fr' : List Fr) (del' : Option Del) (nl' : Nat) (b : List Tok) (alt : Option (List Tok)) (a : List Tok)
    (hs : specStepF fr del nl i = some (fr', del', nl', b, alt, a)) (hne : fr' ≠ []) (hlt : idx < last) :
    specRunF last E X idx fr del nl (i :: is)
      = (specRunF last E X (idx + 1) fr' del' nl' is).map
          (fun r => (i.before ++ fnPre last E X idx i ++ b ++ alt.getD [i.tok] ++ (i.after ++ a) ++ r.1, r.2)) := by
  have hfe : fr'.isEmpty = false := by cases fr' with | nil => exact absurd rfl hne | cons _ _ => rfl
  have hge : ¬ idx ≥ last := by omega
  simp only [specRunF, hs, hfe, Bool.false_and, Bool.false_eq_true, if_false, hge]
  cases specRunF last E X (idx + 1) fr' del' nl' is with
  | none => rfl
  | some r => rfl

/-- the entry code matters at instruction 0 only -/
theorem runF_E_irrelevant (last : Nat) (E X : List Tok) : ∀ (xs : List Lower.Instr) (idx : Nat) (fr : List Fr) (del : Option Del) (nl : Nat),
    idx ≠ 0 → specRunF last E X idx fr del nl xs = specRunF last [] X idx fr del nl xs := by
  intro xs
  induction xs with
  | nil => intro _ _ _ _ _; rfl
  | cons x xs ih =>
    intro idx fr del nl h0
    have hp : fnPre last E X idx x = fnPre last [] X idx x := by simp [fnPre, h0]
    simp only [specRunF, hp, ih (idx + 1) _ _ _ (by omega)]

/-- what a flagged branch parks: the probe's tokens and the flag local -/
def conv (sa : SA) : List Tok × Nat := (P sa.ps, sa.flag)

/-- the frames after a fragment has run: the frame `d` levels out (0 = innermost) has received the bodies of the fragment's flagged
    branches that leave to exactly that level, in program order -/
def parkFrom (body : List Instr) : Nat → List Fr → List Fr
  | _, [] => []
  | d, f :: fr => { f with afterFl := f.afterFl ++ (pendingL d body).map conv } :: parkFrom body (d + 1) fr

theorem parkFrom_length (body : List Instr) : ∀ (d : Nat) (fr : List Fr), (parkFrom body d fr).length = fr.length
  | _, [] => rfl
  | d, f :: fr => by simp [parkFrom, parkFrom_length body (d + 1) fr]

theorem parkFrom_ne_nil (body : List Instr) (d : Nat) (fr : List Fr) (h : fr ≠ []) : parkFrom body d fr ≠ [] := by
  cases fr with
  | nil => exact absurd rfl h
  | cons f fr => simp [parkFrom]

theorem pendingL_append (d : Nat) : ∀ (a b : List Instr), pendingL d (a ++ b) = pendingL d a ++ pendingL d b
  | [], b => by simp [pendingL]
  | i :: a, b => by simp [pendingL, pendingL_append d a b]

theorem parkFrom_nil_body : ∀ (d : Nat) (fr : List Fr), parkFrom [] d fr = fr
  | _, [] => rfl
  | d, f :: fr => by simp [parkFrom, pendingL, parkFrom_nil_body (d + 1) fr]

theorem parkFrom_append (a b : List Instr) : ∀ (d : Nat) (fr : List Fr), parkFrom b d (parkFrom a d fr) = parkFrom (a ++ b) d fr
  | _, [] => rfl
  | d, f :: fr => by simp [parkFrom, pendingL_append, parkFrom_append a b (d + 1) fr]


open Orca.Lower (frAt parkFr frAt_parkFr parkFr_length frAt_cons_lt frAt_cons_top frAt_ge frAt_push)
open Orca.Sem (flagsI flagsL)

/-- the token form of the tree model's flag chain is the chain `resolve_bodies` builds — for at most two guarded bodies (with three the
    code's chain is ill-formed: finding F27) -/
theorem toksL_flagChain (sas : List SA) (h : sas.length ≤ 2) : toksL (flagChain sas) = chainToks (sas.map conv) := by
  match sas, h with
  | [], _ => rfl
  | [s], _ =>
    simp [flagChain, SemTree.flattenL, SemTree.flattenI, chainToks, Lower.resolveBodies.chain, conv, showOp_localGet, toksL_probes, P_nil, tIf, tEnd]
  | [s1, s2], _ =>
    simp [flagChain, SemTree.flattenL, SemTree.flattenI, chainToks, Lower.resolveBodies.chain, conv, showOp_localGet, toksL_probes, P_nil, tIf, tEnd, tElse]
  | _ :: _ :: _ :: _, h => simp at h

theorem frAt_ext : ∀ (a b : List Fr), a.length = b.length → (∀ k, k < a.length → frAt a k = frAt b k) → a = b := by
  intro a b hl h
  have : a.reverse = b.reverse := by
    apply List.ext_getElem?
    intro k
    by_cases hk : k < a.length
    · have h1 := h k hk
      unfold frAt at h1
      have ha : k < a.reverse.length := by simpa using hk
      have hb : k < b.reverse.length := by simp; omega
      rw [List.getElem?_eq_getElem ha, List.getElem?_eq_getElem hb] at h1 ⊢
      simpa using h1
    · rw [List.getElem?_eq_none (by simp; omega), List.getElem?_eq_none (by simp; omega)]
  have := congrArg List.reverse this
  simpa using this

/-- exact form of what a branch parks: the frame with block id `k` receives one copy per target that designates it -/
theorem frAt_parkAllF (topId : Nat) (e : List Tok × Nat) : ∀ (ts : List Nat) (fr : List Fr), topId < fr.length →
    (parkAllF fr topId e ts).length = fr.length
    ∧ ∀ k, frAt (parkAllF fr topId e ts) k
        = { frAt fr k with afterFl := (frAt fr k).afterFl ++ (ts.filter (fun t => topId - t = k)).map (fun _ => e) } := by
  intro ts
  induction ts with
  | nil => intro fr _; exact ⟨rfl, fun k => by simp [parkAllF]⟩
  | cons d ts ih =>
    intro fr hl
    have hk : topId - d < fr.length := by omega
    have hl' : topId < (parkFr fr (topId - d) e).length := by rw [parkFr_length]; exact hl
    obtain ⟨a1, a2⟩ := ih (parkFr fr (topId - d) e) hl'
    refine ⟨a1.trans (parkFr_length _ _ _), fun k => ?_⟩
    show frAt (parkAllF (parkFr fr (topId - d) e) topId e ts) k = _
    rw [a2 k, frAt_parkFr _ _ _ _ hk]
    by_cases hkk : k = topId - d
    · subst hkk; simp [List.filter_cons]
    · have : ¬ (topId - d = k) := fun h => hkk h.symm
      simp [hkk, List.filter_cons, this]

theorem frAt_parkFrom (body : List Instr) : ∀ (fr : List Fr) (d k : Nat), k < fr.length →
    frAt (parkFrom body d fr) k
      = { frAt fr k with afterFl := (frAt fr k).afterFl ++ (pendingL (d + (fr.length - 1 - k)) body).map conv } := by
  intro fr
  induction fr with
  | nil => intro d k hk; simp at hk
  | cons f fr ih =>
    intro d k hk
    simp only [parkFrom]
    rw [frAt_push, parkFrom_length, frAt_push]
    by_cases hkk : k = fr.length
    · subst hkk; simp
    · have hk' : k < fr.length := by simp only [List.length_cons] at hk; omega
      simp only [hkk, if_false]
      rw [ih (d + 1) k hk']
      have : d + 1 + (fr.length - 1 - k) = d + ((f :: fr).length - 1 - k) := by simp only [List.length_cons]; omega
      rw [this]


mutual
/-- the structural scope on which tree lowering and code agree: at most two flag-guarded bodies behind one `end`, no flagged branch
    targeting a loop, semantic-after probes on branches are non-empty, an `if` without `else` has no else-arm data -/
def okI : Instr → Bool
  | .block _ _ _ _ body => decide ((pendingL 0 body).length ≤ 2) && okL body
  | .loop _ _ _ body => (pendingL 0 body).isEmpty && okL body
  | .ite _ _ annE _ _ t e hasElse =>
    decide ((pendingL 0 t ++ pendingL 0 e).length ≤ 2) && okL t && okL e && (hasElse || (e.isEmpty && annE == {}))
  | .br _ _ (some s) _ | .brIf _ _ (some s) _ | .brTable _ _ (some s) _ _ => !s.ps.isEmpty
  | _ => true
def okL : List Instr → Bool
  | [] => true
  | i :: is => okI i && okL is
end

mutual
/-- every branch stays inside the `avail` constructs (function body included) that are open around the fragment -/
def depthOkI (avail : Nat) : Instr → Bool
  | .br _ _ _ n | .brIf _ _ _ n => decide (n < avail)
  | .brTable _ _ _ ts d => ts.all (fun t => decide (t < avail)) && decide (d < avail)
  | .block _ _ _ _ body | .loop _ _ _ body => depthOkL (avail + 1) body
  | .ite _ _ _ _ _ t e _ => depthOkL (avail + 1) t && depthOkL (avail + 1) e
  | _ => true
def depthOkL (avail : Nat) : List Instr → Bool
  | [] => true
  | i :: is => depthOkI avail i && depthOkL avail is
end

theorem parkFrom_noPending (body : List Instr) (h : ∀ d, pendingL d body = []) : ∀ (d : Nat) (fr : List Fr), parkFrom body d fr = fr
  | _, [] => rfl
  | d, f :: fr => by simp [parkFrom, h d, parkFrom_noPending body h (d + 1) fr]

theorem parkFrom_congr (a b : List Instr) (h : ∀ d, pendingL d a = pendingL d b) : ∀ (d : Nat) (fr : List Fr), parkFrom a d fr = parkFrom b d fr
  | _, [] => rfl
  | d, f :: fr => by simp [parkFrom, h d, parkFrom_congr a b h (d + 1) fr]

theorem parkFrom_shift (a b : List Instr) (h : ∀ d, pendingL d a = pendingL (d + 1) b) : ∀ (d : Nat) (fr : List Fr),
    parkFrom a d fr = parkFrom b (d + 1) fr
  | _, [] => rfl
  | d, f :: fr => by simp [parkFrom, h d, parkFrom_shift a b h (d + 1) fr]

theorem range_split {a b : List Nat} {n : Nat} (h : a ++ b = List.range' n (a ++ b).length) :
    a = List.range' n a.length ∧ b = List.range' (n + a.length) b.length := by
  have : List.range' n (a ++ b).length = List.range' n a.length ++ List.range' (n + 1 * a.length) b.length := by
    rw [List.range'_append, List.length_append]
  rw [this] at h
  have := List.append_inj h (by simp)
  simpa using this

/-- the frames after one branch that carries a semantic-after probe, as the machine computes them, are the ones `parkFrom` describes -/
theorem park_branch (fr : List Fr) (s : SA) (targets : List Nat) (i : Instr) (hfr : fr ≠ [])
    (hp : ∀ d, pendingI d i = targets.filterMap (fun n => if n = d then some s else none))
    (hv : ∀ t ∈ targets, t < fr.length) :
    parkAllF fr (fr.length - 1) (P s.ps, s.flag) targets = parkFrom [i] 0 fr := by
  have hl : fr.length - 1 < fr.length := by
    have : 0 < fr.length := List.length_pos_iff.mpr hfr
    omega
  obtain ⟨l1, l2⟩ := frAt_parkAllF (fr.length - 1) (P s.ps, s.flag) targets fr hl
  apply frAt_ext
  · rw [l1, parkFrom_length]
  · intro k hk
    rw [l1] at hk
    rw [l2 k, frAt_parkFrom [i] fr 0 k hk]
    have : pendingL (0 + (fr.length - 1 - k)) [i] = targets.filterMap (fun n => if n = fr.length - 1 - k then some s else none) := by
      simp [pendingL, hp]
    rw [this]
    have hlist : ∀ (ts : List Nat), (∀ t ∈ ts, t < fr.length) →
        (ts.filter (fun t => fr.length - 1 - t = k)).map (fun _ => (P s.ps, s.flag))
          = (ts.filterMap (fun n => if n = fr.length - 1 - k then some s else none)).map conv := by
      intro ts
      induction ts with
      | nil => intro _; rfl
      | cons t ts ih =>
        intro hv'
        have ht : t < fr.length := hv' t (List.mem_cons_self ..)
        have ih' := ih (fun x hx => hv' x (List.mem_cons_of_mem _ hx))
        rw [List.filter_cons, List.filterMap_cons]
        by_cases h1 : fr.length - 1 - t = k
        · have h2 : t = fr.length - 1 - k := by omega
          have e1 : decide (fr.length - 1 - t = k) = true := by simp [h1]
          have e2 : (if t = fr.length - 1 - k then some s else none) = some s := by simp [h2]
          simp only [e1, e2, if_true, List.map_cons, ih']
          rfl
        · have h2 : ¬ t = fr.length - 1 - k := by omega
          have e1 : decide (fr.length - 1 - t = k) = false := by simp [h1]
          have e2 : (if t = fr.length - 1 - k then some s else none) = none := by simp [h2]
          simp only [e1, e2, Bool.false_eq_true, if_false, ih']
    rw [hlist targets hv]


/-- function-level code in front of an instruction that is neither the first nor the last one -/
theorem fnPre_mid (last : Nat) (X : List Tok) (idx : Nat) (i : Lower.Instr) (hl : idx < last) (hk : i.kind ≠ .exitLike) :
    fnPre last [] X idx i = [] := by
  have : ¬ idx = last := by omega
  simp [fnPre, hk, this]

theorem fnPre_exit (last : Nat) (X : List Tok) (idx : Nat) (i : Lower.Instr) (hk : i.kind = .exitLike) :
    fnPre last [] X idx i = X := by
  cases X <;> simp [fnPre, hk]

/-- the result of running a fragment: its tokens in front of what the rest of the run gives -/
def Pre (ts : List Tok) (r : Option (List Tok × Nat)) : Option (List Tok × Nat) := r.map (fun r => (ts ++ r.1, r.2))

theorem Pre_Pre (a b : List Tok) (r : Option (List Tok × Nat)) : Pre a (Pre b r) = Pre (a ++ b) r := by
  cases r <;> simp [Pre]

theorem Pre_nil (r : Option (List Tok × Nat)) : Pre [] r = r := by cases r <;> simp [Pre]

/-- a plain instruction (no special list, not a construct, not a flagged branch) -/
theorem run_plain (last : Nat) (X : List Tok) (idx : Nat) (fr : List Fr) (nl : Nat) (x : Lower.Instr) (rest : List Lower.Instr)
    (hfr : fr ≠ []) (hl : idx < last) (hs : specStepF fr none nl x = some (fr, none, nl, [], none, [])) :
    specRunF last [] X idx fr none nl (x :: rest)
      = Pre (x.before ++ fnPre last [] X idx x ++ [x.tok] ++ x.after) (specRunF last [] X (idx + 1) fr none nl rest) := by
  rw [runF_step last [] X idx fr none nl x rest fr none nl [] none [] hs hfr hl]
  cases specRunF last [] X (idx + 1) fr none nl rest <;> simp [Pre]


theorem toksL_cons (i : Instr) (is : List Instr) : toksL (i :: is) = toksI i ++ toksL is := by simp [SemTree.flattenL]


theorem P_ne_nil (ps : List Nat) (h : ps.isEmpty = false) : P ps ≠ [] := by
  cases ps with
  | nil => simp at h
  | cons p ps => simp [P, SemTree.probeToks]

/-- a branch with a semantic-after probe -/
theorem run_flagged (last : Nat) (X : List Tok) (idx : Nat) (fr : List Fr) (nl : Nat) (x : Lower.Instr) (rest : List Lower.Instr)
    (hfr : fr ≠ []) (hl : idx < last) (hk : x.kind.isBranching = true) (hsem : x.semAfter ≠ []) (hxa : x.alt = none) :
    specRunF last [] X idx fr none nl (x :: rest)
      = Pre (x.before ++ [tConst 1, tLocalSet nl] ++ [x.tok] ++ x.after ++ [tConst 0, tLocalSet nl]
              ++ (match x.kind with | .brIf _ => x.semAfter | _ => []))
          (specRunF last [] X (idx + 1) (parkAllF fr (fr.length - 1) (x.semAfter, nl) (branchTargets x.kind)) none (nl + 1) rest) := by
  have hfb : flaggedBranch x = true := by
    simp only [flaggedBranch, hk, Bool.true_and, Bool.not_eq_true', List.isEmpty_eq_false_iff]
    exact hsem
  have hfe : fr.isEmpty = false := by cases fr with | nil => exact absurd rfl hfr | cons _ _ => rfl
  have hs : specStepF fr none nl x = some (parkAllF fr (fr.length - 1) (x.semAfter, nl) (branchTargets x.kind), none, nl + 1,
      [tConst 1, tLocalSet nl], none, [tConst 0, tLocalSet nl] ++ (match x.kind with | .brIf _ => x.semAfter | _ => [])) := by
    simp only [specStepF, hfb, hfe, if_true, Bool.false_eq_true, if_false, hxa]
    cases x.kind <;> rfl
  have hne : parkAllF fr (fr.length - 1) (x.semAfter, nl) (branchTargets x.kind) ≠ [] := by
    have hlen := (Lower.parkAllF_spec (fr.length - 1) (x.semAfter, nl) (branchTargets x.kind) fr
      (by have : 0 < fr.length := List.length_pos_iff.mpr hfr; omega)).1
    intro e; rw [e] at hlen
    have : 0 < fr.length := List.length_pos_iff.mpr hfr
    simp at hlen; omega
  rw [runF_step last [] X idx fr none nl x rest _ none (nl + 1) _ none _ hs hne hl]
  have hnx : x.kind ≠ .exitLike := by
    intro e; rw [e] at hk; simp [Kind.isBranching] at hk
  rw [fnPre_mid last X idx x hl hnx]
  cases specRunF last [] X (idx + 1) (parkAllF fr (fr.length - 1) (x.semAfter, nl) (branchTargets x.kind)) none (nl + 1) rest <;>
    simp [Pre]


theorem run_open (last : Nat) (X : List Tok) (idx : Nat) (fr : List Fr) (nl : Nat) (x : Lower.Instr) (rest : List Lower.Instr)
    (hl : idx < last) (hk : x.kind = .block ∨ x.kind = .loop) (hba : x.blockAlt = none) (hxa : x.alt = none) :
    specRunF last [] X idx fr none nl (x :: rest)
      = Pre (x.before ++ [x.tok] ++ x.after ++ x.blockEntry)
          (specRunF last [] X (idx + 1) ({ exitB := x.blockExit, afterA := x.semAfter } :: fr) none nl rest) := by
  have hs : specStepF fr none nl x = some ({ exitB := x.blockExit, afterA := x.semAfter } :: fr, none, nl, [], none, x.blockEntry) := by
    rcases hk with h | h <;> simp [specStepF, flaggedBranch, specStepA, h, hba, hxa, Kind.isBranching]
  rw [runF_step last [] X idx fr none nl x rest _ none nl _ none _ hs (by simp) hl]
  have hnx : x.kind ≠ .exitLike := by rcases hk with h | h <;> simp [h]
  rw [fnPre_mid last X idx x hl hnx]
  cases specRunF last [] X (idx + 1) ({ exitB := x.blockExit, afterA := x.semAfter } :: fr) none nl rest <;> simp [Pre]

theorem run_open_if (last : Nat) (X : List Tok) (idx : Nat) (fr : List Fr) (nl : Nat) (x : Lower.Instr) (rest : List Lower.Instr)
    (hl : idx < last) (hk : x.kind = .if_) (hba : x.blockAlt = none) (hxa : x.alt = none) :
    specRunF last [] X idx fr none nl (x :: rest)
      = Pre (x.before ++ [x.tok] ++ x.after ++ x.blockEntry)
          (specRunF last [] X (idx + 1) ({ ifExit := x.blockExit, afterA := x.semAfter } :: fr) none nl rest) := by
  have hs : specStepF fr none nl x = some ({ ifExit := x.blockExit, afterA := x.semAfter } :: fr, none, nl, [], none, x.blockEntry) := by
    simp [specStepF, flaggedBranch, specStepA, hk, hba, hxa, Kind.isBranching]
  rw [runF_step last [] X idx fr none nl x rest _ none nl _ none _ hs (by simp) hl]
  rw [fnPre_mid last X idx x hl (by simp [hk])]
  cases specRunF last [] X (idx + 1) ({ ifExit := x.blockExit, afterA := x.semAfter } :: fr) none nl rest <;> simp [Pre]

theorem run_else (last : Nat) (X : List Tok) (idx : Nat) (top below : Fr) (fr : List Fr) (nl : Nat) (x : Lower.Instr)
    (rest : List Lower.Instr) (hl : idx < last) (hk : x.kind = .else_) (hba : x.blockAlt = none) (hxa : x.alt = none) :
    specRunF last [] X idx (top :: below :: fr) none nl (x :: rest)
      = Pre (x.before ++ top.ifExit ++ [x.tok] ++ x.after ++ x.blockEntry)
          (specRunF last [] X (idx + 1)
            ({ top with ifExit := [], exitB := top.exitB ++ x.blockExit, afterA := top.afterA ++ x.semAfter } :: below :: fr) none nl rest) := by
  have hs : specStepF (top :: below :: fr) none nl x
      = some ({ top with ifExit := [], exitB := top.exitB ++ x.blockExit, afterA := top.afterA ++ x.semAfter } :: below :: fr, none, nl,
          top.ifExit, none, x.blockEntry) := by
    simp [specStepF, flaggedBranch, specStepA, hk, hba, hxa, Kind.isBranching]
  rw [runF_step last [] X idx _ none nl x rest _ none nl _ none _ hs (by simp) hl]
  rw [fnPre_mid last X idx x hl (by simp [hk])]
  cases specRunF last [] X (idx + 1)
    ({ top with ifExit := [], exitB := top.exitB ++ x.blockExit, afterA := top.afterA ++ x.semAfter } :: below :: fr) none nl rest <;>
    simp [Pre]

theorem run_end (last : Nat) (X : List Tok) (idx : Nat) (top : Fr) (fr : List Fr) (nl : Nat) (x : Lower.Instr)
    (rest : List Lower.Instr) (hfr : fr ≠ []) (hl : idx < last) (hk : x.kind = .end_) (hxa : x.alt = none) :
    specRunF last [] X idx (top :: fr) none nl (x :: rest)
      = Pre (x.before ++ top.ifExit ++ top.exitB ++ [x.tok] ++ x.after ++ endAfter top)
          (specRunF last [] X (idx + 1) fr none nl rest) := by
  have hs : specStepF (top :: fr) none nl x = some (fr, none, nl, top.ifExit ++ top.exitB, none, endAfter top) := by
    simp [specStepF, flaggedBranch, specStepA, hk, hxa, Kind.isBranching]
  rw [runF_step last [] X idx _ none nl x rest _ none nl _ none _ hs hfr hl]
  rw [fnPre_mid last X idx x hl (by simp [hk])]
  cases specRunF last [] X (idx + 1) fr none nl rest <;> simp [Pre]

theorem parkFrom_cons (body : List Instr) (d : Nat) (f : Fr) (fr : List Fr) :
    parkFrom body d (f :: fr) = { f with afterFl := f.afterFl ++ (pendingL d body).map conv } :: parkFrom body (d + 1) fr := rfl

theorem pendingL_single (d : Nat) (i : Instr) : pendingL d [i] = pendingI d i := by simp [pendingL]

mutual
theorem run_flatI (last : Nat) (X : List Tok) (fx : List Nat) (hX : X = P fx) :
    ∀ (i : Instr) (idx : Nat) (fr : List Fr) (nl : Nat) (rest : List Lower.Instr),
      okI i = true → depthOkI fr.length i = true → flagsI i = List.range' nl (flagsI i).length → fr ≠ [] →
      idx + (flatI i).length ≤ last →
      specRunF last [] X idx fr none nl (flatI i ++ rest)
        = Pre (toksL (Sem.lower fx i))
            (specRunF last [] X (idx + (flatI i).length) (parkFrom [i] 0 fr) none (nl + (flagsI i).length) rest)
  | .op b a k, idx, fr, nl, rest, _, _, _, hfr, hl => by
    simp only [flatI, List.length_singleton, List.singleton_append] at hl ⊢
    rw [run_plain last X idx fr nl _ rest hfr (by omega) (by simp [specStepF, flaggedBranch, specStepA, mk, Kind.isBranching])]
    rw [fnPre_mid last X idx _ (by omega) (by simp [mk])]
    rw [parkFrom_noPending _ (fun d => by simp [pendingL, pendingI])]
    simp [Sem.lower, toksL_append, toksL_cons, SemTree.flattenL, SemTree.flattenI, toksL_probes, P_nil, mk, flagsI, tokOf, brTok, brIfTok, brTableTok]
  | .probe id, idx, fr, nl, rest, _, _, _, hfr, hl => by
    simp only [flatI, List.length_cons, List.length_nil, List.cons_append, List.nil_append] at hl ⊢
    rw [run_plain last X idx fr nl _ _ hfr (by omega) (by simp [specStepF, flaggedBranch, specStepA, mk, Kind.isBranching])]
    rw [run_plain last X (idx + 1) fr nl _ _ hfr (by omega) (by simp [specStepF, flaggedBranch, specStepA, mk, Kind.isBranching])]
    rw [fnPre_mid last X idx _ (by omega) (by simp [mk]), fnPre_mid last X (idx + 1) _ (by omega) (by simp [mk])]
    rw [parkFrom_noPending _ (fun d => by simp [pendingL, pendingI]), Pre_Pre]
    simp [Sem.lower, SemTree.flattenL, SemTree.flattenI, mk, flagsI, SemTree.probeToks, tConst, SemTree.logFn, Nat.add_assoc]
  | .ret b a, idx, fr, nl, rest, _, _, _, hfr, hl => by
    simp only [flatI, List.length_singleton, List.singleton_append] at hl ⊢
    rw [run_plain last X idx fr nl _ rest hfr (by omega) (by simp [specStepF, flaggedBranch, specStepA, mk, Kind.isBranching])]
    rw [fnPre_exit last X idx _ (by simp [mk])]
    rw [parkFrom_noPending _ (fun d => by simp [pendingL, pendingI])]
    simp [Sem.lower, toksL_append, toksL_cons, SemTree.flattenL, SemTree.flattenI, toksL_probes, P_nil, mk, flagsI, hX, tokOf]
  | .unreachable b a, idx, fr, nl, rest, _, _, _, hfr, hl => by
    simp only [flatI, List.length_singleton, List.singleton_append] at hl ⊢
    rw [run_plain last X idx fr nl _ rest hfr (by omega) (by simp [specStepF, flaggedBranch, specStepA, mk, Kind.isBranching])]
    rw [fnPre_exit last X idx _ (by simp [mk])]
    rw [parkFrom_noPending _ (fun d => by simp [pendingL, pendingI])]
    simp [Sem.lower, toksL_append, toksL_cons, SemTree.flattenL, SemTree.flattenI, toksL_probes, P_nil, mk, flagsI, hX, tokOf]
  | .br b a none n, idx, fr, nl, rest, _, _, _, hfr, hl => by
    simp only [flatI, List.length_singleton, List.singleton_append] at hl ⊢
    rw [run_plain last X idx fr nl _ rest hfr (by omega)
      (by simp [specStepF, flaggedBranch, specStepA, mk, Kind.isBranching, saToks])]
    rw [fnPre_mid last X idx _ (by omega) (by simp [mk])]
    rw [parkFrom_noPending _ (fun d => by simp [pendingL, pendingI])]
    simp [Sem.lower, toksL_append, toksL_cons, SemTree.flattenL, SemTree.flattenI, toksL_probes, P_nil, mk, flagsI, tokOf, brTok, brIfTok, brTableTok]
  | .brIf b a none n, idx, fr, nl, rest, _, _, _, hfr, hl => by
    simp only [flatI, List.length_singleton, List.singleton_append] at hl ⊢
    rw [run_plain last X idx fr nl _ rest hfr (by omega)
      (by simp [specStepF, flaggedBranch, specStepA, mk, Kind.isBranching, saToks])]
    rw [fnPre_mid last X idx _ (by omega) (by simp [mk])]
    rw [parkFrom_noPending _ (fun d => by simp [pendingL, pendingI])]
    simp [Sem.lower, toksL_append, toksL_cons, SemTree.flattenL, SemTree.flattenI, toksL_probes, P_nil, mk, flagsI, tokOf, brTok, brIfTok, brTableTok]
  | .brTable b a none ts d, idx, fr, nl, rest, _, _, _, hfr, hl => by
    simp only [flatI, List.length_singleton, List.singleton_append] at hl ⊢
    rw [run_plain last X idx fr nl _ rest hfr (by omega)
      (by simp [specStepF, flaggedBranch, specStepA, mk, Kind.isBranching, saToks])]
    rw [fnPre_mid last X idx _ (by omega) (by simp [mk])]
    rw [parkFrom_noPending _ (fun d => by simp [pendingL, pendingI])]
    simp [Sem.lower, toksL_append, toksL_cons, SemTree.flattenL, SemTree.flattenI, toksL_probes, P_nil, mk, flagsI, tokOf, brTok, brIfTok, brTableTok]
  | .br b a (some s) n, idx, fr, nl, rest, hok, hd, hnum, hfr, hl => by
    simp only [flatI, List.length_singleton, List.singleton_append] at hl ⊢
    simp only [okI, Bool.not_eq_true'] at hok
    simp only [depthOkI, decide_eq_true_eq] at hd
    have hflag : s.flag = nl := by simpa [flagsI] using hnum
    rw [run_flagged last X idx fr nl _ rest hfr (by omega) (by simp [mk, Kind.isBranching]) (by simpa [mk, saToks] using P_ne_nil s.ps hok) (by simp [mk])]
    have hp := park_branch fr s [n] (.br b a (some s) n) hfr (fun d => by by_cases h : n = d <;> simp [pendingI, h]) (by simpa using hd)
    simp only [mk, saToks, branchTargets, hflag] at hp ⊢
    rw [← hflag] at hp ⊢
    rw [hp]
    simp [Sem.lower, toksL_append, toksL_cons, SemTree.flattenL, SemTree.flattenI, toksL_probes, P_nil, flagsI, setFlag, tokOf, showOp_const0, showOp_const1, showOp_localSet, showOp_localGet, brTok, brIfTok, brTableTok]
  | .brIf b a (some s) n, idx, fr, nl, rest, hok, hd, hnum, hfr, hl => by
    simp only [flatI, List.length_singleton, List.singleton_append] at hl ⊢
    simp only [okI, Bool.not_eq_true'] at hok
    simp only [depthOkI, decide_eq_true_eq] at hd
    have hflag : s.flag = nl := by simpa [flagsI] using hnum
    rw [run_flagged last X idx fr nl _ rest hfr (by omega) (by simp [mk, Kind.isBranching]) (by simpa [mk, saToks] using P_ne_nil s.ps hok) (by simp [mk])]
    have hp := park_branch fr s [n] (.brIf b a (some s) n) hfr (fun d => by by_cases h : n = d <;> simp [pendingI, h]) (by simpa using hd)
    simp only [mk, saToks, branchTargets, hflag] at hp ⊢
    rw [← hflag] at hp ⊢
    rw [hp]
    simp [Sem.lower, toksL_append, toksL_cons, SemTree.flattenL, SemTree.flattenI, toksL_probes, P_nil, flagsI, setFlag, tokOf, showOp_const0, showOp_const1, showOp_localSet, showOp_localGet, brTok, brIfTok, brTableTok]
  | .brTable b a (some s) ts d, idx, fr, nl, rest, hok, hd, hnum, hfr, hl => by
    simp only [flatI, List.length_singleton, List.singleton_append] at hl ⊢
    simp only [okI, Bool.not_eq_true'] at hok
    simp only [depthOkI, Bool.and_eq_true, List.all_eq_true, decide_eq_true_eq] at hd
    have hflag : s.flag = nl := by simpa [flagsI] using hnum
    rw [run_flagged last X idx fr nl _ rest hfr (by omega) (by simp [mk, Kind.isBranching]) (by simpa [mk, saToks] using P_ne_nil s.ps hok) (by simp [mk])]
    have hp := park_branch fr s (ts ++ [d]) (.brTable b a (some s) ts d) hfr (fun d' => by simp [pendingI])
      (by intro t ht; rcases List.mem_append.mp ht with h | h
          · exact hd.1 t h
          · simp at h; rw [h]; exact hd.2)
    simp only [mk, saToks, branchTargets, hflag] at hp ⊢
    rw [← hflag] at hp ⊢
    rw [hp]
    simp [Sem.lower, toksL_append, toksL_cons, SemTree.flattenL, SemTree.flattenI, toksL_probes, P_nil, flagsI, setFlag, tokOf, showOp_const0, showOp_const1, showOp_localSet, showOp_localGet, brTok, brIfTok, brTableTok]
  | .block b ann ar tk body, idx, fr, nl, rest, hok, hd, hnum, hfr, hl => by
    simp only [okI, Bool.and_eq_true, decide_eq_true_eq] at hok
    simp only [depthOkI] at hd
    simp only [flagsI] at hnum ⊢
    simp only [flatI, List.length_cons, List.length_append, List.length_singleton, List.length_nil, List.cons_append, List.nil_append,
      List.append_assoc] at hl ⊢
    rw [run_open last X idx fr nl _ _ (by omega) (.inl (by simp [mk])) (by simp [mk]) (by simp [mk])]
    rw [run_flatL last X fx hX body (idx + 1) (_ :: fr) nl (mk tEnd .end_ :: rest) hok.2 (by simpa using hd) hnum (by simp) (by omega)]
    simp only [parkFrom, List.singleton_append]
    rw [run_end last X _ _ _ _ _ rest (parkFrom_ne_nil _ _ _ hfr) (by omega) (by simp [mk]) (by simp [mk])]
    rw [Pre_Pre, Pre_Pre]
    rw [← parkFrom_shift [.block b ann ar tk body] body (fun d => by simp [pendingL, pendingI]) 0 fr]
    have hi : idx + 1 + (flatL body).length + 1 = idx + ((flatL body).length + 1 + 1) := by omega
    rw [hi]
    congr 1
    simp [Sem.lower, toksL_append, toksL_cons, SemTree.flattenL, SemTree.flattenI, toksL_probes, P_nil, mk, tEnd, tElse, endAfter, toksL_flagChain _ hok.1]
  | .loop b ann tk body, idx, fr, nl, rest, hok, hd, hnum, hfr, hl => by
    simp only [okI, Bool.and_eq_true, List.isEmpty_iff] at hok
    simp only [depthOkI] at hd
    simp only [flagsI] at hnum ⊢
    simp only [flatI, List.length_cons, List.length_append, List.length_singleton, List.length_nil, List.cons_append, List.nil_append,
      List.append_assoc] at hl ⊢
    rw [run_open last X idx fr nl _ _ (by omega) (.inr (by simp [mk])) (by simp [mk]) (by simp [mk])]
    rw [run_flatL last X fx hX body (idx + 1) (_ :: fr) nl (mk tEnd .end_ :: rest) hok.2 (by simpa using hd) hnum (by simp) (by omega)]
    simp only [parkFrom, List.singleton_append]
    rw [run_end last X _ _ _ _ _ rest (parkFrom_ne_nil _ _ _ hfr) (by omega) (by simp [mk]) (by simp [mk])]
    rw [Pre_Pre, Pre_Pre]
    rw [← parkFrom_shift [.loop b ann tk body] body (fun d => by simp [pendingL, pendingI]) 0 fr]
    have hi : idx + 1 + (flatL body).length + 1 = idx + ((flatL body).length + 1 + 1) := by omega
    rw [hi]
    congr 1
    simp [Sem.lower, toksL_append, toksL_cons, SemTree.flattenL, SemTree.flattenI, toksL_probes, P_nil, mk, tEnd, tElse, endAfter, hok.1, Lower.chainToks_nil]
  | .ite b annT annE ar tk t e hasElse, idx, fr, nl, rest, hok, hd, hnum, hfr, hl => by
    simp only [okI, Bool.and_eq_true, decide_eq_true_eq, Bool.or_eq_true] at hok
    obtain ⟨⟨⟨hlen2, hokt⟩, hoke⟩, helse⟩ := hok
    simp only [depthOkI, Bool.and_eq_true] at hd
    simp only [flagsI] at hnum ⊢
    obtain ⟨n1, n2⟩ := range_split hnum
    have hshift : ∀ d, pendingL d [Instr.ite b annT annE ar tk t e hasElse] = pendingL (d + 1) (t ++ e) := by
      intro d; simp [pendingL, pendingI, pendingL_append]
    cases hasElse with
    | true =>
      simp only [flatI, if_true, List.length_cons, List.length_append, List.length_singleton, List.length_nil, List.cons_append,
        List.nil_append, List.append_assoc] at hl ⊢
      rw [run_open_if last X idx fr nl _ _ (by omega) (by simp [mk]) (by simp [mk]) (by simp [mk])]
      rw [run_flatL last X fx hX t (idx + 1) (_ :: fr) nl _ hokt (by simpa using hd.1) n1 (by simp) (by omega)]
      rw [parkFrom_cons]
      obtain ⟨below, r, hbr⟩ : ∃ below r, parkFrom t (0 + 1) fr = below :: r := by
        have := parkFrom_ne_nil t (0 + 1) fr hfr
        cases h : parkFrom t (0 + 1) fr with
        | nil => exact absurd h this
        | cons x xs => exact ⟨x, xs, rfl⟩
      have hlenbr : (below :: r).length = fr.length := by rw [← hbr, parkFrom_length]
      rw [hbr]
      rw [run_else last X _ _ below r _ _ _ (by omega) (by simp [mk]) (by simp [mk]) (by simp [mk])]
      rw [run_flatL last X fx hX e _ (_ :: below :: r) _ _ hoke
        (by simp only [List.length_cons] at hlenbr ⊢; rw [hlenbr]; exact hd.2) n2 (by simp) (by omega)]
      rw [parkFrom_cons]
      rw [run_end last X _ _ _ _ _ rest (parkFrom_ne_nil _ _ _ (by simp)) (by omega) (by simp [mk]) (by simp [mk])]
      rw [Pre_Pre, Pre_Pre, Pre_Pre, Pre_Pre]
      rw [← hbr, parkFrom_append t e (0 + 1) fr, ← parkFrom_shift _ (t ++ e) hshift 0 fr]
      have hi : idx + 1 + (flatL t).length + 1 + (flatL e).length + 1 = idx + ((flatL t).length + ((flatL e).length + 1 + 1) + 1) := by omega
      rw [hi]
      have hn : nl + (flagsL t).length + (flagsL e).length = nl + (flagsL t ++ flagsL e).length := by simp [Nat.add_assoc]
      rw [hn]
      congr 1
      · have hch := toksL_flagChain _ hlen2
        rw [List.map_append] at hch
        simp [Sem.lower, toksL_append, toksL_cons, SemTree.flattenL, SemTree.flattenI, toksL_probes, P_nil, P_append, mk, tEnd, tElse, endAfter, hch]
      · simp [Nat.add_assoc]
    | false =>
      simp only [Bool.false_eq_true, false_or, Bool.and_eq_true, List.isEmpty_iff, beq_iff_eq] at helse
      obtain ⟨he, hann⟩ := helse
      subst he hann
      simp only [flatI, Bool.false_eq_true, if_false, List.length_cons, List.length_append, List.length_singleton, List.length_nil,
        List.cons_append, List.nil_append, List.append_assoc, List.append_nil] at hl ⊢
      rw [run_open_if last X idx fr nl _ _ (by omega) (by simp [mk]) (by simp [mk]) (by simp [mk])]
      rw [run_flatL last X fx hX t (idx + 1) (_ :: fr) nl _ hokt (by simpa using hd.1) n1 (by simp) (by omega)]
      rw [parkFrom_cons]
      rw [run_end last X _ _ _ _ _ rest (parkFrom_ne_nil _ _ _ hfr) (by omega) (by simp [mk]) (by simp [mk])]
      rw [Pre_Pre, Pre_Pre]
      have hshift' : ∀ d, pendingL d [Instr.ite b annT {} ar tk t [] false] = pendingL (d + 1) t := by
        intro d; simp [pendingL, pendingI]
      rw [← parkFrom_shift _ t hshift' 0 fr]
      have hi : idx + 1 + (flatL t).length + 1 = idx + ((flatL t).length + 1 + 1) := by omega
      rw [hi]
      have hn : nl + (flagsL t).length = nl + (flagsL t ++ flagsL []).length := by simp [flagsL]
      rw [hn]
      congr 1
      · have hlen2' : (pendingL 0 t).length ≤ 2 := by simpa [pendingL] using hlen2
        have hch := toksL_flagChain _ hlen2'
        simp [Sem.lower, Sem.lowerL, toksL_append, toksL_cons, SemTree.flattenL, SemTree.flattenI, toksL_probes, P_nil, mk, tEnd, tElse, endAfter, pendingL, hch]
      · simp [Nat.add_assoc, flagsL]
theorem run_flatL (last : Nat) (X : List Tok) (fx : List Nat) (hX : X = P fx) :
    ∀ (is : List Instr) (idx : Nat) (fr : List Fr) (nl : Nat) (rest : List Lower.Instr),
      okL is = true → depthOkL fr.length is = true → flagsL is = List.range' nl (flagsL is).length → fr ≠ [] →
      idx + (flatL is).length ≤ last →
      specRunF last [] X idx fr none nl (flatL is ++ rest)
        = Pre (toksL (Sem.lowerL fx is))
            (specRunF last [] X (idx + (flatL is).length) (parkFrom is 0 fr) none (nl + (flagsL is).length) rest)
  | [], idx, fr, nl, rest, _, _, _, _, _ => by
    simp [flatL, Sem.lowerL, SemTree.flattenL, parkFrom_nil_body, flagsL, Pre_nil]
  | i :: is, idx, fr, nl, rest, hok, hd, hnum, hfr, hl => by
    simp only [okL, Bool.and_eq_true] at hok
    simp only [depthOkL, Bool.and_eq_true] at hd
    simp only [flagsL] at hnum
    obtain ⟨n1, n2⟩ := range_split hnum
    simp only [flatL, List.length_append, List.append_assoc] at hl ⊢
    rw [run_flatI last X fx hX i idx fr nl (flatL is ++ rest) hok.1 hd.1 n1 hfr (by omega)]
    rw [run_flatL last X fx hX is (idx + (flatI i).length) (parkFrom [i] 0 fr) (nl + (flagsI i).length) rest hok.2
      (by rw [parkFrom_length]; exact hd.2) n2 (parkFrom_ne_nil _ _ _ hfr) (by omega)]
    rw [Pre_Pre, parkFrom_append [i] is 0 fr]
    simp [Sem.lowerL, toksL_append, flagsL, Nat.add_assoc]
end


/-! ### functions -/

/-- the function's final `end`, with its `before` probes -/
def endInstr (F : Sem.Func) : Lower.Instr := { mk tEnd .end_ with before := P F.endBefore }

/-- a structured function as the flat function the API would have built -/
def flatF (F : Sem.Func) (nl : Nat) : Lower.Func :=
  { body := flatL F.body ++ [endInstr F], entry := P F.entry, exit := P F.exit, hasSpecial := true, nlocals := nl }

/-- entry code in front of instruction 0 stands behind that instruction's own `before` code; when there is none it simply comes first -/
theorem runF_entry (last : Nat) (E X : List Tok) (fr : List Fr) (del : Option Del) (nl : Nat) (i : Lower.Instr) (is : List Lower.Instr)
    (hb : i.before = []) :
    specRunF last E X 0 fr del nl (i :: is) = Pre E (specRunF last [] X 0 fr del nl (i :: is)) := by
  have hp : fnPre last E X 0 i = E ++ fnPre last [] X 0 i := by simp [fnPre]
  simp only [specRunF, hp, hb, List.nil_append]
  cases specStepF fr del nl i with
  | none => rfl
  | some r =>
    obtain ⟨fr', del', nl', b, alt, a⟩ := r
    simp only []
    split
    · rfl
    · rw [runF_E_irrelevant last E X is 1 fr' del' nl' (by omega)]
      cases specRunF last [] X (0 + 1) fr' del' nl' is with
      | none => rfl
      | some r => simp [Pre, List.append_assoc]

theorem pendingL_frame_fields (body : List Instr) : ∀ (d : Nat) (fr : List Fr) (f : Fr), f ∈ parkFrom body d fr →
    ∃ g ∈ fr, f.ifExit = g.ifExit ∧ f.exitB = g.exitB ∧ f.afterA = g.afterA
  | _, [], f, h => by simp [parkFrom] at h
  | d, g :: fr, f, h => by
    simp only [parkFrom, List.mem_cons] at h
    rcases h with rfl | h
    · exact ⟨g, List.mem_cons_self .., rfl, rfl, rfl⟩
    · obtain ⟨g', hg', e⟩ := pendingL_frame_fields body (d + 1) fr f h
      exact ⟨g', List.mem_cons_of_mem _ hg', e⟩

/-- **The machine run over a flattened structured function gives the tokens of the tree-lowered function.** -/
theorem run_flatF (F : Sem.Func) (nl : Nat) (hok : okL F.body = true) (hd : depthOkL 1 F.body = true)
    (hnum : flagsL F.body = List.range' nl (flagsL F.body).length)
    (hfirst : (F.entry = [] ∧ F.exit = []) ∨ ((flatF F nl).body.head?.map (·.before)) = some []) :
    specRunF ((flatF F nl).body.length - 1) (Lower.entryToks (flatF F nl)) (flatF F nl).exit 0 [{}] none nl (flatF F nl).body
      = some (toksL (Sem.lowerF F).body ++ [tEnd], nl + (flagsL F.body).length) := by
  have hlast : (flatF F nl).body.length - 1 = (flatL F.body).length := by simp [flatF]
  rw [hlast]
  -- the body and the final `end`, without entry code
  have hcore : specRunF (flatL F.body).length [] (P F.exit) 0 [{}] none nl (flatL F.body ++ [endInstr F])
      = some (toksL (Sem.lowerL F.exit F.body) ++ (P F.endBefore ++ (if (P F.exit).isEmpty then [] else tEnd :: P F.exit) ++ [tEnd]),
              nl + (flagsL F.body).length) := by
    rw [run_flatL (flatL F.body).length (P F.exit) F.exit rfl F.body 0 [{}] nl [endInstr F] hok (by simpa using hd) hnum (by simp)
      (by omega)]
    -- the final `end` closes the function body's own frame
    obtain ⟨top, htop⟩ : ∃ top, parkFrom F.body 0 [({} : Fr)] = [top] := ⟨_, rfl⟩
    have hfields : top.ifExit = [] ∧ top.exitB = [] := by
      obtain ⟨g, hg, e1, e2, _⟩ := pendingL_frame_fields F.body 0 [{}] top (by rw [htop]; exact List.mem_singleton_self _)
      simp only [List.mem_singleton] at hg
      subst hg
      exact ⟨e1, e2⟩
    rw [htop]
    have hs : specStepF [top] none (nl + (flagsL F.body).length) (endInstr F)
        = some ([], none, nl + (flagsL F.body).length, top.ifExit ++ top.exitB, none, endAfter top) := by
      simp [specStepF, flaggedBranch, specStepA, endInstr, mk, Kind.isBranching]
    simp only [Nat.zero_add, specRunF, hs, List.isEmpty_nil, Bool.not_true, Bool.and_false, Bool.false_eq_true, if_false, if_true,
      ge_iff_le, Nat.le_refl, hfields.1, hfields.2, Pre, Option.map_some, List.append_nil]
    simp [fnPre, endInstr, mk]
  -- entry code
  have hE : Lower.entryToks (flatF F nl) = if (P F.exit).isEmpty then P F.entry else P F.entry ++ [tWrapper] := by
    simp [Lower.entryToks, flatF]
  have hx : (flatF F nl).exit = P F.exit := rfl
  have hbody : (flatF F nl).body = flatL F.body ++ [endInstr F] := rfl
  rw [hx, hbody, hE]
  have hPe : ∀ ps : List Nat, (P ps).isEmpty = ps.isEmpty := by
    intro ps; cases ps <;> simp [P, SemTree.probeToks]
  have hgoal : ∀ E : List Tok, E = (if (P F.exit).isEmpty then P F.entry else P F.entry ++ [tWrapper]) →
      specRunF (flatL F.body).length E (P F.exit) 0 [{}] none nl (flatL F.body ++ [endInstr F])
        = Pre E (specRunF (flatL F.body).length [] (P F.exit) 0 [{}] none nl (flatL F.body ++ [endInstr F])) := by
    intro E hEq
    rcases hfirst with ⟨h1, h2⟩ | h
    · have : E = [] := by rw [hEq, h1, h2]; simp [P, SemTree.probeToks]
      subst this
      rw [Pre_nil]
    · rw [hbody] at h
      cases hxs : flatL F.body ++ [endInstr F] with
      | nil => simp at hxs
      | cons i is =>
        rw [hxs] at h
        simp only [List.head?_cons, Option.map_some, Option.some.injEq] at h
        exact runF_entry _ E _ _ _ _ i is h
  rw [hgoal _ rfl, hcore]
  simp only [Pre, Option.map_some, Option.some.injEq, Prod.mk.injEq, and_true]
  unfold Sem.lowerF
  rw [hPe]
  cases hex : F.exit.isEmpty with
  | true =>
    have : F.exit = [] := List.isEmpty_iff.mp hex
    simp [this, toksL_append, toksL_probes, P_nil]
  | false =>
    simp [toksL_append, toksL_cons, toksL_probes, SemTree.flattenI, SemTree.flattenL, P_nil, tWrapper, tEnd]


open Orca.Lower (PlainF)

theorem plainF_of (x : Lower.Instr) (_h1 : x.alt = none) (h2 : x.blockAlt = none)
    (h3 : x.kind.isBlockStyle = false → x.blockEntry = [] ∧ x.blockExit = [])
    (h4 : x.kind.isBlockStyle = false → x.kind.isBranching = false → x.semAfter = []) : PlainF x :=
  ⟨fun h => (by rw [h2] at h; cases h), h3, h4⟩

mutual
/-- every flattened instruction is in the scope of the complete machine -/
theorem flatI_plainF : ∀ (i : Instr) (x : Lower.Instr), x ∈ flatI i → PlainF x
  | .op b a k, x, h => by
    simp only [flatI, List.mem_singleton] at h; subst h
    exact plainF_of _ rfl rfl (fun _ => ⟨rfl, rfl⟩) (fun _ _ => rfl)
  | .probe id, x, h => by
    simp only [flatI, List.mem_cons, List.mem_singleton, List.not_mem_nil, or_false] at h
    rcases h with rfl | rfl <;> exact plainF_of _ rfl rfl (fun _ => ⟨rfl, rfl⟩) (fun _ _ => rfl)
  | .block b ann ar tk body, x, h => by
    simp only [flatI, List.mem_cons, List.mem_append, List.mem_singleton, List.not_mem_nil, or_false] at h
    rcases h with rfl | h | rfl
    · exact plainF_of _ rfl rfl (fun hb => by simp [mk, Kind.isBlockStyle] at hb) (fun hb => by simp [mk, Kind.isBlockStyle] at hb)
    · exact flatL_plainF body x h
    · exact plainF_of _ rfl rfl (fun _ => ⟨rfl, rfl⟩) (fun _ _ => rfl)
  | .loop b ann tk body, x, h => by
    simp only [flatI, List.mem_cons, List.mem_append, List.mem_singleton, List.not_mem_nil, or_false] at h
    rcases h with rfl | h | rfl
    · exact plainF_of _ rfl rfl (fun hb => by simp [mk, Kind.isBlockStyle] at hb) (fun hb => by simp [mk, Kind.isBlockStyle] at hb)
    · exact flatL_plainF body x h
    · exact plainF_of _ rfl rfl (fun _ => ⟨rfl, rfl⟩) (fun _ _ => rfl)
  | .ite b annT annE ar tk t e hasElse, x, h => by
    simp only [flatI, List.mem_cons, List.mem_append, List.mem_singleton, List.not_mem_nil, or_false] at h
    rcases h with rfl | (h | h) | rfl
    · exact plainF_of _ rfl rfl (fun hb => by simp [mk, Kind.isBlockStyle] at hb) (fun hb => by simp [mk, Kind.isBlockStyle] at hb)
    · exact flatL_plainF t x h
    · cases hasElse with
      | false => simp at h
      | true =>
        simp only [if_true, List.mem_cons] at h
        rcases h with rfl | h
        · exact plainF_of _ rfl rfl (fun hb => by simp [mk, Kind.isBlockStyle] at hb) (fun hb => by simp [mk, Kind.isBlockStyle] at hb)
        · exact flatL_plainF e x h
    · exact plainF_of _ rfl rfl (fun _ => ⟨rfl, rfl⟩) (fun _ _ => rfl)
  | .br b a sa n, x, h => by
    simp only [flatI, List.mem_singleton] at h; subst h
    exact plainF_of _ rfl rfl (fun _ => ⟨rfl, rfl⟩) (fun _ hbr => by simp [mk, Kind.isBranching] at hbr)
  | .brIf b a sa n, x, h => by
    simp only [flatI, List.mem_singleton] at h; subst h
    exact plainF_of _ rfl rfl (fun _ => ⟨rfl, rfl⟩) (fun _ hbr => by simp [mk, Kind.isBranching] at hbr)
  | .brTable b a sa ts d, x, h => by
    simp only [flatI, List.mem_singleton] at h; subst h
    exact plainF_of _ rfl rfl (fun _ => ⟨rfl, rfl⟩) (fun _ hbr => by simp [mk, Kind.isBranching] at hbr)
  | .ret b a, x, h => by
    simp only [flatI, List.mem_singleton] at h; subst h
    exact plainF_of _ rfl rfl (fun _ => ⟨rfl, rfl⟩) (fun _ _ => rfl)
  | .unreachable b a, x, h => by
    simp only [flatI, List.mem_singleton] at h; subst h
    exact plainF_of _ rfl rfl (fun _ => ⟨rfl, rfl⟩) (fun _ _ => rfl)
theorem flatL_plainF : ∀ (is : List Instr) (x : Lower.Instr), x ∈ flatL is → PlainF x
  | [], x, h => by simp [flatL] at h
  | i :: is, x, h => by
    simp only [flatL, List.mem_append] at h
    rcases h with h | h
    · exact flatI_plainF i x h
    · exact flatL_plainF is x h
end

/-- **The code's lowering of a structured function is the tree model's lowering.** Take a structured function with its annotations (M4),
    flatten it to the instruction list with instrumentation lists the injection API would have built (`flatF`), and let M3 — the
    transcription of `resolve_special_instrumentation` and the emission loop — lower it: the tokens are those of the tree-lowered function
    `lowerF F` (followed by the function's final `end`), and the locals added are the flags of its annotated branches. On the scope
    `okL` (at most two guarded bodies per `end`, no flagged branch to a loop, non-empty branch probes, an `if` without `else` has no
    else-arm data), with branch depths inside the function, flags numbered in program order from the first free local, and no `before`
    code on the first instruction next to function-level code. The simulation theorems of C16–C20, which are about `lowerF`, thereby
    speak about what the code emits. -/
theorem code_lowering_is_tree_lowering (F : Sem.Func) (nl : Nat) (hok : okL F.body = true) (hd : depthOkL 1 F.body = true)
    (hnum : flagsL F.body = List.range' nl (flagsL F.body).length)
    (hfirst : (F.entry = [] ∧ F.exit = []) ∨ ((flatF F nl).body.head?.map (·.before)) = some []) :
    Lower.lower (flatF F nl) = (toksL (Sem.lowerF F).body ++ [tEnd], (flagsL F.body).length) := by
  have hp : ∀ x ∈ (flatF F nl).body, PlainF x := by
    intro x hx
    simp only [flatF, List.mem_append, List.mem_singleton] at hx
    rcases hx with hx | rfl
    · exact flatL_plainF F.body x hx
    · exact plainF_of _ rfl rfl (fun _ => ⟨rfl, rfl⟩) (fun _ _ => rfl)
  have := Lower.lower_eq_specF (flatF F nl) rfl hp _ _ (run_flatF F nl hok hd hnum hfirst)
  rw [this]
  simp [flatF]

/-- the same with the right-hand side written as the sem driver writes it: `flattenF (lowerF F)` is what the driver prints as the model's
    `out=` for a case inside the tree scope, `(lower f).1` what it prints outside — on the scope they are the same list -/
theorem code_lowering_is_flattened_tree_lowering (F : Sem.Func) (nl : Nat) (hok : okL F.body = true) (hd : depthOkL 1 F.body = true)
    (hnum : flagsL F.body = List.range' nl (flagsL F.body).length)
    (hfirst : (F.entry = [] ∧ F.exit = []) ∨ ((flatF F nl).body.head?.map (·.before)) = some []) :
    Lower.lower (flatF F nl) = (SemTree.flattenF (Sem.lowerF F), (flagsL F.body).length) :=
  code_lowering_is_tree_lowering F nl hok hd hnum hfirst

end Orca.Bridge
