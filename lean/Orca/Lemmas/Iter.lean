import Orca.Model.Iter

namespace Orca.Iter

/-! ### `handle_skips` -/

theorem visits_drop_skipCount (skip : List Nat) (l : List (Nat × Nat)) :
    visits skip (l.drop (skipCount skip l)) = visits skip l := by
  induction l with
  | nil => simp [skipCount]
  | cons p l ih =>
    by_cases h : skipped skip p.1 = true
    · simp [skipCount, h, visits, ih]
    · simp [skipCount, h]

/-- after the skip loop the list is exhausted or starts with a function that is not skipped -/
theorem head_drop_skipCount (skip : List Nat) (l : List (Nat × Nat)) :
    ∀ p, (l.drop (skipCount skip l)).head? = some p → skipped skip p.1 = false := by
  induction l with
  | nil => simp [skipCount]
  | cons q l ih =>
    intro p
    by_cases h : skipped skip q.1 = true
    · simp only [skipCount, h, if_true, List.drop_succ_cons]; exact ih p
    · simp only [skipCount, h, Bool.false_eq_true, if_false, List.drop_zero, List.head?_cons, Option.some.injEq]
      intro hq; subst hq; simpa using h

theorem any_unskipped_iff (skip : List Nat) (l : List (Nat × Nat)) :
    l.any (fun p => !skipped skip p.1) = true ↔ l.drop (skipCount skip l) ≠ [] := by
  induction l with
  | nil => simp [skipCount]
  | cons q l ih =>
    by_cases h : skipped skip q.1 = true
    · simp only [List.any_cons, h, Bool.not_true, Bool.false_or, skipCount, if_true, List.drop_succ_cons]
      exact ih
    · simp [skipCount, h]

theorem visits_nil_of_none_unskipped (skip : List Nat) (l : List (Nat × Nat))
    (h : l.any (fun p => !skipped skip p.1) = false) : visits skip l = [] := by
  induction l with
  | nil => rfl
  | cons q l ih =>
    simp only [List.any_cons, Bool.or_eq_false_iff, Bool.not_eq_false'] at h
    simp [visits, h.1, ih h.2]

theorem drop_handleSkips (md : List (Nat × Nat)) (skip : List Nat) (i : Nat) :
    md.drop (handleSkips md skip i) = (md.drop i).drop (skipCount skip (md.drop i)) := by
  simp [handleSkips, List.drop_drop]

theorem getElem?_eq_head?_drop (md : List (Nat × Nat)) (i : Nat) : md[i]? = (md.drop i).head? := by
  simp [List.head?_drop]

/-! ### the specification, function by function -/

theorem funcVisits_step (f n c : Nat) (h : c < n) :
    funcVisits f n c = (f, c, decide (c + 1 ≥ n)) :: funcVisits f n (c + 1) := by
  unfold funcVisits
  have : n - c = (n - (c + 1)) + 1 := by omega
  rw [this, List.range'_succ]
  simp

theorem funcVisits_done (f n c : Nat) (h : n ≤ c) : funcVisits f n c = [] := by
  unfold funcVisits
  have : n - c = 0 := by omega
  simp [this]

theorem funcVisits_length (f n c : Nat) : (funcVisits f n c).length = n - c := by
  simp [funcVisits]

theorem visits_length_le (skip : List Nat) (l : List (Nat × Nat)) : (visits skip l).length ≤ totalInstrs l := by
  induction l with
  | nil => simp [visits, totalInstrs]
  | cons p l ih =>
    simp only [visits, totalInstrs, List.map_cons, List.sum_cons, List.length_append] at *
    split
    · simp; omega
    · rw [funcVisits_length]; omega

/-! ### the module iterator follows the specification -/

/-- the iterator stands on instruction `c` of a function that is visited -/
structure Good (it : ModIt) (f n c : Nat) : Prop where
  at_ : it.md[it.idx]? = some (f, n)
  unskipped : skipped it.skip f = false
  fit : it.fit = ⟨c, n⟩
  inRange : c < n

/-- what remains to be visited from a good state -/
def remaining (it : ModIt) (f n c : Nat) : List Visit :=
  funcVisits f n c ++ visits it.skip (it.md.drop (it.idx + 1))

def AllNonEmpty (md : List (Nat × Nat)) : Prop := ∀ p ∈ md, 1 ≤ p.2

theorem good_visit {it f n c} (g : Good it f n c) : it.visit = some (f, c, decide (c + 1 ≥ n)) := by
  have hlt : it.idx < it.md.length := by
    have := g.at_; rcases Nat.lt_or_ge it.idx it.md.length with h | h
    · exact h
    · simp [List.getElem?_eq_none h] at this
  have : it.atEnd = false := by simp [ModIt.atEnd]; omega
  simp [ModIt.visit, this, ModIt.currLoc, g.at_, g.fit, FuncIt.isEnd]

/-- landing on the next visited function -/
theorem good_after_skip {md : List (Nat × Nat)} {skip : List Nat} (hne : AllNonEmpty md) (i : Nat)
    (hex : (md.drop i).any (fun p => !skipped skip p.1) = true) :
    let j := handleSkips md skip i
    ∃ f n, md[j]? = some (f, n) ∧ skipped skip f = false ∧ 0 < n
      ∧ visits skip (md.drop i) = funcVisits f n 0 ++ visits skip (md.drop (j + 1)) := by
  intro j
  have hne' := (any_unskipped_iff skip (md.drop i)).mp hex
  have hd : md.drop j = (md.drop i).drop (skipCount skip (md.drop i)) := drop_handleSkips md skip i
  cases hl : md.drop j with
  | nil => rw [hd] at hl; exact absurd hl hne'
  | cons p rest =>
    obtain ⟨f, n⟩ := p
    have hget : md[j]? = some (f, n) := by rw [getElem?_eq_head?_drop, hl]; rfl
    have hunsk : skipped skip f = false := by
      apply head_drop_skipCount skip (md.drop i) (f, n)
      rw [← hd, hl]; rfl
    have hmem : (f, n) ∈ md := List.mem_of_getElem? hget
    have hrest : md.drop (j + 1) = rest := by
      have : md.drop (j + 1) = (md.drop j).drop 1 := by simp [List.drop_drop, Nat.add_comm]
      rw [this, hl]; rfl
    refine ⟨f, n, hget, hunsk, hne _ hmem, ?_⟩
    rw [← visits_drop_skipCount skip (md.drop i), ← hd, hl, hrest]
    simp [visits, hunsk]

theorem good_next {it f n c} (hne : AllNonEmpty it.md) (g : Good it f n c) :
    (it.next.2 = true ∧ ∃ f' n' c', Good it.next.1 f' n' c' ∧ it.next.1.md = it.md ∧ it.next.1.skip = it.skip
        ∧ remaining it f n c = (f, c, decide (c + 1 ≥ n)) :: remaining it.next.1 f' n' c')
    ∨ (it.next.2 = false ∧ remaining it f n c = [(f, c, decide (c + 1 ≥ n))]) := by
  have hstep := funcVisits_step f n c g.inRange
  by_cases h1 : c + 1 < n
  · left
    have hn : it.fit.hasNext = true := by simp [FuncIt.hasNext, g.fit, h1]
    refine ⟨by simp [ModIt.next, hn], f, n, c + 1, ⟨?_, ?_, ?_, h1⟩, by simp [ModIt.next, hn], by simp [ModIt.next, hn], ?_⟩
    · simpa [ModIt.next, hn] using g.at_
    · simpa [ModIt.next, hn] using g.unskipped
    · simp only [ModIt.next, hn, if_true]; rw [g.fit]
    · simp [remaining, ModIt.next, hn, hstep]
  · have hn : it.fit.hasNext = false := by simp [FuncIt.hasNext, g.fit]; omega
    have hdone : funcVisits f n (c + 1) = [] := funcVisits_done f n (c + 1) (by omega)
    by_cases h2 : it.hasNextFunction = true
    · left
      have hex : (it.md.drop (it.idx + 1)).any (fun p => !skipped it.skip p.1) = true := h2
      obtain ⟨f', n', hget, hunsk, hpos, hvis⟩ := good_after_skip hne (it.idx + 1) hex
      refine ⟨by simp [ModIt.next, hn, ModIt.nextFunction, h2], f', n', 0, ⟨?_, ?_, ?_, hpos⟩,
        by simp [ModIt.next, hn, ModIt.nextFunction, h2], by simp [ModIt.next, hn, ModIt.nextFunction, h2], ?_⟩
      · simpa [ModIt.next, hn, ModIt.nextFunction, h2] using hget
      · simpa [ModIt.next, hn, ModIt.nextFunction, h2] using hunsk
      · simp [ModIt.next, hn, ModIt.nextFunction, h2, numInstrsAt, hget]
      · simp only [remaining, hstep, hdone, List.cons_append, List.nil_append, hvis]
        simp [ModIt.next, hn, ModIt.nextFunction, h2]
    · right
      have h2' : it.hasNextFunction = false := by simpa using h2
      refine ⟨by simp [ModIt.next, hn, ModIt.nextFunction, h2'], ?_⟩
      have := visits_nil_of_none_unskipped it.skip (it.md.drop (it.idx + 1)) h2'
      simp [remaining, hstep, hdone, this]

theorem trace_good (fuel : Nat) : ∀ {it f n c}, AllNonEmpty it.md → Good it f n c →
    (remaining it f n c).length ≤ fuel + 1 → it.trace fuel = remaining it f n c := by
  induction fuel with
  | zero =>
    intro it f n c hne g hlen
    rcases good_next hne g with ⟨_, f', n', c', g', _, _, hrem⟩ | ⟨_, hrem⟩
    · exfalso
      rw [hrem] at hlen
      have : 0 < (remaining it.next.1 f' n' c').length := by
        unfold remaining; rw [funcVisits_step f' n' c' g'.inRange]; simp
      simp only [List.length_cons] at hlen; omega
    · unfold ModIt.trace; rw [good_visit g, hrem]
  | succ k ih =>
    intro it f n c hne g hlen
    unfold ModIt.trace
    rw [good_visit g]
    rcases good_next hne g with ⟨hb, f', n', c', g', hmd, _, hrem⟩ | ⟨hb, hrem⟩
    · simp only [hb, if_true]
      rw [hrem, ih (by rw [hmd]; exact hne) g' (by rw [hrem] at hlen; simpa using hlen)]
    · simp [hb, hrem]

/-- a freshly built (or reset) iterator: either nothing is visited, or it is in a good state with everything
    remaining -/
theorem new_spec (md : List (Nat × Nat)) (skip : List Nat) (hne : AllNonEmpty md) :
    ((ModIt.new md skip).visit = none ∧ visits skip md = [])
    ∨ ∃ f n, Good (ModIt.new md skip) f n 0 ∧ remaining (ModIt.new md skip) f n 0 = visits skip md := by
  by_cases hex : md.any (fun p => !skipped skip p.1) = true
  · right
    have hex' : (md.drop 0).any (fun p => !skipped skip p.1) = true := by simpa using hex
    obtain ⟨f, n, hget, hunsk, hpos, hvis⟩ := good_after_skip hne 0 hex'
    refine ⟨f, n, ⟨by simpa [ModIt.new] using hget, by simpa [ModIt.new] using hunsk,
      by simp [ModIt.new, numInstrsAt, hget], hpos⟩, ?_⟩
    simp only [List.drop_zero] at hvis
    simp [remaining, ModIt.new, hvis]
  · left
    have hex' : md.any (fun p => !skipped skip p.1) = false := by simpa using hex
    refine ⟨?_, visits_nil_of_none_unskipped skip md hex'⟩
    have hnil : md.drop (skipCount skip md) = [] := by
      cases hc : md.drop (skipCount skip md) with
      | nil => rfl
      | cons a b =>
        have := (any_unskipped_iff skip md).mpr (by rw [hc]; simp)
        rw [hex'] at this; exact absurd this (by simp)
    have hge : md.length ≤ skipCount skip md := by
      have := congrArg List.length hnil; simp at this; omega
    simp [ModIt.visit, ModIt.atEnd, ModIt.new, handleSkips, hge]

theorem reset_eq_new (it : ModIt) : it.reset = ModIt.new it.md it.skip := by
  simp [ModIt.reset, ModIt.new]

theorem next_preserves (it : ModIt) : it.next.1.md = it.md ∧ it.next.1.skip = it.skip := by
  unfold ModIt.next ModIt.nextFunction
  split
  · simp
  · split <;> simp

end Orca.Iter

namespace Orca.Iter

/-! ### components -/

theorem next_snd_eq_hasNext (it : ModIt) : it.next.2 = it.hasNext := by
  unfold ModIt.next ModIt.hasNext ModIt.nextFunction
  cases h1 : it.fit.hasNext <;> cases h2 : it.hasNextFunction <;> simp

theorem atEnd_new_iff (md : List (Nat × Nat)) (skip : List Nat) (hne : AllNonEmpty md) :
    ((ModIt.new md skip).atEnd = true → visits skip md = [])
    ∧ ((ModIt.new md skip).atEnd = false →
        ∃ f n, Good (ModIt.new md skip) f n 0 ∧ remaining (ModIt.new md skip) f n 0 = visits skip md) := by
  rcases new_spec md skip hne with ⟨hv, hnil⟩ | ⟨f, n, g, hr⟩
  · refine ⟨fun _ => hnil, fun h => ?_⟩
    exfalso
    simp only [ModIt.visit, h, Bool.false_eq_true, if_false, ModIt.currLoc] at hv
    have hlt : (ModIt.new md skip).idx < (ModIt.new md skip).md.length := by
      simp [ModIt.atEnd] at h; exact h
    rw [List.getElem?_eq_getElem hlt] at hv
    simp at hv
  · refine ⟨fun h => ?_, fun _ => ⟨f, n, g, hr⟩⟩
    exfalso
    have := good_visit g
    simp [ModIt.visit, h] at this

def AllModsNonEmpty (mds : List (List (Nat × Nat))) : Prop := ∀ md ∈ mds, AllNonEmpty md

theorem getD_nonEmpty {mds : List (List (Nat × Nat))} (h : AllModsNonEmpty mds) (m : Nat) :
    AllNonEmpty (mds[m]?.getD []) := by
  cases hm : mds[m]? with
  | none => intro p hp; simp at hp
  | some md => exact h md (List.mem_of_getElem? hm)

theorem compVisitsFrom_drop_step (skips : List (List Nat)) (mds : List (List (Nat × Nat))) (m : Nat)
    (h : m < mds.length) :
    compVisitsFrom skips m (mds.drop m)
      = (visits (skips[m]?.getD []) (mds[m]?.getD [])).map (fun v => (m, v))
        ++ compVisitsFrom skips (m + 1) (mds.drop (m + 1)) := by
  rw [List.drop_eq_getElem_cons h]
  simp [compVisitsFrom, List.getElem?_eq_getElem h]

theorem compVisitsFrom_drop_done (skips : List (List Nat)) (mds : List (List (Nat × Nat))) (m : Nat)
    (h : mds.length ≤ m) : compVisitsFrom skips m (mds.drop m) = [] := by
  rw [List.drop_eq_nil_of_le h]; rfl

/-- the `next_module` loop: it stops at the next module with something to visit, and every module it
    passes over contributes nothing to the specification -/
theorem nextModuleAux_spec (mds : List (List (Nat × Nat))) (skips : List (List Nat)) (hne : AllModsNonEmpty mds) :
    ∀ (fuel cur : Nat) (mit : ModIt), mds.length - cur + 1 ≤ fuel → cur ≤ mds.length →
    let r := nextModuleAux mds skips mds.length fuel cur mit
    (r.2.2 = true → cur < r.1 ∧ r.1 < mds.length ∧ r.2.1 = modItFor mds skips r.1 ∧ r.2.1.atEnd = false
        ∧ compVisitsFrom skips (cur + 1) (mds.drop (cur + 1)) = compVisitsFrom skips r.1 (mds.drop r.1))
    ∧ (r.2.2 = false → r.1 = mds.length ∧ compVisitsFrom skips (cur + 1) (mds.drop (cur + 1)) = []) := by
  intro fuel
  induction fuel with
  | zero => intro cur mit h; omega
  | succ k ih =>
    intro cur mit hfuel hle
    simp only [nextModuleAux]
    by_cases h1 : cur < mds.length
    · simp only [h1, if_true]
      by_cases h2 : cur + 1 < mds.length
      · simp only [h2, if_true]
        cases he : (modItFor mds skips (cur + 1)).atEnd with
        | false =>
          simp only [Bool.not_false, if_true]
          exact ⟨fun _ => ⟨by omega, h2, by trivial, he, by trivial⟩, fun h => by simp at h⟩
        | true =>
          simp only [Bool.not_true, Bool.false_eq_true, if_false]
          have hrec := ih (cur + 1) (modItFor mds skips (cur + 1)) (by omega) (by omega)
          have hempty : visits (skips[cur + 1]?.getD []) (mds[cur + 1]?.getD []) = [] :=
            (atEnd_new_iff _ _ (getD_nonEmpty hne (cur + 1))).1 he
          have hstep := compVisitsFrom_drop_step skips mds (cur + 1) h2
          rw [hempty] at hstep
          simp only [List.map_nil, List.nil_append] at hstep
          refine ⟨fun hb => ?_, fun hb => ?_⟩
          · obtain ⟨a, b, c, d, e⟩ := hrec.1 hb
            exact ⟨by omega, b, c, d, by rw [hstep, e]⟩
          · obtain ⟨a, e⟩ := hrec.2 hb
            exact ⟨a, by rw [hstep, e]⟩
      · simp only [h2, if_false]
        have hdone := compVisitsFrom_drop_done skips mds (cur + 1) (by omega)
        -- the recursive call sees `cur + 1 ≥ len` and stops at once
        cases k with
        | zero => omega
        | succ k' =>
          simp only [nextModuleAux, show ¬ (cur + 1 < mds.length) from h2, if_false]
          exact ⟨fun h => by simp at h, fun _ => ⟨by omega, hdone⟩⟩
    · simp only [h1, if_false]
      exact ⟨fun h => by simp at h, fun _ => ⟨by omega, compVisitsFrom_drop_done skips mds (cur + 1) (by omega)⟩⟩

/-- the component iterator stands on a visited instruction of module `cur` -/
structure CGood (c : CompIt) (f n ci : Nat) : Prop where
  inRange : c.cur < c.num
  num_eq : c.num = c.mds.length
  good : Good c.mit f n ci
  md_eq : c.mit.md = c.mds[c.cur]?.getD []
  skip_eq : c.mit.skip = c.skips[c.cur]?.getD []

def compRemaining (c : CompIt) (f n ci : Nat) : List (Nat × Visit) :=
  (remaining c.mit f n ci).map (fun v => (c.cur, v))
    ++ compVisitsFrom c.skips (c.cur + 1) (c.mds.drop (c.cur + 1))

theorem cgood_visit {c f n ci} (g : CGood c f n ci) : c.visit = some (c.cur, (f, ci, decide (ci + 1 ≥ n))) := by
  have h1 : c.atEnd = false := by
    have := g.inRange; simp [CompIt.atEnd]; omega
  have h2 := good_visit g.good
  have hlt : c.mit.atEnd = false := by
    cases h : c.mit.atEnd with
    | false => rfl
    | true => simp [ModIt.visit, h] at h2
  simp only [ModIt.visit, hlt, Bool.false_eq_true, if_false] at h2
  simp [CompIt.visit, h1, h2]

theorem cgood_of_nextModule {c : CompIt} (hne : AllModsNonEmpty c.mds) (hnum : c.num = c.mds.length)
    (hle : c.cur ≤ c.num) :
    (c.nextModule.2 = true → ∃ f n, CGood c.nextModule.1 f n 0
        ∧ c.nextModule.1.mds = c.mds ∧ c.nextModule.1.skips = c.skips
        ∧ compVisitsFrom c.skips (c.cur + 1) (c.mds.drop (c.cur + 1)) = compRemaining c.nextModule.1 f n 0)
    ∧ (c.nextModule.2 = false → c.nextModule.1.atEnd = true)
    ∧ (c.nextModule.2 = false → compVisitsFrom c.skips (c.cur + 1) (c.mds.drop (c.cur + 1)) = []) := by
  have hs := nextModuleAux_spec c.mds c.skips hne (c.num - c.cur + 1) c.cur c.mit (by rw [hnum]; omega)
    (by rw [← hnum]; exact hle)
  simp only at hs
  unfold CompIt.nextModule
  simp only [hnum] at hs ⊢
  refine ⟨fun hb => ?_, fun hb => ?_, fun hb => (hs.2 hb).2⟩
  · obtain ⟨a, b, cc, d, e⟩ := hs.1 hb
    obtain ⟨f, n, g, hr⟩ := (atEnd_new_iff _ _ (getD_nonEmpty hne _)).2 (by rw [cc] at d; exact d)
    refine ⟨f, n, ⟨by simpa [hnum] using b, by simpa using hnum, by (show Good _ f n 0); rw [cc]; exact g,
      by (show ModIt.md _ = _); rw [cc]; rfl, by (show ModIt.skip _ = _); rw [cc]; rfl⟩, by trivial, by trivial, ?_⟩
    rw [e, compVisitsFrom_drop_step _ _ _ b]
    simp only [compRemaining, cc]
    rw [← hr]
    rfl
  · have := (hs.2 hb).1
    simp [CompIt.atEnd, hnum, this]

theorem cgood_next {c f n ci} (hne : AllModsNonEmpty c.mds) (g : CGood c f n ci) :
    (c.next.2 = true ∧ ∃ f' n' ci', CGood c.next.1 f' n' ci' ∧ c.next.1.mds = c.mds
        ∧ compRemaining c f n ci = (c.cur, (f, ci, decide (ci + 1 ≥ n))) :: compRemaining c.next.1 f' n' ci')
    ∨ (c.next.2 = false ∧ compRemaining c f n ci = [(c.cur, (f, ci, decide (ci + 1 ≥ n)))]) := by
  have hmne : AllNonEmpty c.mit.md := by rw [g.md_eq]; exact getD_nonEmpty hne _
  have hnx := next_snd_eq_hasNext c.mit
  rcases good_next hmne g.good with ⟨hb, f', n', c', g', hmd, hsk, hrem⟩ | ⟨hb, hrem⟩
  · left
    have hh : c.mit.hasNext = true := by rw [← hnx]; exact hb
    refine ⟨by simp [CompIt.next, hh, hb], f', n', c', ⟨?_, ?_, ?_, ?_, ?_⟩, by simp [CompIt.next, hh], ?_⟩
    · simpa [CompIt.next, hh] using g.inRange
    · simpa [CompIt.next, hh] using g.num_eq
    · simpa [CompIt.next, hh] using g'
    · simp only [CompIt.next, hh, if_true]; rw [hmd]; exact g.md_eq
    · simp only [CompIt.next, hh, if_true]; rw [hsk]; exact g.skip_eq
    · simp only [compRemaining, hrem, List.map_cons, List.cons_append]
      simp [CompIt.next, hh]
  · have hh : c.mit.hasNext = false := by rw [← hnx]; exact hb
    have hnm := cgood_of_nextModule (c := c) hne g.num_eq (Nat.le_of_lt g.inRange)
    cases hb2 : c.nextModule.2 with
    | true =>
      left
      obtain ⟨f', n', g', hmds, hsks, hv⟩ := hnm.1 hb2
      refine ⟨by simp [CompIt.next, hh, hb2], f', n', 0, by simpa [CompIt.next, hh] using g',
        by simpa [CompIt.next, hh] using hmds, ?_⟩
      simp only [compRemaining, hrem, List.map_cons, List.map_nil, List.cons_append, List.nil_append]
      rw [hv]
      simp [CompIt.next, hh, compRemaining]
    | false =>
      right
      refine ⟨by simp [CompIt.next, hh, hb2], ?_⟩
      simp [compRemaining, hrem, hnm.2.2 hb2]

theorem comp_trace_good (fuel : Nat) : ∀ {c f n ci}, AllModsNonEmpty c.mds → CGood c f n ci →
    (compRemaining c f n ci).length ≤ fuel + 1 → c.trace fuel = compRemaining c f n ci := by
  induction fuel with
  | zero =>
    intro c f n ci hne g hlen
    rcases cgood_next hne g with ⟨_, f', n', c', g', _, hrem⟩ | ⟨_, hrem⟩
    · exfalso
      rw [hrem] at hlen
      have : 0 < (compRemaining c.next.1 f' n' c').length := by
        unfold compRemaining remaining; rw [funcVisits_step f' n' c' g'.good.inRange]; simp
      simp only [List.length_cons] at hlen; omega
    · unfold CompIt.trace; rw [cgood_visit g, hrem]
  | succ k ih =>
    intro c f n ci hne g hlen
    unfold CompIt.trace
    rw [cgood_visit g]
    rcases cgood_next hne g with ⟨hb, f', n', c', g', hmds, hrem⟩ | ⟨hb, hrem⟩
    · simp only [hb, if_true]
      rw [hrem, ih (by rw [hmds]; exact hne) g' (by rw [hrem] at hlen; simpa using hlen)]
    · simp [hb, hrem]

end Orca.Iter

namespace Orca.Iter

theorem comp_new_spec (mds : List (List (Nat × Nat))) (skips : List (List Nat)) (hne : AllModsNonEmpty mds) :
    ((CompIt.new mds skips).visit = none ∧ compVisits mds skips = [])
    ∨ ∃ f n, CGood (CompIt.new mds skips) f n 0 ∧ (CompIt.new mds skips).mds = mds
        ∧ compRemaining (CompIt.new mds skips) f n 0 = compVisits mds skips := by
  let c0 : CompIt := { cur := 0, num := mds.length, mit := modItFor mds skips 0, mds := mds, skips := skips }
  have hnew : CompIt.new mds skips = if c0.mit.atEnd then c0.nextModule.1 else c0 := rfl
  have hat := atEnd_new_iff (mds[0]?.getD []) (skips[0]?.getD []) (getD_nonEmpty hne 0)
  cases he : c0.mit.atEnd with
  | false =>
    rw [hnew, he]; simp only [Bool.false_eq_true, if_false]
    obtain ⟨f, n, g, hr⟩ := hat.2 he
    have hlen : 0 < mds.length := by
      rcases Nat.eq_zero_or_pos mds.length with h0 | h0
      · have : mds = [] := List.length_eq_zero_iff.mp h0
        subst this
        have : c0.mit.atEnd = true := by
          simp [c0, modItFor, ModIt.new, ModIt.atEnd, handleSkips, skipCount]
        rw [this] at he; exact absurd he (by simp)
      · exact h0
    right
    refine ⟨f, n, ⟨hlen, rfl, g, rfl, rfl⟩, rfl, ?_⟩
    show (remaining (modItFor mds skips 0) f n 0).map _ ++ compVisitsFrom skips 1 (mds.drop 1) = _
    have h0 := compVisitsFrom_drop_step skips mds 0 hlen
    simp only [List.drop_zero, Nat.zero_add] at h0
    unfold compVisits
    rw [h0]
    show (remaining (ModIt.new _ _) f n 0).map _ ++ _ = _
    rw [hr]
  | true =>
    rw [hnew, he]; simp only [if_true]
    have hv0 : visits (skips[0]?.getD []) (mds[0]?.getD []) = [] := hat.1 he
    have hcv : compVisits mds skips = compVisitsFrom skips 1 (mds.drop 1) := by
      unfold compVisits
      rcases Nat.eq_zero_or_pos mds.length with h0 | h0
      · have : mds = [] := List.length_eq_zero_iff.mp h0
        subst this; rfl
      · have := compVisitsFrom_drop_step skips mds 0 h0
        simp only [List.drop_zero, Nat.zero_add] at this
        rw [this, hv0]; rfl
    have hnm := cgood_of_nextModule (c := c0) hne rfl (Nat.zero_le _)
    cases hb : c0.nextModule.2 with
    | true =>
      right
      obtain ⟨f, n, g, hmds, _, hv⟩ := hnm.1 hb
      exact ⟨f, n, g, hmds, by rw [hcv]; exact hv.symm⟩
    | false =>
      left
      refine ⟨?_, by rw [hcv]; exact hnm.2.2 hb⟩
      simp [CompIt.visit, hnm.2.1 hb]

end Orca.Iter
